// Demonstration of finding F21 (C04), broker copy. Appended to rumqttd/src/protocol/v5/publish.rs.
// The property reader counts every Subscription Identifier one byte too many (`cursor += 1 + id_len` after the
// identifier byte was already counted), so with a few identifiers it stops before the end of the property section:
// the last property is lost and its bytes end up at the front of the payload.
#[cfg(test)]
mod verif_demo_f21 {
    use super::*;
    use bytes::BytesMut;

    #[test]
    fn f21_publish_with_subscription_identifiers_round_trips() {
        let publish = Publish {
            dup: false,
            qos: QoS::AtMostOnce,
            retain: false,
            topic: "t".into(),
            pkid: 0,
            payload: "payload".into(),
        };
        let properties = Some(PublishProperties {
            payload_format_indicator: None,
            message_expiry_interval: None,
            topic_alias: None,
            response_topic: None,
            correlation_data: None,
            user_properties: vec![],
            subscription_identifiers: vec![1, 2, 3],
            content_type: Some(String::new()),
        });
        let mut buffer = BytesMut::new();
        write(&publish, &properties, &mut buffer).unwrap();
        let fixed_header = parse_fixed_header(buffer.iter()).unwrap();
        let frame = buffer.split_to(fixed_header.frame_length()).freeze();
        let (decoded, decoded_properties) = read(fixed_header, frame).unwrap();
        assert_eq!(decoded_properties, properties);
        assert_eq!(decoded, publish);
    }
}
