// Demonstration of finding F31 (C17, open): when a persistent member of a shared group disconnects with an
// unacknowledged forward, handle_disconnection sets the GROUP's cursor back to that forward. Everything the other
// members received (and acknowledged) since then is read and forwarded a second time.
// Uses router_demo_support.rs. Appended to rumqttd/src/router/routing.rs.
#[cfg(test)]
mod verif_demo_f31 {
    use super::verif_support::*;
    use super::*;

    fn take(router: &mut Router, id: ConnectionId) -> Vec<(u16, String)> {
        let mut out = vec![];
        for n in router.obufs.get_mut(id).unwrap().data_buffer.lock().drain(..) {
            if let Notification::Forward(f) = n {
                out.push((f.publish.pkid, String::from_utf8_lossy(&f.publish.payload).to_string()));
            }
        }
        out
    }

    #[test]
    fn f31_messages_acknowledged_by_one_member_are_not_forwarded_again_when_another_leaves() {
        let mut router = router();
        let a = connect(&mut router, "a", false); // persistent member
        let b = connect(&mut router, "b", true);
        let publisher = connect(&mut router, "pub", true);
        send(&mut router, a, vec![subscribe("$share/g/jobs", QoS::AtLeastOnce, 1)]);
        send(&mut router, b, vec![subscribe("$share/g/jobs", QoS::AtLeastOnce, 1)]);
        drain(&mut router);
        let mut seen_by_b = vec![];
        for m in ["j1", "j2", "j3", "j4"] {
            send(&mut router, publisher, vec![publish("jobs", QoS::AtLeastOnce, 9, m)]);
            drain(&mut router);
            // b acknowledges everything it gets at once, a never acknowledges
            for (pkid, payload) in take(&mut router, b) {
                seen_by_b.push(payload);
                send(&mut router, b, vec![Packet::PubAck(PubAck { pkid, reason: PubAckReason::Success }, None)]);
                drain(&mut router);
            }
        }
        let seen_by_a: Vec<String> = take(&mut router, a).into_iter().map(|x| x.1).collect();
        assert_eq!(seen_by_a.len() + seen_by_b.len(), 4, "a: {seen_by_a:?} b: {seen_by_b:?}");
        // a's link fails with its forwards unacknowledged
        router.events(a, Event::Disconnect);
        drain(&mut router);
        // the next message wakes the remaining member
        send(&mut router, publisher, vec![publish("jobs", QoS::AtLeastOnce, 9, "j5")]);
        drain(&mut router);
        let again: Vec<String> = take(&mut router, b).into_iter().map(|x| x.1).collect();
        for payload in &again {
            assert!(!seen_by_b.contains(payload), "{payload} was forwarded to b twice (b had acknowledged it); b now got {again:?}");
        }
    }
}
