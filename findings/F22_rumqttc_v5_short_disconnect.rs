// Demonstration of finding F22 (C04), rumqttc MQTT 5 codec. Appended to rumqttc/src/v5/mqttbytes/v5/mod.rs.
// The two-byte DISCONNECT `E0 00` (normal disconnection, reason code and properties omitted) is what both this
// codec and the broker's write for a normal disconnect, and Disconnect::read accepts it — but Packet::read answers
// PayloadRequired for every zero-length packet other than PINGREQ/PINGRESP, so the frame cannot be decoded.
#[cfg(test)]
mod verif_demo_f22 {
    use super::*;
    use bytes::BytesMut;

    #[test]
    fn f22_normal_disconnect_round_trips_through_packet_read() {
        let disconnect = Disconnect::new(DisconnectReasonCode::NormalDisconnection);
        let mut buffer = BytesMut::new();
        Packet::Disconnect(disconnect.clone()).write(&mut buffer, None).unwrap();
        assert_eq!(&buffer[..], &[0xE0, 0x00]);
        let decoded = Packet::read(&mut buffer, None).expect("E0 00 is a valid MQTT 5 DISCONNECT");
        assert_eq!(decoded, Packet::Disconnect(disconnect));
        assert!(buffer.is_empty());
    }
}
