// Demonstration of finding F11 (C17): when a forward to a shared-group member ends with
// ConsumeStatus::BufferFull, the advanced cursor is not written back to the group, so the next read
// for the group starts at the old cursor and the same messages are forwarded a second time.
// Uses router_demo_support.rs. On the pinned tree the assertion fails (message forwarded twice);
// after the fix it passes.
#[cfg(test)]
mod verif_demo_f11 {
    use super::verif_support::*;
    use super::*;
    use crate::router::shared_subs::Strategy;

    #[test]
    fn buffer_full_batch_is_not_forwarded_twice() {
        let config = RouterConfig {
            max_segment_size: 1024 * 1024,
            max_connections: 10,
            max_segment_count: 10,
            max_outgoing_packet_count: 300,
            custom_segment: None,
            initialized_filters: None,
            shared_subscriptions_strategy: Strategy::Sticky,
        };
        let mut router = Router::new(0, config);
        let sub = connect(&mut router, "sub", true);
        let publisher = connect(&mut router, "pub", true);
        send(&mut router, sub, vec![subscribe("$share/g/t", QoS::AtMostOnce, 1)]);
        drain(&mut router);
        // 250 QoS 0 messages in one batch: more than the outgoing buffer's capacity (200)
        let batch: Vec<Packet> = (0..250)
            .map(|i| publish("t", QoS::AtMostOnce, 0, &format!("m{i}")))
            .collect();
        send(&mut router, publisher, batch);
        drain(&mut router); // first forward: fills the buffer, BufferFull, connection paused Busy
        // the link drains its buffer and reports Ready
        let first: Vec<_> = router.obufs.get(sub).unwrap().data_buffer.lock().drain(..).collect();
        router.events(sub, Event::Ready);
        drain(&mut router);
        let second: Vec<_> = router.obufs.get(sub).unwrap().data_buffer.lock().drain(..).collect();
        let count = |v: &Vec<Notification>, payload: &str| {
            v.iter()
                .filter(|n| matches!(n, Notification::Forward(f) if f.publish.payload == payload))
                .count()
        };
        let total = count(&first, "m0") + count(&second, "m0");
        assert_eq!(total, 1, "message m0 was forwarded {total} times to the same group member");
    }
}
