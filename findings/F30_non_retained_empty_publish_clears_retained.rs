// Demonstration of finding F30 (C15): a publish with an empty payload removes the topic's retained message even when
// its RETAIN flag is not set. A new subscription then no longer receives the most recent retained message.
// Uses router_demo_support.rs. Appended to rumqttd/src/router/routing.rs.
#[cfg(test)]
mod verif_demo_f30 {
    use super::verif_support::*;
    use super::*;

    fn retained(topic: &str, payload: &str, retain: bool) -> Packet {
        match publish(topic, QoS::AtMostOnce, 0, payload) {
            Packet::Publish(mut p, props) => {
                p.retain = retain;
                Packet::Publish(p, props)
            }
            _ => unreachable!(),
        }
    }

    fn forwards(router: &mut Router, id: ConnectionId) -> Vec<(String, bool)> {
        let mut out = vec![];
        for n in router.obufs.get_mut(id).unwrap().data_buffer.lock().drain(..) {
            if let Notification::Forward(f) = n {
                out.push((String::from_utf8_lossy(&f.publish.payload).to_string(), f.publish.retain));
            }
        }
        out
    }

    fn scenario(clearing_publish_is_retained: bool) -> Vec<(String, bool)> {
        let mut router = router();
        let publisher = connect(&mut router, "pub", true);
        // somebody has to be subscribed, otherwise the router refuses the publishes
        let other = connect(&mut router, "other", true);
        send(&mut router, other, vec![subscribe("state/#", QoS::AtMostOnce, 1)]);
        drain(&mut router);
        send(&mut router, publisher, vec![retained("state/door", "open", true)]);
        drain(&mut router);
        send(&mut router, publisher, vec![retained("state/door", "", clearing_publish_is_retained)]);
        drain(&mut router);
        let sub = connect(&mut router, "sub", true);
        send(&mut router, sub, vec![subscribe("state/door", QoS::AtMostOnce, 1)]);
        drain(&mut router);
        forwards(&mut router, sub)
    }

    #[test]
    fn control_retained_empty_publish_clears_the_retained_message() {
        assert!(scenario(true).is_empty());
    }

    #[test]
    fn f30_plain_empty_publish_leaves_the_retained_message_alone() {
        assert_eq!(scenario(false), [("open".to_owned(), true)]);
    }
}
