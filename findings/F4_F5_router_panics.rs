// Demonstrations of findings F4 and F5 (C03). With router_demo_support.rs appended to
// rumqttd/src/router/routing.rs of the pinned tree, each test panics the calling (router) thread:
//   F4: "called `Option::unwrap()` on a `None` value" (scheduler.rs) / slab "invalid key"
//   F5: "group must exists"
#[cfg(test)]
mod verif_demo_f4_f5 {
    use super::verif_support::*;
    use super::*;

    // F4a: a link's late `Ready` (sent after it saw Notification::Unschedule) arrives after the
    // router already removed the connection (takeover, protocol error, earlier Disconnect)
    #[test]
    fn f4_late_ready_for_removed_connection() {
        let mut router = router();
        let id = connect(&mut router, "a", true);
        router.events(id, Event::Disconnect);
        router.events(id, Event::Ready);
    }

    // F4b: same for a shadow request
    #[test]
    fn f4_late_shadow_for_removed_connection() {
        let mut router = router();
        let id = connect(&mut router, "a", true);
        router.events(id, Event::Disconnect);
        router.events(
            id,
            Event::Shadow(ShadowRequest {
                filter: "t".to_owned(),
            }),
        );
    }

    // F5: the only member of a shared group, persistent session, disconnects with an
    // unacknowledged QoS 1 forward
    #[test]
    fn f5_last_group_member_disconnects_with_inflight() {
        let mut router = router();
        let sub = connect(&mut router, "sub", false);
        let publisher = connect(&mut router, "pub", true);
        send(&mut router, sub, vec![subscribe("$share/g/t", QoS::AtLeastOnce, 1)]);
        drain(&mut router);
        send(&mut router, publisher, vec![publish("t", QoS::AtLeastOnce, 1, "x")]);
        drain(&mut router);
        // the forward is now inflight towards `sub`; its link goes away without acking
        router.events(sub, Event::Disconnect);
    }
}
