// Demonstrations of findings F6, F7 and F8 (C02, C07), MQTT 5 client. Appended to
// rumqttc/src/v5/state.rs. On the pinned tree all fail; after the fixes all pass.
#[cfg(test)]
mod verif_demo_f6_f7_f8 {
    use super::mqttbytes::v5::*;
    use super::mqttbytes::*;
    use super::*;

    fn publish(qos: QoS, payload: u8) -> Publish {
        Publish::new("hello/world", qos, vec![payload], None)
    }

    fn three_publishes(first_qos: QoS) -> MqttState {
        let mut state = MqttState::new(2, false);
        state.handle_outgoing_packet(Request::Publish(publish(first_qos, 1))).unwrap(); // id 1
        state.handle_outgoing_packet(Request::Publish(publish(QoS::AtLeastOnce, 2))).unwrap(); // id 2
        state.handle_outgoing_packet(Request::Publish(publish(QoS::AtLeastOnce, 3))).unwrap(); // collides on 1
        assert!(state.collision.is_some());
        state
    }

    #[test]
    fn f7_clean_returns_the_parked_collision() {
        let mut state = three_publishes(QoS::AtLeastOnce);
        let pending = state.clean();
        let n = pending.iter().filter(|r| matches!(r, Request::Publish(_))).count();
        assert_eq!(n, 3, "accepted publish 3 is not queued for retransmission");
        assert!(state.collision.is_none(), "collision slot survives clean()");
    }

    #[test]
    fn f6_collision_resent_on_pubcomp_is_recorded() {
        let mut state = three_publishes(QoS::ExactlyOnce);
        state.handle_incoming_packet(Incoming::PubRec(PubRec::new(1, None))).unwrap();
        let out = state.handle_incoming_packet(Incoming::PubComp(PubComp::new(1, None))).unwrap();
        assert!(matches!(out, Some(Packet::Publish(ref p)) if p.pkid == 1), "parked publish is sent");
        assert!(state.outgoing_pub[1].is_some(), "resent publish is not held for retransmission");
        assert_eq!(state.inflight, 2);
    }

    #[test]
    fn f6_unsolicited_pubcomp_does_not_drop_the_collision() {
        let mut state = three_publishes(QoS::AtLeastOnce);
        // PUBCOMP for id 1 although no release is pending: an error, but the parked publish must survive
        let r = state.handle_incoming_packet(Incoming::PubComp(PubComp::new(1, None)));
        assert!(r.is_err());
        assert!(state.collision.is_some(), "the parked publish was dropped on the error path");
    }

    #[test]
    fn f8_puback_with_failure_reason_resolves_the_collision() {
        let mut state = three_publishes(QoS::AtLeastOnce);
        let mut puback = PubAck::new(1, None);
        puback.reason = PubAckReason::UnspecifiedError;
        let out = state.handle_incoming_packet(Incoming::PubAck(puback)).unwrap();
        assert!(
            matches!(out, Some(Packet::Publish(ref p)) if p.pkid == 1) && state.collision.is_none(),
            "id 1 is free again but the publish parked on it was not sent: the event loop stays blocked"
        );
    }

    #[test]
    fn f8_pubrec_with_failure_reason_frees_the_window_slot() {
        let mut state = MqttState::new(10, false);
        state.handle_outgoing_packet(Request::Publish(publish(QoS::ExactlyOnce, 1))).unwrap();
        assert_eq!(state.inflight, 1);
        let mut pubrec = PubRec::new(1, None);
        pubrec.reason = PubRecReason::UnspecifiedError;
        state.handle_incoming_packet(Incoming::PubRec(pubrec)).unwrap();
        assert_eq!(state.inflight, 0, "the rejected QoS 2 publish still occupies a window slot");
    }

    #[test]
    fn f8_pubcomp_with_failure_reason_frees_the_window_slot() {
        let mut state = MqttState::new(10, false);
        state.handle_outgoing_packet(Request::Publish(publish(QoS::ExactlyOnce, 1))).unwrap();
        state.handle_incoming_packet(Incoming::PubRec(PubRec::new(1, None))).unwrap();
        let mut pubcomp = PubComp::new(1, None);
        pubcomp.reason = PubCompReason::PacketIdentifierNotFound;
        state.handle_incoming_packet(Incoming::PubComp(pubcomp)).unwrap();
        assert_eq!(state.inflight, 0, "the finished QoS 2 flow still occupies a window slot");
    }
}
