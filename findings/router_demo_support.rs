// Shared support for the router-level demonstrations (F4, F5, ...). Appended to
// rumqttd/src/router/routing.rs together with one or more `verif_demo_*` test modules.
#[cfg(test)]
mod verif_support {
    use super::*;
    use crate::protocol::{Filter as PFilter, RetainForwardRule, Subscribe};
    use crate::router::shared_subs::Strategy;

    pub fn router() -> Router {
        let config = RouterConfig {
            max_segment_size: 1024 * 1024,
            max_connections: 10,
            max_segment_count: 10,
            max_outgoing_packet_count: 200,
            custom_segment: None,
            initialized_filters: None,
            shared_subscriptions_strategy: Strategy::RoundRobin,
        };
        Router::new(0, config)
    }

    /// registers a connection the way LinkBuilder::build does; returns its id
    pub fn connect(router: &mut Router, client_id: &str, clean: bool) -> ConnectionId {
        let connection = Connection::new(None, client_id.to_owned(), clean, false);
        let incoming = Incoming::new(client_id.to_owned());
        let (outgoing, _rx) = Outgoing::new(client_id.to_owned());
        std::mem::forget(_rx);
        router.events(
            0,
            Event::Connect {
                connection,
                incoming,
                outgoing,
            },
        );
        *router.connection_map.get(client_id).expect("connected")
    }

    pub fn send(router: &mut Router, id: ConnectionId, packets: Vec<Packet>) {
        router.ibufs.get_mut(id).unwrap().buffer.lock().extend(packets);
        router.events(id, Event::DeviceData);
    }

    pub fn subscribe(path: &str, qos: QoS, pkid: u16) -> Packet {
        Packet::Subscribe(
            Subscribe {
                pkid,
                filters: vec![PFilter {
                    path: path.to_owned(),
                    qos,
                    nolocal: false,
                    preserve_retain: false,
                    retain_forward_rule: RetainForwardRule::OnEverySubscribe,
                }],
            },
            None,
        )
    }

    pub fn publish(topic: &str, qos: QoS, pkid: u16, payload: &str) -> Packet {
        Packet::Publish(
            Publish {
                dup: false,
                qos,
                pkid,
                retain: false,
                topic: topic.to_owned().into(),
                payload: payload.to_owned().into(),
            },
            None,
        )
    }

    pub fn drain(router: &mut Router) {
        for _ in 0..50 {
            if router.consume().is_none() {
                break;
            }
        }
    }
}
