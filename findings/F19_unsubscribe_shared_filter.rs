// Demonstration of finding F19 (C01, C17): after a successful UNSUBSCRIBE of a shared subscription
// ($share/<group>/<topic>) the connection's parked request stays in the topic log's waiters, because the
// waiters are looked up under the unstripped "$share/..." path. The next publish wakes it, it is tracked again
// and the unsubscribed client keeps receiving. Uses router_demo_support.rs. Appended to rumqttd/src/router/routing.rs.
#[cfg(test)]
mod verif_demo_f19 {
    use super::verif_support::*;
    use super::*;
    use crate::protocol::Unsubscribe;

    fn forwards(router: &mut Router, id: ConnectionId) -> Vec<String> {
        let mut out = vec![];
        for n in router.obufs.get_mut(id).unwrap().data_buffer.lock().drain(..) {
            if let Notification::Forward(f) = n {
                out.push(String::from_utf8_lossy(&f.publish.payload).to_string());
            }
        }
        out
    }

    fn scenario(filter: &str) -> (Vec<String>, Vec<String>) {
        let mut router = router();
        let sub = connect(&mut router, "sub", true);
        let publisher = connect(&mut router, "pub", true);
        send(&mut router, sub, vec![subscribe(filter, QoS::AtMostOnce, 1)]);
        drain(&mut router);
        send(&mut router, publisher, vec![publish("hello/world", QoS::AtMostOnce, 0, "m1")]);
        drain(&mut router);
        let before = forwards(&mut router, sub);
        let unsub = Packet::Unsubscribe(
            Unsubscribe {
                pkid: 2,
                filters: vec![filter.to_owned()],
            },
            None,
        );
        send(&mut router, sub, vec![unsub]);
        drain(&mut router);
        send(&mut router, publisher, vec![publish("hello/world", QoS::AtMostOnce, 0, "m2")]);
        drain(&mut router);
        send(&mut router, publisher, vec![publish("hello/world", QoS::AtMostOnce, 0, "m3")]);
        drain(&mut router);
        (before, forwards(&mut router, sub))
    }

    #[test]
    fn control_plain_filter_stops_after_unsubscribe() {
        let (before, after) = scenario("hello/world");
        assert_eq!(before, ["m1"]);
        assert!(after.is_empty(), "received after UNSUBSCRIBE: {after:?}");
    }

    #[test]
    fn f19_shared_filter_stops_after_unsubscribe() {
        let (before, after) = scenario("$share/workers/hello/world");
        assert_eq!(before, ["m1"]);
        assert!(after.is_empty(), "received after UNSUBSCRIBE of the shared filter: {after:?}");
    }
}
