// Demonstration of finding F18 (C04), client copy. Appended to rumqttc/src/v5/mqttbytes/v5/disconnect.rs.
#[cfg(test)]
mod verif_demo_f18 {
    use super::*;
    use bytes::BytesMut;

    #[test]
    fn f18_reasoned_disconnect_without_properties_round_trips() {
        let disconnect = Disconnect::new(DisconnectReasonCode::ServerShuttingDown);
        let mut buffer = BytesMut::new();
        let written = disconnect.write(&mut buffer).unwrap();
        assert_eq!(written, buffer.len(), "write() return value vs bytes produced ({:?})", &buffer[..]);
        assert_eq!(disconnect.size(), buffer.len(), "size() vs bytes produced");
        let fixed_header = parse_fixed_header(buffer.iter()).unwrap();
        assert_eq!(fixed_header.frame_length(), buffer.len(), "announced frame length vs bytes produced");
        let frame = buffer.split_to(fixed_header.frame_length()).freeze();
        assert_eq!(Disconnect::read(fixed_header, frame).unwrap(), disconnect);
    }

    #[test]
    fn f18_normal_disconnect_stays_two_bytes() {
        let disconnect = Disconnect::new(DisconnectReasonCode::NormalDisconnection);
        let mut buffer = BytesMut::new();
        assert_eq!(disconnect.write(&mut buffer).unwrap(), 2);
        assert_eq!(&buffer[..], &[0xE0, 0x00]);
        assert_eq!(disconnect.size(), 2);
    }
}
