// Demonstration of finding F9 (C06): UNSUBSCRIBE is answered with zero UNSUBACKs when a filter is
// not subscribed and with one UNSUBACK per filter when several are. Uses router_demo_support.rs.
// On the pinned tree both assertions fail; after the fix both pass.
#[cfg(test)]
mod verif_demo_f9 {
    use super::verif_support::*;
    use super::*;
    use crate::protocol::Unsubscribe;

    fn unsubacks(router: &mut Router, id: ConnectionId) -> usize {
        let acks = format!("{:?}", router.ackslog.get_mut(id).unwrap().readv());
        acks.matches("UnsubAck(").count()
    }

    #[test]
    fn unsubscribe_of_unknown_filter_is_acked_once() {
        let mut router = router();
        let c = connect(&mut router, "c", true);
        drain(&mut router);
        let unsub = Packet::Unsubscribe(
            Unsubscribe {
                pkid: 9,
                filters: vec!["never/subscribed".to_owned()],
            },
            None,
        );
        send(&mut router, c, vec![unsub]);
        assert_eq!(unsubacks(&mut router, c), 1);
    }

    #[test]
    fn unsubscribe_of_two_filters_is_acked_once() {
        let mut router = router();
        let c = connect(&mut router, "c", true);
        send(&mut router, c, vec![subscribe("a", QoS::AtMostOnce, 1), subscribe("b", QoS::AtMostOnce, 2)]);
        drain(&mut router);
        let unsub = Packet::Unsubscribe(
            Unsubscribe {
                pkid: 9,
                filters: vec!["a".to_owned(), "b".to_owned()],
            },
            None,
        );
        send(&mut router, c, vec![unsub]);
        assert_eq!(unsubacks(&mut router, c), 1);
    }
}
