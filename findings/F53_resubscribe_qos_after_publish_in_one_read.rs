// Demonstration of finding F53 (C01): a re-subscription at another QoS updates the existing request in the tracker and in
// the log's waiters -- but a publish earlier in the SAME read has already moved the parked request into
// Router.notifications, and the end of the read puts it back on the tracker with the old QoS: the SUBACK grants QoS 1,
// the messages keep arriving at QoS 0. (The UNSUBSCRIBE path had the same hole: F43.)
// Uses router_demo_support.rs. Appended to rumqttd/src/router/routing.rs.
#[cfg(test)]
mod verif_demo_f53 {
    use super::verif_support::*;
    use super::*;

    fn take(router: &mut Router, id: ConnectionId) -> Vec<(String, QoS)> {
        let mut out = vec![];
        for n in router.obufs.get_mut(id).unwrap().data_buffer.lock().drain(..) {
            if let Notification::Forward(f) = n {
                out.push((String::from_utf8_lossy(&f.publish.payload).to_string(), f.publish.qos));
            }
        }
        out
    }

    #[test]
    fn f53_messages_are_forwarded_at_the_qos_granted_last() {
        let mut router = router();
        let a = connect(&mut router, "a", true);
        let other = connect(&mut router, "other", true);
        send(&mut router, a, vec![subscribe("t", QoS::AtMostOnce, 1)]);
        drain(&mut router); // caught up: the request is parked
        // one read: a publish on its own topic, then the same filter again at QoS 1
        send(&mut router, a, vec![publish("t", QoS::AtLeastOnce, 5, "one"), subscribe("t", QoS::AtLeastOnce, 2)]);
        drain(&mut router);
        let _ = take(&mut router, a);
        send(&mut router, other, vec![publish("t", QoS::AtLeastOnce, 6, "two")]);
        drain(&mut router);
        assert_eq!(take(&mut router, a), [("two".to_owned(), QoS::AtLeastOnce)], "granted QoS 1 in the second SUBACK");
    }
}
