// Demonstrations of findings F6 and F7 (C02), MQTT 3.1.1 client. Appended to rumqttc/src/state.rs.
// On the pinned tree both fail; after the fixes both pass.
#[cfg(test)]
mod verif_demo_f6_f7 {
    use super::*;
    use crate::mqttbytes::v4::*;
    use crate::mqttbytes::*;

    fn publish(qos: QoS, payload: u8) -> Publish {
        Publish::new("hello/world", qos, vec![payload])
    }

    // F7: a publish parked on a packet-id collision when the connection fails is not handed back
    // by MqttState::clean(), so it is never retransmitted (and `collision` stays set forever)
    #[test]
    fn f7_clean_returns_the_parked_collision() {
        let mut state = MqttState::new(2, false);
        state.handle_outgoing_packet(Request::Publish(publish(QoS::AtLeastOnce, 1))).unwrap(); // id 1
        state.handle_outgoing_packet(Request::Publish(publish(QoS::AtLeastOnce, 2))).unwrap(); // id 2
        let third = state.handle_outgoing_packet(Request::Publish(publish(QoS::AtLeastOnce, 3))).unwrap();
        assert!(third.is_none() && state.collision.is_some(), "third publish collides on id 1");
        let pending = state.clean();
        let payloads: Vec<u8> = pending
            .iter()
            .filter_map(|r| match r {
                Request::Publish(p) => Some(p.payload[0]),
                _ => None,
            })
            .collect();
        assert!(payloads.contains(&3), "accepted publish 3 is not queued for retransmission: {payloads:?}");
        assert!(state.collision.is_none(), "collision slot survives clean()");
    }

    // F6: a collision that is resolved by a PUBCOMP is written to the network without being stored
    // in outgoing_pub / counted in inflight
    #[test]
    fn f6_collision_resent_on_pubcomp_is_recorded() {
        let mut state = MqttState::new(2, false);
        state.handle_outgoing_packet(Request::Publish(publish(QoS::ExactlyOnce, 1))).unwrap(); // id 1
        state.handle_outgoing_packet(Request::Publish(publish(QoS::AtLeastOnce, 2))).unwrap(); // id 2
        state.handle_outgoing_packet(Request::Publish(publish(QoS::AtLeastOnce, 3))).unwrap(); // collides on 1
        assert!(state.collision.is_some());
        state.handle_incoming_packet(Incoming::PubRec(PubRec::new(1))).unwrap();
        let out = state.handle_incoming_packet(Incoming::PubComp(PubComp::new(1))).unwrap();
        assert!(matches!(out, Some(Packet::Publish(ref p)) if p.pkid == 1 && p.payload[0] == 3), "parked publish is sent");
        assert!(
            state.outgoing_pub[1].is_some(),
            "publish 3 went to the network with id 1 but is not held for retransmission"
        );
        assert_eq!(state.inflight, 2, "publish 2 and publish 3 are unacknowledged");
    }
}
