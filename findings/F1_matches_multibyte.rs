// Demonstration of finding F1 (C12, C03): appended to rumqttd/src/protocol/mod.rs of the
// pinned tree (before the fix commit) this test panics with
// "byte index 1 is not a char boundary"; after the fix it passes.
#[cfg(test)]
mod verif_demo_f1 {
    #[test]
    fn matches_multibyte_first_char() {
        assert!(super::matches("é/a", "#"));
    }
}
