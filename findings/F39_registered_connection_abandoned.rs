// Demonstration of finding F39 (C16, also C03/C19): RemoteLink::new registers the connection with the router
// (LinkBuilder::build) and only then writes the CONNACK. If that write fails -- the peer reset the connection right
// after its CONNECT -- the constructor returns an error, broker::remote ends the task without ever knowing the
// connection id, and nobody tells the router: the connection stays registered for ever. Its slot is never given back
// (with a connection limit of 1 nobody can connect any more) and its will is never published.
// Drives server::broker::remote over in-memory streams against a real Router.
// Appended to rumqttd/src/server/broker.rs.
#[cfg(test)]
mod verif_demo_f39 {
    use super::*;
    use crate::protocol::{Connect, ConnectReturnCode, LastWill, QoS};
    use crate::router::shared_subs::Strategy;
    use crate::RouterConfig;
    use bytes::BytesMut;
    use tokio::io::{AsyncReadExt, AsyncWriteExt, DuplexStream};

    type Table = Arc<Mutex<HashMap<String, Sender<AwaitingWill>>>>;

    fn spawn_connection(
        router_tx: &Sender<(ConnectionId, Event)>,
        table: &Table,
    ) -> (DuplexStream, task::JoinHandle<()>) {
        let (client, server) = tokio::io::duplex(4096);
        let settings = Arc::new(ConnectionSettings {
            connection_timeout_ms: 2000,
            max_payload_size: 20480,
            max_inflight_count: 100,
            auth: None,
            external_auth: None,
            dynamic_filters: false,
        });
        let handle = task::spawn(remote(
            settings,
            None,
            router_tx.clone(),
            Box::new(server),
            V4,
            table.clone(),
        ));
        (client, handle)
    }

    fn connect_bytes(client_id: &str, will: Option<LastWill>) -> BytesMut {
        let connect = Connect {
            keep_alive: 60,
            client_id: client_id.to_owned(),
            clean_session: true,
        };
        let mut out = BytesMut::new();
        V4.write(Packet::Connect(connect, None, will, None, None), &mut out)
            .unwrap();
        out
    }

    /// reads packets until `want` says stop; None on timeout / end of stream
    async fn read_until<T>(client: &mut DuplexStream, mut want: impl FnMut(Packet) -> Option<T>) -> Option<T> {
        let mut buf = BytesMut::new();
        let mut chunk = [0u8; 256];
        loop {
            while let Ok(packet) = V4.read_mut(&mut buf, 4096) {
                if let Some(v) = want(packet) {
                    return Some(v);
                }
            }
            match time::timeout(Duration::from_secs(2), client.read(&mut chunk)).await {
                Ok(Ok(n)) if n > 0 => buf.extend_from_slice(&chunk[..n]),
                _ => return None,
            }
        }
    }

    async fn connect(client: &mut DuplexStream, client_id: &str) -> bool {
        client.write_all(&connect_bytes(client_id, None)).await.unwrap();
        read_until(client, |p| match p {
            Packet::ConnAck(ack, _) => Some(ack.code == ConnectReturnCode::Success),
            _ => None,
        })
        .await
        .unwrap_or(false)
    }

    fn router(max_connections: usize) -> Sender<(ConnectionId, Event)> {
        let config = RouterConfig {
            max_segment_size: 1024 * 1024,
            max_connections,
            max_segment_count: 10,
            max_outgoing_packet_count: 200,
            custom_segment: None,
            initialized_filters: None,
            shared_subscriptions_strategy: Strategy::RoundRobin,
        };
        Router::new(0, config).spawn()
    }

    #[tokio::test(flavor = "current_thread")]
    async fn f39_a_peer_that_vanishes_after_connect_gives_its_slot_back() {
        let router_tx = router(1);
        let table: Table = Arc::new(Mutex::new(HashMap::new()));
        // z sends CONNECT and is gone before the CONNACK can be written
        let (mut z, z_task) = spawn_connection(&router_tx, &table);
        z.write_all(&connect_bytes("z", None)).await.unwrap();
        drop(z);
        let _ = z_task.await;
        time::sleep(Duration::from_millis(200)).await;
        // the only slot must be free again
        let (mut y, _y_task) = spawn_connection(&router_tx, &table);
        assert!(connect(&mut y, "y").await, "y is refused: z's dead connection still holds the only slot");
    }

    #[tokio::test(flavor = "current_thread")]
    async fn f39_its_will_is_published() {
        let router_tx = router(10);
        let table: Table = Arc::new(Mutex::new(HashMap::new()));
        // a subscriber of the will topic
        let (mut s, _s_task) = spawn_connection(&router_tx, &table);
        assert!(connect(&mut s, "s").await);
        let mut out = BytesMut::new();
        let filter = crate::protocol::Filter {
            path: "wills/z".to_owned(),
            qos: QoS::AtMostOnce,
            nolocal: false,
            preserve_retain: false,
            retain_forward_rule: crate::protocol::RetainForwardRule::OnEverySubscribe,
        };
        let subscribe = crate::protocol::Subscribe { pkid: 1, filters: vec![filter] };
        V4.write(Packet::Subscribe(subscribe, None), &mut out).unwrap();
        s.write_all(&out).await.unwrap();
        assert!(read_until(&mut s, |p| matches!(p, Packet::SubAck(..)).then_some(())).await.is_some());
        // z registers a will and vanishes before the CONNACK can be written
        let will = LastWill {
            topic: "wills/z".into(),
            message: "z is gone".into(),
            qos: QoS::AtMostOnce,
            retain: false,
        };
        let (mut z, z_task) = spawn_connection(&router_tx, &table);
        z.write_all(&connect_bytes("z", Some(will))).await.unwrap();
        drop(z);
        let _ = z_task.await;
        let got = read_until(&mut s, |p| match p {
            Packet::Publish(publish, _) => Some(publish.payload),
            _ => None,
        })
        .await;
        assert_eq!(got.as_deref(), Some(&b"z is gone"[..]), "z's connection ended without DISCONNECT: its will must be published");
    }
}
