// Demonstration of finding F27 (C20, C01): broker-side topic aliases (towards MQTT 5 subscribers that allow them)
// are keyed by the subscription FILTER. For a wildcard filter one alias then stands for several topics: the first
// batch binds it to a/b, every later batch is sent with the alias only (topic cleared), so a message published on
// a/c reaches the subscriber as a message on a/b. Uses router_demo_support.rs. Appended to rumqttd/src/router/routing.rs.
#[cfg(test)]
mod verif_demo_f27 {
    use super::verif_support::*;
    use super::*;

    /// what an MQTT 5 client does with (topic, alias) pairs
    fn resolve(forwards: Vec<Forward>, aliases: &mut HashMap<u16, String>) -> Vec<(String, String)> {
        let mut out = vec![];
        for f in forwards {
            let alias = f.properties.as_ref().and_then(|p| p.topic_alias);
            let mut topic = String::from_utf8_lossy(&f.publish.topic).to_string();
            match alias {
                Some(a) if !topic.is_empty() => {
                    aliases.insert(a, topic.clone());
                }
                Some(a) => topic = aliases.get(&a).cloned().unwrap_or_default(),
                None => {}
            }
            out.push((topic, String::from_utf8_lossy(&f.publish.payload).to_string()));
        }
        out
    }

    fn forwards(router: &mut Router, id: ConnectionId) -> Vec<Forward> {
        let mut out = vec![];
        for n in router.obufs.get_mut(id).unwrap().data_buffer.lock().drain(..) {
            if let Notification::Forward(f) = n {
                out.push(f);
            }
        }
        out
    }

    #[test]
    fn f27_wildcard_subscriber_with_topic_aliases_sees_the_right_topics() {
        let mut router = router();
        // an MQTT 5 subscriber that accepts up to 10 topic aliases
        let mut connection = Connection::new(None, "sub".to_owned(), true, false);
        connection.topic_alias_max(10);
        let incoming = Incoming::new("sub".to_owned());
        let (outgoing, rx) = Outgoing::new("sub".to_owned());
        std::mem::forget(rx);
        router.events(0, Event::Connect { connection, incoming, outgoing });
        let sub = *router.connection_map.get("sub").unwrap();
        let publisher = connect(&mut router, "pub", true);
        send(&mut router, sub, vec![subscribe("a/+", QoS::AtMostOnce, 1)]);
        drain(&mut router);

        let mut aliases = HashMap::new();
        send(&mut router, publisher, vec![publish("a/b", QoS::AtMostOnce, 0, "first")]);
        drain(&mut router);
        assert_eq!(resolve(forwards(&mut router, sub), &mut aliases), [("a/b".to_owned(), "first".to_owned())]);
        send(&mut router, publisher, vec![publish("a/c", QoS::AtMostOnce, 0, "second")]);
        drain(&mut router);
        assert_eq!(resolve(forwards(&mut router, sub), &mut aliases), [("a/c".to_owned(), "second".to_owned())]);
    }
}
