// Demonstration of finding F51 (C10), MQTT 3.1.1 client: when a read batch ends in an error, the notifications of the
// packets handled before it stay queued in state.events. The MQTT 5 event loop routes the next connection's CONNACK
// through the same queue (wire order is kept); the 3.1.1 event loop returns it straight from poll(), ahead of the
// queue: the user is told about the NEW connection before the packets received on the OLD one.
// A scripted broker on a loopback socket drives the real EventLoop::poll(). Appended to rumqttc/src/eventloop.rs.
#[cfg(test)]
mod verif_demo_f51 {
    use super::*;
    use tokio::io::{AsyncReadExt, AsyncWriteExt};
    use tokio::net::TcpListener;

    async fn read_packet(stream: &mut TcpStream) -> Option<Vec<u8>> {
        let mut packet = vec![stream.read_u8().await.ok()?];
        let mut remaining = 0usize;
        let mut shift = 0;
        loop {
            let byte = stream.read_u8().await.ok()?;
            packet.push(byte);
            remaining |= ((byte & 0x7f) as usize) << shift;
            shift += 7;
            if byte & 0x80 == 0 {
                break;
            }
        }
        let mut body = vec![0u8; remaining];
        stream.read_exact(&mut body).await.ok()?;
        packet.extend(body);
        Some(packet)
    }

    #[tokio::test]
    async fn f51_packets_are_surfaced_in_the_order_they_were_received() {
        let listener = TcpListener::bind("127.0.0.1:0").await.unwrap();
        let port = listener.local_addr().unwrap().port();
        let broker = tokio::spawn(async move {
            // first connection: CONNACK, then one segment [PUBLISH QoS 0 "old", PUBACK 7 (never solicited)]
            let (mut stream, _) = listener.accept().await.unwrap();
            read_packet(&mut stream).await.unwrap();
            stream.write_all(&[0x20, 0x02, 0x00, 0x00]).await.unwrap();
            time::sleep(Duration::from_millis(100)).await;
            let mut segment = vec![0x30, 0x06, 0x00, 0x01, b't', b'o', b'l', b'd'];
            segment.extend([0x40, 0x02, 0x00, 0x07]);
            stream.write_all(&segment).await.unwrap();
            // second connection: CONNACK only
            let (mut stream, _) = listener.accept().await.unwrap();
            read_packet(&mut stream).await.unwrap();
            stream.write_all(&[0x20, 0x02, 0x00, 0x00]).await.unwrap();
            time::sleep(Duration::from_millis(500)).await;
        });

        let mut eventloop = EventLoop::new(MqttOptions::new("f51", "127.0.0.1", port), 10);
        let mut seen: Vec<String> = vec![];
        let mut errors = 0;
        let deadline = time::Instant::now() + Duration::from_secs(5);
        while time::Instant::now() < deadline && seen.len() < 4 {
            match time::timeout(Duration::from_secs(1), eventloop.poll()).await {
                Ok(Ok(Event::Incoming(Packet::ConnAck(_)))) => seen.push("ConnAck".to_owned()),
                Ok(Ok(Event::Incoming(Packet::Publish(p)))) => seen.push(format!("Publish {}", String::from_utf8_lossy(&p.payload))),
                Ok(Ok(Event::Incoming(Packet::PubAck(a)))) => seen.push(format!("PubAck {}", a.pkid)),
                Ok(Ok(_)) => {}
                Ok(Err(_)) => errors += 1,
                Err(_) => break,
            }
        }
        broker.abort();
        assert_eq!(errors, 1, "the unsolicited PUBACK ends the first connection");
        assert_eq!(
            seen,
            ["ConnAck", "Publish old", "PubAck 7", "ConnAck"],
            "received on the wire: CONNACK, PUBLISH old, PUBACK 7 on the first connection, then the second CONNACK"
        );
    }
}
