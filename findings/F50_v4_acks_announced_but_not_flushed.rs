// Demonstration of finding F50 (C10), MQTT 3.1.1 client: Network::readb answers each packet of a read batch into the
// write buffer (and announces the answer) and stops at the first packet the state machine rejects; select() then
// returns that error BEFORE flushing, the connection is dropped with its write buffer, and the announcements stay
// queued. For the batch [PUBLISH QoS 1 id 1, PUBACK id 7 (unsolicited)] the user is told Outgoing::PubAck(1) although
// not a byte reached the broker; had the two packets arrived in two reads, the PUBACK would have been written.
// Appended to rumqttc/src/eventloop.rs.
#[cfg(test)]
mod verif_demo_f50 {
    use super::*;
    use crate::mqttbytes::v4::*;
    use crate::mqttbytes::*;
    use bytes::BytesMut;
    use tokio::io::{AsyncReadExt, AsyncWriteExt};

    #[tokio::test(flavor = "current_thread")]
    async fn f50_an_announced_puback_reaches_the_broker() {
        let (client_end, mut broker_end) = tokio::io::duplex(4096);
        let mut eventloop = EventLoop::new(MqttOptions::new("f50", "localhost", 1883), 10);
        eventloop.network = Some(Network::new(client_end, 4096, 4096));

        // one segment: a QoS 1 publish (id 1), then a PUBACK the client never asked for
        let mut bytes = BytesMut::new();
        let mut publish = Publish::new("hello/world", QoS::AtLeastOnce, vec![1u8]);
        publish.pkid = 1;
        publish.write(&mut bytes).unwrap();
        PubAck::new(7).write(&mut bytes).unwrap();
        broker_end.write_all(&bytes).await.unwrap();

        // the poll that reads the batch fails with Unsolicited(7): the connection is given up
        let outcome = eventloop.poll().await;
        assert!(outcome.is_err(), "{outcome:?}");
        // ... and these notifications are waiting for the user (poll hands them out before anything else)
        let announced: Vec<Outgoing> = eventloop
            .state
            .events
            .iter()
            .filter_map(|e| match e {
                Event::Outgoing(o) => Some(o.clone()),
                _ => None,
            })
            .collect();
        assert!(announced.contains(&Outgoing::PubAck(1)), "the reply to the publish is announced: {announced:?}");
        // what did the broker get?
        drop(eventloop);
        let mut wire = vec![];
        broker_end.read_to_end(&mut wire).await.unwrap();
        assert_eq!(wire, [0x40, 0x02, 0x00, 0x01], "Outgoing::PubAck(1) was announced: the PUBACK must have been written");
    }
}
