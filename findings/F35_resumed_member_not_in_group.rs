// Demonstration of finding F35 (C08, C17): handle_disconnection takes a client out of every shared group, and a
// resumed persistent session gets its data requests back (they still name the group) but is never put back into the
// group. While the group has other members the resumed client's subscription is dead ("still in force without
// re-subscribing" fails: it is never the group's current client again); once the other members have gone the group no
// longer exists, the resumed request falls back to its own cursor, and what another member was served after that
// cursor was last refreshed is forwarded a second time.
// Uses router_demo_support.rs. Appended to rumqttd/src/router/routing.rs.
#[cfg(test)]
mod verif_demo_f35 {
    use super::verif_support::*;
    use super::*;

    fn take(router: &mut Router, id: ConnectionId) -> Vec<String> {
        let mut out = vec![];
        for n in router.obufs.get_mut(id).unwrap().data_buffer.lock().drain(..) {
            if let Notification::Forward(f) = n {
                out.push(String::from_utf8_lossy(&f.publish.payload).to_string());
            }
        }
        out
    }

    fn setup() -> (Router, ConnectionId, ConnectionId, ConnectionId) {
        let mut router = router();
        let a = connect(&mut router, "a", false); // persistent member
        let b = connect(&mut router, "b", true);
        let publisher = connect(&mut router, "pub", true);
        send(&mut router, a, vec![subscribe("$share/g/jobs", QoS::AtMostOnce, 1)]);
        send(&mut router, b, vec![subscribe("$share/g/jobs", QoS::AtMostOnce, 1)]);
        drain(&mut router);
        // a's link fails and it comes back under the same client id with clean-session off
        router.events(a, Event::Disconnect);
        drain(&mut router);
        let a = connect(&mut router, "a", false);
        drain(&mut router);
        (router, a, b, publisher)
    }

    #[test]
    fn f35_a_resumed_member_still_gets_its_share() {
        let (mut router, a, b, publisher) = setup();
        let (mut seen_a, mut seen_b) = (vec![], vec![]);
        for m in ["j1", "j2", "j3", "j4"] {
            send(&mut router, publisher, vec![publish("jobs", QoS::AtMostOnce, 0, m)]);
            drain(&mut router);
            seen_a.extend(take(&mut router, a));
            seen_b.extend(take(&mut router, b));
        }
        assert_eq!(seen_a.len() + seen_b.len(), 4, "a: {seen_a:?} b: {seen_b:?}");
        assert!(!seen_a.is_empty(), "round robin over [b, a] gave the resumed member nothing: b got {seen_b:?}");
    }

    #[test]
    fn f35_nothing_is_forwarded_to_two_members() {
        let (mut router, a, b, publisher) = setup();
        let (mut seen_a, mut seen_b) = (vec![], vec![]);
        for m in ["j1", "j2", "j3", "j4"] {
            send(&mut router, publisher, vec![publish("jobs", QoS::AtMostOnce, 0, m)]);
            drain(&mut router);
            seen_a.extend(take(&mut router, a));
            seen_b.extend(take(&mut router, b));
        }
        // j5 is b's: b is served, and its link ends before the router gets to a's turn in the ready queue
        send(&mut router, publisher, vec![publish("jobs", QoS::AtMostOnce, 0, "j5")]);
        router.consume();
        seen_b.extend(take(&mut router, b));
        router.events(b, Event::Disconnect);
        drain(&mut router);
        // the resumed member is the only subscriber left
        send(&mut router, publisher, vec![publish("jobs", QoS::AtMostOnce, 0, "j6")]);
        drain(&mut router);
        seen_a.extend(take(&mut router, a));
        assert!(seen_a.contains(&"j6".to_owned()), "the only member left did not get j6: {seen_a:?}");
        for m in &seen_a {
            assert!(!seen_b.contains(m), "{m} was forwarded to both members: a {seen_a:?} b {seen_b:?}");
        }
    }
}
