// Demonstration of finding F17 (C04), rumqttc MQTT 5 codec. Appended to rumqttc/src/v5/mqttbytes/v5/auth.rs.
// AuthProperties::len() leaves out the 2-byte length prefix of every string / binary property (and uses a
// varint width for the binary one), so Auth::write announces a remaining length and a property length that are
// too small, returns a byte count smaller than what it wrote, and size() disagrees with the bytes produced;
// AuthProperties::read mirrors the error for two of the four properties, so it mis-parses correctly framed
// properties (e.g. from another implementation).
#[cfg(test)]
mod verif_demo_f17 {
    use super::*;

    fn sample() -> Auth {
        Auth {
            code: AuthReasonCode::Continue,
            properties: Some(AuthProperties {
                method: Some("SCRAM-SHA-1".to_owned()),
                data: Some(Bytes::from_static(b"client-first-data")),
                reason: Some("continue".to_owned()),
                user_properties: vec![("k".to_owned(), "value".to_owned())],
            }),
        }
    }

    #[test]
    fn f17_auth_reports_the_number_of_bytes_it_writes() {
        let auth = sample();
        let mut buffer = BytesMut::new();
        let written = auth.write(&mut buffer).unwrap();
        assert_eq!(written, buffer.len(), "write() return value vs bytes produced");
        assert_eq!(auth.size(), buffer.len(), "size() vs bytes produced");
    }

    #[test]
    fn f17_auth_frame_is_self_consistent_and_round_trips() {
        let auth = sample();
        let mut buffer = BytesMut::new();
        auth.write(&mut buffer).unwrap();
        // the remaining length announced in the fixed header covers exactly the rest of the frame
        let fixed_header = super::super::check(buffer.iter(), None).unwrap();
        assert_eq!(fixed_header.frame_length(), buffer.len(), "announced frame length vs bytes produced");
        let decoded = Auth::read(fixed_header, buffer.freeze()).unwrap();
        assert_eq!(decoded, auth);
    }

    #[test]
    fn f17_auth_with_properties_longer_than_127_bytes() {
        let mut auth = sample();
        auth.properties.as_mut().unwrap().reason = Some("r".repeat(200));
        let mut buffer = BytesMut::new();
        let written = auth.write(&mut buffer).unwrap();
        assert_eq!(written, buffer.len());
        assert_eq!(auth.size(), buffer.len());
        let fixed_header = super::super::check(buffer.iter(), None).unwrap();
        assert_eq!(Auth::read(fixed_header, buffer.freeze()).unwrap(), auth);
    }

    #[test]
    fn f17_auth_reads_correctly_framed_properties() {
        // AUTH, reason 0x18, properties: Authentication Method "PLAIN", Reason String "go"
        let bytes: &[u8] = &[
            0xF0, 15, 0x18, 13, 0x15, 0, 5, b'P', b'L', b'A', b'I', b'N', 0x1F, 0, 2, b'g', b'o',
        ];
        let fixed_header = FixedHeader::new(0xF0, 1, 15);
        let decoded = Auth::read(fixed_header, Bytes::copy_from_slice(bytes)).unwrap();
        let props = decoded.properties.unwrap();
        assert_eq!(props.method.as_deref(), Some("PLAIN"));
        assert_eq!(props.reason.as_deref(), Some("go"));
    }
}
