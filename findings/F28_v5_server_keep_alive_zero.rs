// Demonstration of finding F28 (C18), MQTT 5 client. Appended to rumqttc/src/v5/eventloop.rs.
// A broker may assign the keep-alive with the CONNACK's Server Keep Alive; 0 turns keep-alive off. The v5 event loop
// arms its timer with that zero duration and has no zero guard (the v4 loop has both): it pings at once and then
// reports a keep-alive failure although keep-alive is off.
#[cfg(test)]
mod verif_demo_f28 {
    use super::*;
    use tokio::io::{AsyncReadExt, AsyncWriteExt};
    use tokio::net::TcpListener;

    #[tokio::test]
    async fn f28_server_keep_alive_zero_means_no_pings() {
        let listener = TcpListener::bind("127.0.0.1:0").await.unwrap();
        let port = listener.local_addr().unwrap().port();
        let broker = tokio::spawn(async move {
            let (mut stream, _) = listener.accept().await.unwrap();
            let mut buf = vec![0u8; 1024];
            let _connect = stream.read(&mut buf).await.unwrap();
            // CONNACK: session present 0, reason 0, properties { Server Keep Alive (0x13) = 0 }
            stream.write_all(&[0x20, 0x06, 0x00, 0x00, 0x03, 0x13, 0x00, 0x00]).await.unwrap();
            let mut pings = 0;
            let deadline = time::Instant::now() + Duration::from_millis(1500);
            loop {
                match time::timeout_at(deadline, stream.read(&mut buf)).await {
                    Ok(Ok(n)) if n > 0 => pings += buf[..n].iter().filter(|b| **b == 0xC0).count(),
                    _ => break,
                }
            }
            pings
        });

        let mut eventloop = EventLoop::new(MqttOptions::new("f28", "127.0.0.1", port), 10);
        let mut failure = None;
        let _ = time::timeout(Duration::from_millis(1200), async {
            loop {
                if let Err(e) = eventloop.poll().await {
                    failure = Some(format!("{e:?}"));
                    break;
                }
            }
        })
        .await;
        assert_eq!(eventloop.options.keep_alive(), Duration::ZERO, "the broker turned keep-alive off");
        let pings = broker.await.unwrap();
        assert_eq!((pings, failure), (0, None), "(PINGREQs seen by the broker, error reported by poll)");
    }
}
