// Demonstration of finding F14 (C10), MQTT 5 client: a PUBLISH with an empty topic and an unknown
// topic alias is a protocol error; handle_incoming_publish calls handle_protocol_error(), which
// announces Outgoing::Disconnect and builds the DISCONNECT (0x82) packet — and then drops it, so the
// disconnect is announced to the user but never written. Appended to rumqttc/src/v5/state.rs of the
// pinned tree this fails; after the fix it passes.
#[cfg(test)]
mod verif_demo_f14 {
    use super::mqttbytes::v5::*;
    use super::mqttbytes::*;
    use super::*;

    #[test]
    fn announced_disconnect_is_returned_for_writing() {
        let mut state = MqttState::new(10, false);
        let mut publish = Publish::new("", QoS::AtMostOnce, vec![1u8], None);
        publish.properties = Some(PublishProperties {
            topic_alias: Some(7),
            ..Default::default()
        });
        let out = state.handle_incoming_packet(Incoming::Publish(publish)).unwrap();
        let announced = state
            .events
            .iter()
            .any(|e| matches!(e, Event::Outgoing(Outgoing::Disconnect)));
        assert!(announced, "protocol error should announce a disconnect");
        assert!(
            matches!(out, Some(Packet::Disconnect(_))),
            "Outgoing::Disconnect was announced but the packet handed to the network is {out:?}"
        );
    }
}
