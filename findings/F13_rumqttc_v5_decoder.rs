// Demonstration of finding F13 (C05) for the client: appended to
// rumqttc/src/v5/mqttbytes/v5/mod.rs of the pinned tree this fails; after the fix it passes.
#[cfg(test)]
mod verif_demo {
    use super::*;
    use bytes::BytesMut;

    #[test]
    fn f13_complete_frame_never_asks_for_more_bytes() {
        let mut stream = BytesMut::from(&[0x40u8, 0x04, 0x00, 0x01, 0x00, 0x80][..]);
        let r = Packet::read(&mut stream, None);
        assert!(stream.is_empty(), "frame was consumed");
        assert!(!matches!(r, Err(Error::InsufficientBytes(_))), "got {r:?} for a complete frame");
    }
}
