// Demonstration of finding F33 (C01, open): re-subscribing to a filter with another QoS is granted in the SUBACK, but
// the existing data request keeps the old QoS: the client is served at QoS 0 after having been granted QoS 1.
// Uses router_demo_support.rs. Appended to rumqttd/src/router/routing.rs.
#[cfg(test)]
mod verif_demo_f33 {
    use super::verif_support::*;
    use super::*;

    #[test]
    fn f33_resubscription_is_served_at_the_granted_qos() {
        let mut router = router();
        let sub = connect(&mut router, "sub", true);
        let publisher = connect(&mut router, "pub", true);
        send(&mut router, sub, vec![subscribe("hello/world", QoS::AtMostOnce, 1)]);
        drain(&mut router);
        send(&mut router, sub, vec![subscribe("hello/world", QoS::AtLeastOnce, 2)]);
        drain(&mut router);
        let acks = format!("{:?}", router.obufs.get_mut(sub).unwrap().data_buffer.lock());
        assert!(acks.contains("QoS1"), "the re-subscription is granted QoS 1: {acks}");
        router.obufs.get_mut(sub).unwrap().data_buffer.lock().clear();
        send(&mut router, publisher, vec![publish("hello/world", QoS::AtLeastOnce, 5, "m1")]);
        drain(&mut router);
        let mut served = vec![];
        for n in router.obufs.get_mut(sub).unwrap().data_buffer.lock().drain(..) {
            if let Notification::Forward(f) = n {
                served.push(f.publish.qos);
            }
        }
        assert_eq!(served, [QoS::AtLeastOnce]);
    }
}
