// Demonstration of finding F48 (C07), MQTT 5 client: outgoing_publish looks for an id collision in outgoing_pub only.
// A QoS 2 publish leaves outgoing_pub when its PUBREC arrives but keeps its packet id (outgoing_rel, still counted in
// inflight) until PUBCOMP. After a wrap-around the next publish goes out under that very id: two unacknowledged
// publishes share an id on the wire, and the PUBCOMP of the first cannot be told from the acknowledgements of the second.
// Appended to rumqttc/src/v5/state.rs.
#[cfg(test)]
mod verif_demo_f48_v5 {
    use super::*;
    use super::mqttbytes::v5::*;
    use super::mqttbytes::*;

    fn publish(qos: QoS, payload: u8) -> Publish {
        Publish::new("hello/world", qos, vec![payload], None)
    }

    #[test]
    fn f48_an_id_awaiting_pubcomp_is_not_handed_to_another_publish() {
        let mut state = MqttState::new(2, false);
        state.handle_outgoing_packet(Request::Publish(publish(QoS::ExactlyOnce, 1))).unwrap(); // a: id 1
        state.handle_outgoing_packet(Request::Publish(publish(QoS::AtLeastOnce, 2))).unwrap(); // b: id 2
        state.handle_incoming_packet(Incoming::PubRec(PubRec::new(1, None))).unwrap(); // a now awaits PUBCOMP 1
        state.handle_incoming_packet(Incoming::PubAck(PubAck::new(2, None))).unwrap(); // b done: the window has room
        assert_eq!(state.inflight, 1);
        // c: the id counter wraps to 1
        let out = state.handle_outgoing_packet(Request::Publish(publish(QoS::AtLeastOnce, 3))).unwrap();
        if let Some(Packet::Publish(c)) = &out {
            assert!(
                !state.outgoing_rel.contains(c.pkid as usize),
                "publish c went on the wire with id {} while the QoS 2 exchange of a on that id awaits PUBCOMP",
                c.pkid
            );
        }
        // parked until the id is free: PUBCOMP 1 releases it
        assert!(out.is_none() && state.collision.is_some(), "c waits for id 1");
        let released = state.handle_incoming_packet(Incoming::PubComp(PubComp::new(1, None))).unwrap();
        assert!(matches!(released, Some(Packet::Publish(ref p)) if p.pkid == 1 && p.payload[0] == 3));
        assert_eq!(state.inflight, 1);
    }
}
