// Demonstration of finding F34 (C06): replies registered while the connection is paused as InflightFull are not sent.
// The handler reschedules the connection with ScheduleReason::FreshData, which wakes a tracker only from Caughtup; a
// subscriber whose window of 100 unacknowledged publishes is full gets no PINGRESP (SUBACK, PUBACK, ...) until it
// acknowledges something. Uses router_demo_support.rs. Appended to rumqttd/src/router/routing.rs.
#[cfg(test)]
mod verif_demo_f34 {
    use super::verif_support::*;
    use super::*;

    #[test]
    fn f34_ping_is_answered_while_the_outbound_window_is_full() {
        let mut router = router();
        let sub = connect(&mut router, "sub", true);
        let publisher = connect(&mut router, "pub", true);
        send(&mut router, sub, vec![subscribe("hello/world", QoS::AtLeastOnce, 1)]);
        drain(&mut router);
        for n in 0..150 {
            send(&mut router, publisher, vec![publish("hello/world", QoS::AtLeastOnce, 1, &format!("m{n}"))]);
            drain(&mut router);
        }
        // 100 publishes are out and unacknowledged: the window is full, the connection is paused
        let out = router.obufs.get_mut(sub).unwrap();
        assert_eq!(out.free_slots(), 0);
        out.data_buffer.lock().clear();
        send(&mut router, sub, vec![Packet::PingReq(crate::protocol::PingReq)]);
        drain(&mut router);
        let replies = format!("{:?}", router.obufs.get_mut(sub).unwrap().data_buffer.lock());
        assert!(replies.contains("PingResp"), "no PINGRESP for a client whose window is full: {replies}");
    }
}
