// Demonstration of finding F46 (C16, open): the task of an ended connection keeps waiting for a decision on its
// delayed will even when the client had sent DISCONNECT (the router has discarded that will), and the decision is
// addressed by client id only. When the client comes back with clean start and a NEW will, its connection signals
// Fire to the old task, whose Event::PublishWill(client id) makes the router publish whatever will is registered
// under that id now: the new connection's will -- while that connection is alive. When it later does end without
// DISCONNECT, its will is gone and nothing is published.
// Drives server::broker::remote over in-memory streams against a real Router (MQTT 5 for the will delay).
// Appended to rumqttd/src/server/broker.rs.
#[cfg(test)]
mod verif_demo_f46 {
    use super::*;
    use crate::protocol::{Connect, ConnectReturnCode, LastWill, QoS};
    use crate::router::shared_subs::Strategy;
    use crate::RouterConfig;
    use bytes::BytesMut;
    use tokio::io::{AsyncReadExt, AsyncWriteExt, DuplexStream};

    type Table = Arc<Mutex<HashMap<String, Sender<AwaitingWill>>>>;

    fn spawn_connection(
        router_tx: &Sender<(ConnectionId, Event)>,
        table: &Table,
    ) -> (DuplexStream, task::JoinHandle<()>) {
        spawn_with(router_tx, table, V4)
    }

    fn spawn_with<P: Protocol + Send + 'static>(
        router_tx: &Sender<(ConnectionId, Event)>,
        table: &Table,
        protocol: P,
    ) -> (DuplexStream, task::JoinHandle<()>) {
        let (client, server) = tokio::io::duplex(4096);
        let settings = Arc::new(ConnectionSettings {
            connection_timeout_ms: 2000,
            max_payload_size: 20480,
            max_inflight_count: 100,
            auth: None,
            external_auth: None,
            dynamic_filters: false,
        });
        let handle = task::spawn(remote(
            settings,
            None,
            router_tx.clone(),
            Box::new(server),
            protocol,
            table.clone(),
        ));
        (client, handle)
    }

    fn connect_bytes(client_id: &str, will: Option<LastWill>) -> BytesMut {
        let connect = Connect {
            keep_alive: 60,
            client_id: client_id.to_owned(),
            clean_session: true,
        };
        let mut out = BytesMut::new();
        V4.write(Packet::Connect(connect, None, will, None, None), &mut out)
            .unwrap();
        out
    }

    /// reads packets until `want` says stop; None on timeout / end of stream
    async fn read_until<T>(client: &mut DuplexStream, mut want: impl FnMut(Packet) -> Option<T>) -> Option<T> {
        let mut buf = BytesMut::new();
        let mut chunk = [0u8; 256];
        loop {
            while let Ok(packet) = V4.read_mut(&mut buf, 4096) {
                if let Some(v) = want(packet) {
                    return Some(v);
                }
            }
            match time::timeout(Duration::from_secs(2), client.read(&mut chunk)).await {
                Ok(Ok(n)) if n > 0 => buf.extend_from_slice(&chunk[..n]),
                _ => return None,
            }
        }
    }

    async fn connect(client: &mut DuplexStream, client_id: &str) -> bool {
        client.write_all(&connect_bytes(client_id, None)).await.unwrap();
        read_until(client, |p| match p {
            Packet::ConnAck(ack, _) => Some(ack.code == ConnectReturnCode::Success),
            _ => None,
        })
        .await
        .unwrap_or(false)
    }

    fn router(max_connections: usize) -> Sender<(ConnectionId, Event)> {
        let config = RouterConfig {
            max_segment_size: 1024 * 1024,
            max_connections,
            max_segment_count: 10,
            max_outgoing_packet_count: 200,
            custom_segment: None,
            initialized_filters: None,
            shared_subscriptions_strategy: Strategy::RoundRobin,
        };
        Router::new(0, config).spawn()
    }

    fn v5_connect_bytes(client_id: &str, clean: bool, will: Option<LastWill>, delay: u32) -> BytesMut {
        use crate::protocol::{ConnectProperties, LastWillProperties};
        let connect = Connect {
            keep_alive: 60,
            client_id: client_id.to_owned(),
            clean_session: clean,
        };
        let props = ConnectProperties {
            session_expiry_interval: Some(delay),
            receive_maximum: None,
            max_packet_size: None,
            topic_alias_max: None,
            request_response_info: None,
            request_problem_info: None,
            user_properties: vec![],
            authentication_method: None,
            authentication_data: None,
        };
        let will_props = will.as_ref().map(|_| LastWillProperties {
            delay_interval: Some(delay),
            payload_format_indicator: None,
            message_expiry_interval: None,
            content_type: None,
            response_topic: None,
            correlation_data: None,
            user_properties: vec![],
        });
        let mut out = BytesMut::new();
        V5.write(Packet::Connect(connect, Some(props), will, will_props, None), &mut out)
            .unwrap();
        out
    }

    async fn v5_connack(client: &mut DuplexStream) -> bool {
        let mut buf = BytesMut::new();
        let mut chunk = [0u8; 256];
        loop {
            if let Ok(Packet::ConnAck(ack, _)) = V5.read_mut(&mut buf, 4096) {
                return ack.code == ConnectReturnCode::Success;
            }
            match time::timeout(Duration::from_secs(2), client.read(&mut chunk)).await {
                Ok(Ok(n)) if n > 0 => buf.extend_from_slice(&chunk[..n]),
                _ => return false,
            }
        }
    }

    #[tokio::test(flavor = "current_thread")]
    async fn f46_a_live_connections_will_is_not_published_by_its_predecessors_task() {
        let router_tx = router(10);
        let table: Table = Arc::new(Mutex::new(HashMap::new()));
        let (mut s, _s_task) = spawn_connection(&router_tx, &table);
        assert!(connect(&mut s, "s").await);
        let mut out = BytesMut::new();
        let filter = crate::protocol::Filter {
            path: "wills/#".to_owned(),
            qos: QoS::AtMostOnce,
            nolocal: false,
            preserve_retain: false,
            retain_forward_rule: crate::protocol::RetainForwardRule::OnEverySubscribe,
        };
        let subscribe = crate::protocol::Subscribe { pkid: 1, filters: vec![filter] };
        V4.write(Packet::Subscribe(subscribe, None), &mut out).unwrap();
        s.write_all(&out).await.unwrap();
        assert!(read_until(&mut s, |p| matches!(p, Packet::SubAck(..)).then_some(())).await.is_some());

        let will = |text: &str| LastWill {
            topic: "wills/x".into(),
            message: text.to_owned().into(),
            qos: QoS::AtMostOnce,
            retain: false,
        };
        // first connection of x: will with a delay of 3 s; the client says DISCONNECT (its will is discarded)
        let (mut a, _a_task) = spawn_with(&router_tx, &table, V5);
        a.write_all(&v5_connect_bytes("x", true, Some(will("first will")), 3)).await.unwrap();
        assert!(v5_connack(&mut a).await);
        a.write_all(&[0xE0, 0x00]).await.unwrap();
        time::sleep(Duration::from_millis(300)).await;
        drop(a);
        time::sleep(Duration::from_millis(200)).await;
        // second connection of x, clean start, a will of its own (no delay); it stays connected
        let (mut b, _b_task) = spawn_with(&router_tx, &table, V5);
        b.write_all(&v5_connect_bytes("x", true, Some(will("second will")), 0)).await.unwrap();
        assert!(v5_connack(&mut b).await);
        let early = read_until(&mut s, |p| match p {
            Packet::Publish(publish, _) => Some(publish.payload),
            _ => None,
        })
        .await;
        assert_eq!(early, None, "a will was published while the connection that registered it is alive");
        // now the second connection's link fails: its will is due
        drop(b);
        let late = read_until(&mut s, |p| match p {
            Packet::Publish(publish, _) => Some(publish.payload),
            _ => None,
        })
        .await;
        assert_eq!(late.as_deref(), Some(&b"second will"[..]));
    }
}
