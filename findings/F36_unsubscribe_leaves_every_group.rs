// Demonstration of finding F36 (C17): the UNSUBSCRIBE arm takes the client out of EVERY shared group, whatever filter
// is given up. Its shared subscriptions keep their data requests (which still name the group), so the client is
// skipped for as long as the group has other members, and once the group is gone the request reads from its own
// cursor what another member was just served: that message is forwarded twice.
// Uses router_demo_support.rs. Appended to rumqttd/src/router/routing.rs.
#[cfg(test)]
mod verif_demo_f36 {
    use super::verif_support::*;
    use super::*;
    use crate::protocol::Unsubscribe;

    fn take(router: &mut Router, id: ConnectionId) -> Vec<String> {
        let mut out = vec![];
        for n in router.obufs.get_mut(id).unwrap().data_buffer.lock().drain(..) {
            if let Notification::Forward(f) = n {
                out.push(String::from_utf8_lossy(&f.publish.payload).to_string());
            }
        }
        out
    }

    fn setup() -> (Router, ConnectionId, ConnectionId, ConnectionId) {
        let mut router = router();
        let a = connect(&mut router, "a", true);
        let b = connect(&mut router, "b", true);
        let publisher = connect(&mut router, "pub", true);
        send(&mut router, a, vec![subscribe("$share/g/jobs", QoS::AtMostOnce, 1)]);
        send(&mut router, b, vec![subscribe("$share/g/jobs", QoS::AtMostOnce, 1)]);
        send(&mut router, a, vec![subscribe("other", QoS::AtMostOnce, 2)]);
        drain(&mut router);
        // a gives up its plain subscription; its shared subscription is untouched
        let unsub = Packet::Unsubscribe(Unsubscribe { pkid: 3, filters: vec!["other".to_owned()] }, None);
        send(&mut router, a, vec![unsub]);
        drain(&mut router);
        (router, a, b, publisher)
    }

    #[test]
    fn f36_unsubscribing_another_filter_keeps_the_member_in_its_group() {
        let (mut router, a, b, publisher) = setup();
        let (mut seen_a, mut seen_b) = (vec![], vec![]);
        for m in ["j1", "j2", "j3", "j4"] {
            send(&mut router, publisher, vec![publish("jobs", QoS::AtMostOnce, 0, m)]);
            drain(&mut router);
            seen_a.extend(take(&mut router, a));
            seen_b.extend(take(&mut router, b));
        }
        assert_eq!(seen_a.len() + seen_b.len(), 4, "a: {seen_a:?} b: {seen_b:?}");
        assert!(!seen_a.is_empty(), "round robin over [a, b] gave a nothing after it unsubscribed from `other`: b got {seen_b:?}");
    }

    #[test]
    fn f36_nothing_is_forwarded_to_two_members() {
        let (mut router, a, b, publisher) = setup();
        let (mut seen_a, mut seen_b) = (vec![], vec![]);
        for m in ["j1", "j2", "j3", "j4"] {
            send(&mut router, publisher, vec![publish("jobs", QoS::AtMostOnce, 0, m)]);
            drain(&mut router);
            seen_a.extend(take(&mut router, a));
            seen_b.extend(take(&mut router, b));
        }
        // the next message is served to whoever has the turn; b's link then ends before the router gets to a again
        send(&mut router, publisher, vec![publish("jobs", QoS::AtMostOnce, 0, "j5")]);
        for _ in 0..10 {
            router.consume();
            let served = take(&mut router, b);
            seen_a.extend(take(&mut router, a));
            if !served.is_empty() {
                seen_b.extend(served);
                break;
            }
        }
        router.events(b, Event::Disconnect);
        drain(&mut router);
        send(&mut router, publisher, vec![publish("jobs", QoS::AtMostOnce, 0, "j6")]);
        drain(&mut router);
        seen_a.extend(take(&mut router, a));
        assert!(seen_a.contains(&"j6".to_owned()), "the only member left did not get j6: {seen_a:?}");
        for m in &seen_a {
            assert!(!seen_b.contains(m), "{m} was forwarded to both members: a {seen_a:?} b {seen_b:?}");
        }
    }
}
