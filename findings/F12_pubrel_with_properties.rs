// Demonstration of finding F12 (C06): an MQTT 5 PUBREL that carries properties (reason string,
// user property) is matched by no arm of the router's packet match, so the QoS 2 message is never
// released and no PUBCOMP is registered. Uses router_demo_support.rs. On the pinned tree the
// assertion fails (no PubComp); after the fix it passes.
#[cfg(test)]
mod verif_demo_f12 {
    use super::verif_support::*;
    use super::*;
    use crate::protocol::PubRelProperties;

    #[test]
    fn pubrel_with_properties_gets_pubcomp() {
        let mut router = router();
        let sub = connect(&mut router, "sub", true);
        let publisher = connect(&mut router, "pub", true);
        send(&mut router, sub, vec![subscribe("t", QoS::AtMostOnce, 1)]);
        drain(&mut router);
        send(&mut router, publisher, vec![publish("t", QoS::ExactlyOnce, 7, "x")]);
        let pubrel = Packet::PubRel(
            PubRel {
                pkid: 7,
                reason: PubRelReason::Success,
            },
            Some(PubRelProperties {
                reason_string: Some("done".to_owned()),
                user_properties: vec![],
            }),
        );
        send(&mut router, publisher, vec![pubrel]);
        let acks = format!("{:?}", router.ackslog.get_mut(publisher).unwrap().readv());
        drain(&mut router);
        let out = format!("{:?}", router.obufs.get(publisher).unwrap().data_buffer.lock());
        assert!(
            acks.contains("PubComp") || out.contains("PubComp"),
            "no PUBCOMP for the PUBREL: acks={acks} out={out}"
        );
    }
}
