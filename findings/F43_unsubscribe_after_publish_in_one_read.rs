// Demonstration of finding F43 (C01): a publish wakes the parked requests of its topic by moving them into
// Router.notifications; the end of handle_device_payload puts everything in there back on the trackers. An UNSUBSCRIBE
// later in the SAME read looks for the connection's request in its tracker and in the log's waiters only, finds
// nothing, answers Success -- and the request is re-installed at the end of the read: the client keeps receiving a
// filter it has successfully unsubscribed from.
// Uses router_demo_support.rs. Appended to rumqttd/src/router/routing.rs.
#[cfg(test)]
mod verif_demo_f43 {
    use super::verif_support::*;
    use super::*;
    use crate::protocol::Unsubscribe;

    fn take(router: &mut Router, id: ConnectionId) -> Vec<String> {
        let mut out = vec![];
        for n in router.obufs.get_mut(id).unwrap().data_buffer.lock().drain(..) {
            if let Notification::Forward(f) = n {
                out.push(String::from_utf8_lossy(&f.publish.payload).to_string());
            }
        }
        out
    }

    fn history(filter: &str) -> Vec<String> {
        let mut router = router();
        let s = connect(&mut router, "s", true);
        let other = connect(&mut router, "other", true);
        send(&mut router, s, vec![subscribe(filter, QoS::AtMostOnce, 1)]);
        drain(&mut router); // caught up: the request is parked in the log's waiters
        let unsub = Packet::Unsubscribe(Unsubscribe { pkid: 2, filters: vec![filter.to_owned()] }, None);
        // one read: a publish on its own topic, then the UNSUBSCRIBE
        send(&mut router, s, vec![publish("t", QoS::AtMostOnce, 0, "own"), unsub]);
        drain(&mut router);
        let _ = take(&mut router, s); // whether "own" is still delivered is not the point
        send(&mut router, other, vec![publish("t", QoS::AtMostOnce, 0, "later")]);
        drain(&mut router);
        take(&mut router, s)
    }

    #[test]
    fn f43_plain_filter_stops_after_unsubscribe() {
        let after = history("t");
        assert!(after.is_empty(), "received after a successful UNSUBSCRIBE: {after:?}");
    }

    #[test]
    fn f43_shared_filter_stops_after_unsubscribe() {
        let after = history("$share/g/t");
        assert!(after.is_empty(), "received after a successful UNSUBSCRIBE: {after:?}");
    }
}
