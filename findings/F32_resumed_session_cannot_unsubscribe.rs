// Demonstration of finding F32 (C08, C01): a resumed session's subscriptions are restored into the connection and its
// tracker, but the router's filter -> subscribers map (emptied for the old connection id on disconnect) is not told
// about the new connection id. An UNSUBSCRIBE of the resumed client is then answered "no subscription existed" and
// the subscription stays in force: the client keeps receiving what it asked not to receive any more.
// Uses router_demo_support.rs. Appended to rumqttd/src/router/routing.rs.
#[cfg(test)]
mod verif_demo_f32 {
    use super::verif_support::*;
    use super::*;
    use crate::protocol::Unsubscribe;

    fn forwards(router: &mut Router, id: ConnectionId) -> Vec<String> {
        let mut out = vec![];
        for n in router.obufs.get_mut(id).unwrap().data_buffer.lock().drain(..) {
            if let Notification::Forward(f) = n {
                out.push(String::from_utf8_lossy(&f.publish.payload).to_string());
            }
        }
        out
    }

    #[test]
    fn f32_a_resumed_session_can_unsubscribe() {
        let mut router = router();
        let sub = connect(&mut router, "sub", false);
        let publisher = connect(&mut router, "pub", true);
        send(&mut router, sub, vec![subscribe("hello/world", QoS::AtMostOnce, 1)]);
        drain(&mut router);
        router.events(sub, Event::Disconnect);
        drain(&mut router);
        let sub = connect(&mut router, "sub", false); // session resumed, subscription still in force
        drain(&mut router);
        send(&mut router, publisher, vec![publish("hello/world", QoS::AtMostOnce, 0, "m1")]);
        drain(&mut router);
        assert_eq!(forwards(&mut router, sub), ["m1"]);
        let unsub = Packet::Unsubscribe(Unsubscribe { pkid: 2, filters: vec!["hello/world".to_owned()] }, None);
        send(&mut router, sub, vec![unsub]);
        drain(&mut router);
        send(&mut router, publisher, vec![publish("hello/world", QoS::AtMostOnce, 0, "m2")]);
        drain(&mut router);
        let after = forwards(&mut router, sub);
        assert!(after.is_empty(), "received after UNSUBSCRIBE: {after:?}");
    }
}
