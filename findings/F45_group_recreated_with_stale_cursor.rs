// Demonstration of finding F45 (C17, open): a shared group is dropped when its last connected member leaves, and with it
// the group's read cursor -- although the saved session of a persistent member that is away still names the group. When
// that member resumes, the group is created again from the member's PRIVATE saved cursor, which dates from the moment it
// left: everything the other members received (and acknowledged) in the meantime is forwarded a second time.
// Uses router_demo_support.rs. Appended to rumqttd/src/router/routing.rs.
#[cfg(test)]
mod verif_demo_f45 {
    use super::verif_support::*;
    use super::*;

    fn take(router: &mut Router, id: ConnectionId) -> Vec<String> {
        let mut out = vec![];
        for n in router.obufs.get_mut(id).unwrap().data_buffer.lock().drain(..) {
            if let Notification::Forward(f) = n {
                out.push(String::from_utf8_lossy(&f.publish.payload).to_string());
            }
        }
        out
    }

    #[test]
    fn f45_a_resumed_member_does_not_get_what_another_member_already_got() {
        let mut router = router();
        let a = connect(&mut router, "a", false); // persistent member
        let b = connect(&mut router, "b", true);
        let publisher = connect(&mut router, "pub", true);
        send(&mut router, a, vec![subscribe("$share/g/t", QoS::AtMostOnce, 1)]);
        send(&mut router, b, vec![subscribe("$share/g/t", QoS::AtMostOnce, 1)]);
        drain(&mut router);
        router.events(a, Event::Disconnect); // a is away
        drain(&mut router);
        let mut seen_b = vec![];
        for m in ["1", "2", "3"] {
            send(&mut router, publisher, vec![publish("t", QoS::AtMostOnce, 0, m)]);
            drain(&mut router);
            seen_b.extend(take(&mut router, b));
        }
        assert_eq!(seen_b, ["1", "2", "3"], "b is the only connected member");
        router.events(b, Event::Disconnect); // the last connected member leaves: the group is dropped
        drain(&mut router);
        // published while no member is connected: owed to the member that comes back
        send(&mut router, publisher, vec![publish("t", QoS::AtMostOnce, 0, "4")]);
        drain(&mut router);
        let a = connect(&mut router, "a", false); // a resumes its session
        drain(&mut router);
        let seen_a = take(&mut router, a);
        for m in &seen_a {
            assert!(!seen_b.contains(m), "{m} was forwarded to two members of the group: b {seen_b:?}, then a {seen_a:?}");
        }
        assert_eq!(seen_a, ["4"], "what was accepted while every member was away");
    }
}
