// Demonstration of finding F41 (C15): DataLog::read_retained_messages runs for every new subscription and, for every
// stored retained message with a message-expiry interval, writes `interval - age` back into the STORED copy while the
// stored timestamp stays the arrival time. Each later read subtracts the whole age again: a retained message with a
// 5 s interval that is read at 1 s and 2 s is discarded at 3 s, and a new subscriber at that moment gets nothing.
// (Takes ~3.5 s of real time: ages are counted in whole seconds.)
// Uses router_demo_support.rs. Appended to rumqttd/src/router/routing.rs.
#[cfg(test)]
mod verif_demo_f41 {
    use super::verif_support::*;
    use super::*;
    use std::time::Duration;

    fn retained(router: &mut Router, id: ConnectionId) -> Vec<(String, Option<u32>)> {
        let mut out = vec![];
        for n in router.obufs.get_mut(id).unwrap().data_buffer.lock().drain(..) {
            if let Notification::Forward(f) = n {
                let left = f.properties.as_ref().and_then(|p| p.message_expiry_interval);
                out.push((String::from_utf8_lossy(&f.publish.payload).to_string(), left));
            }
        }
        out
    }

    #[test]
    fn f41_reading_retained_messages_does_not_age_them() {
        let mut router = router();
        let publisher = connect(&mut router, "pub", true);
        let Packet::Publish(mut publish, _) = publish("state/door", QoS::AtMostOnce, 0, "open") else { unreachable!() };
        publish.retain = true;
        let props = PublishProperties { message_expiry_interval: Some(5), ..Default::default() };
        send(&mut router, publisher, vec![Packet::Publish(publish, Some(props))]);
        drain(&mut router);
        let mut seen = vec![];
        for (n, name) in ["s1", "s2", "s3"].into_iter().enumerate() {
            std::thread::sleep(Duration::from_millis(1100));
            let s = connect(&mut router, name, true);
            send(&mut router, s, vec![subscribe("state/#", QoS::AtMostOnce, 1)]);
            drain(&mut router);
            let got = retained(&mut router, s);
            seen.push(got.clone());
            // ~1.1 s, ~2.2 s, ~3.3 s after a publish that is valid for 5 s
            assert_eq!(got.len(), 1, "subscriber {} ({} s after the publish) got {got:?}; earlier: {seen:?}", name, n + 1);
            let left = got[0].1.unwrap();
            assert!(left >= 5 - (n as u32 + 2) && left <= 5 - (n as u32 + 1), "remaining interval {left} at ~{} s; {seen:?}", n + 1);
        }
    }
}
