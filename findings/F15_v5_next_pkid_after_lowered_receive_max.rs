// Demonstration of finding F15 (C07), MQTT 5 client: next_pkid() wraps around only when the next
// id is *equal* to max_outgoing_inflight. That limit is lowered when a later CONNACK carries a
// smaller Receive Maximum; if last_pkid is already above the new limit the ids keep growing past
// the limit (and finally past the packet-id tables: every publish then fails with Unsolicited, or
// with the default limit u16::MAX the addition overflows). Appended to rumqttc/src/v5/state.rs of
// the pinned tree this fails; after the fix it passes.
#[cfg(test)]
mod verif_demo_f15 {
    use super::*;

    #[test]
    fn packet_ids_respect_a_lowered_receive_maximum() {
        let mut state = MqttState::new(100, false);
        // first connection: ids 1..=50 were used (and acknowledged)
        for _ in 0..50 {
            state.next_pkid();
        }
        // reconnect: the broker's CONNACK now carries Receive Maximum = 10; this is exactly what
        // handle_incoming_connack() does with it
        state.max_outgoing_inflight = 10u16.min(100);
        for _ in 0..200 {
            let pkid = state.next_pkid();
            assert!(
                (1..=10).contains(&pkid) || pkid == 51,
                "packet id {pkid} exceeds the limit of 10 granted by the broker"
            );
        }
    }
}
