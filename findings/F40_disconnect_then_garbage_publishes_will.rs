// Demonstration of finding F40 (C16): RemoteLink::start pushes the packets it decoded into the buffer shared with the
// router and notifies the router afterwards -- unless a later packet of the same read is malformed: then it returns
// the error first and the router never looks at what was pushed. A client that sends DISCONNECT followed by garbage in
// one segment therefore gets its will published although it "sent DISCONNECT first"; had the garbage arrived in its
// own segment the will would have been discarded (the outcome depends on how the bytes were chunked).
// Drives server::broker::remote over in-memory streams against a real Router.
// Appended to rumqttd/src/server/broker.rs.
#[cfg(test)]
mod verif_demo_f40 {
    use super::*;
    use crate::protocol::{Connect, ConnectReturnCode, LastWill, QoS};
    use crate::router::shared_subs::Strategy;
    use crate::RouterConfig;
    use bytes::BytesMut;
    use tokio::io::{AsyncReadExt, AsyncWriteExt, DuplexStream};

    type Table = Arc<Mutex<HashMap<String, Sender<AwaitingWill>>>>;

    fn spawn_connection(
        router_tx: &Sender<(ConnectionId, Event)>,
        table: &Table,
    ) -> (DuplexStream, task::JoinHandle<()>) {
        let (client, server) = tokio::io::duplex(4096);
        let settings = Arc::new(ConnectionSettings {
            connection_timeout_ms: 2000,
            max_payload_size: 20480,
            max_inflight_count: 100,
            auth: None,
            external_auth: None,
            dynamic_filters: false,
        });
        let handle = task::spawn(remote(
            settings,
            None,
            router_tx.clone(),
            Box::new(server),
            V4,
            table.clone(),
        ));
        (client, handle)
    }

    fn connect_bytes(client_id: &str, will: Option<LastWill>) -> BytesMut {
        let connect = Connect {
            keep_alive: 60,
            client_id: client_id.to_owned(),
            clean_session: true,
        };
        let mut out = BytesMut::new();
        V4.write(Packet::Connect(connect, None, will, None, None), &mut out)
            .unwrap();
        out
    }

    /// reads packets until `want` says stop; None on timeout / end of stream
    async fn read_until<T>(client: &mut DuplexStream, mut want: impl FnMut(Packet) -> Option<T>) -> Option<T> {
        let mut buf = BytesMut::new();
        let mut chunk = [0u8; 256];
        loop {
            while let Ok(packet) = V4.read_mut(&mut buf, 4096) {
                if let Some(v) = want(packet) {
                    return Some(v);
                }
            }
            match time::timeout(Duration::from_secs(2), client.read(&mut chunk)).await {
                Ok(Ok(n)) if n > 0 => buf.extend_from_slice(&chunk[..n]),
                _ => return None,
            }
        }
    }

    async fn connect(client: &mut DuplexStream, client_id: &str) -> bool {
        client.write_all(&connect_bytes(client_id, None)).await.unwrap();
        read_until(client, |p| match p {
            Packet::ConnAck(ack, _) => Some(ack.code == ConnectReturnCode::Success),
            _ => None,
        })
        .await
        .unwrap_or(false)
    }

    fn router(max_connections: usize) -> Sender<(ConnectionId, Event)> {
        let config = RouterConfig {
            max_segment_size: 1024 * 1024,
            max_connections,
            max_segment_count: 10,
            max_outgoing_packet_count: 200,
            custom_segment: None,
            initialized_filters: None,
            shared_subscriptions_strategy: Strategy::RoundRobin,
        };
        Router::new(0, config).spawn()
    }

    async fn will_seen_after(tail: &[u8], split: bool) -> Option<bytes::Bytes> {
        let router_tx = router(10);
        let table: Table = Arc::new(Mutex::new(HashMap::new()));
        let (mut s, _s_task) = spawn_connection(&router_tx, &table);
        assert!(connect(&mut s, "s").await);
        let mut out = BytesMut::new();
        let filter = crate::protocol::Filter {
            path: "wills/z".to_owned(),
            qos: QoS::AtMostOnce,
            nolocal: false,
            preserve_retain: false,
            retain_forward_rule: crate::protocol::RetainForwardRule::OnEverySubscribe,
        };
        let subscribe = crate::protocol::Subscribe { pkid: 1, filters: vec![filter] };
        V4.write(Packet::Subscribe(subscribe, None), &mut out).unwrap();
        s.write_all(&out).await.unwrap();
        assert!(read_until(&mut s, |p| matches!(p, Packet::SubAck(..)).then_some(())).await.is_some());

        let will = LastWill {
            topic: "wills/z".into(),
            message: "z is gone".into(),
            qos: QoS::AtMostOnce,
            retain: false,
        };
        let (mut z, z_task) = spawn_connection(&router_tx, &table);
        z.write_all(&connect_bytes("z", Some(will))).await.unwrap();
        assert!(read_until(&mut z, |p| matches!(p, Packet::ConnAck(..)).then_some(())).await.is_some());
        // DISCONNECT (0xE0 0x00), then bytes that are no MQTT packet
        let mut bytes = vec![0xE0u8, 0x00];
        if split {
            z.write_all(&bytes).await.unwrap();
            time::sleep(Duration::from_millis(200)).await;
            let _ = z.write_all(tail).await;
        } else {
            bytes.extend_from_slice(tail);
            z.write_all(&bytes).await.unwrap();
        }
        let _ = z_task.await;
        drop(z);
        read_until(&mut s, |p| match p {
            Packet::Publish(publish, _) => Some(publish.payload),
            _ => None,
        })
        .await
    }

    #[tokio::test(flavor = "current_thread")]
    async fn control_disconnect_then_garbage_in_a_second_segment_discards_the_will() {
        assert_eq!(will_seen_after(&[0x00, 0x00, 0x00, 0x00], true).await, None);
    }

    #[tokio::test(flavor = "current_thread")]
    async fn f40_disconnect_then_garbage_in_one_segment_discards_the_will() {
        let got = will_seen_after(&[0x00, 0x00, 0x00, 0x00], false).await;
        assert_eq!(got, None, "the client sent DISCONNECT first: its will must not be published");
    }
}
