// Demonstration of finding F44 (C08): the console's status query for a client that is not connected
// (Event::PrintStatus(Print::Connection(id)), reachable from the HTTP console) reads the saved state with
// Graveyard::retrieve, which REMOVES it. Looking at a disconnected persistent client ends its session: its next connect
// with clean-session off is told session_present = false and gets nothing of what was accepted while it was away.
// Uses router_demo_support.rs. Appended to rumqttd/src/router/routing.rs.
#[cfg(test)]
mod verif_demo_f44 {
    use super::verif_support::*;
    use super::*;

    fn connack_and_forwards(router: &mut Router, id: ConnectionId) -> (Option<bool>, Vec<String>) {
        let mut present = None;
        let mut out = vec![];
        for n in router.obufs.get_mut(id).unwrap().data_buffer.lock().drain(..) {
            match n {
                Notification::DeviceAck(crate::router::Ack::ConnAck(_, ack, _)) => present = Some(ack.session_present),
                Notification::Forward(f) => out.push(String::from_utf8_lossy(&f.publish.payload).to_string()),
                _ => {}
            }
        }
        (present, out)
    }

    #[test]
    fn f44_looking_at_a_disconnected_client_does_not_end_its_session() {
        let mut router = router();
        let a = connect(&mut router, "a", false);
        let publisher = connect(&mut router, "pub", true);
        send(&mut router, a, vec![subscribe("hello/world", QoS::AtLeastOnce, 1)]);
        drain(&mut router);
        router.events(a, Event::Disconnect);
        drain(&mut router);
        // an operator looks at the client in the console
        router.events(0, Event::PrintStatus(Print::Connection("a".to_owned())));
        send(&mut router, publisher, vec![publish("hello/world", QoS::AtLeastOnce, 7, "while away")]);
        drain(&mut router);
        let a = connect(&mut router, "a", false);
        drain(&mut router);
        let (present, forwards) = connack_and_forwards(&mut router, a);
        assert_eq!(present, Some(true), "session_present after a reconnect with clean-session off");
        assert_eq!(forwards, ["while away"]);
    }
}
