// Demonstration of finding F3 (C20): a publish that carries MQTT 5 properties (stored from a
// v5 publisher and forwarded unchanged by the router) cannot be encoded for a 3.1.1 subscriber.
// Appended to rumqttd/src/protocol/v4/mod.rs of the pinned tree this panics with
// "internal error: entered unreachable code: This branch only matches for packets with Properties";
// after the fix it passes.
#[cfg(test)]
mod verif_demo_f3 {
    use super::*;
    use bytes::BytesMut;

    #[test]
    fn v4_encoder_drops_publish_properties() {
        let publish = Publish {
            dup: false,
            qos: QoS::AtMostOnce,
            pkid: 0,
            retain: false,
            topic: "t".into(),
            payload: "x".into(),
        };
        let props = PublishProperties {
            user_properties: vec![("k".to_owned(), "v".to_owned())],
            ..Default::default()
        };
        let mut with_props = BytesMut::new();
        V4.write(Packet::Publish(publish.clone(), Some(props)), &mut with_props)
            .unwrap();
        let mut without = BytesMut::new();
        V4.write(Packet::Publish(publish, None), &mut without).unwrap();
        assert_eq!(with_props, without);
    }
}
