// Demonstration of finding F23 (C08): an out-of-order PUBACK makes the router close the connection, but
// Outgoing::register_ack has already popped the OLDEST unacknowledged forward before comparing ids, so the rewind
// of the persistent session starts one message later and the oldest unacknowledged message is never re-sent.
// Uses router_demo_support.rs. Appended to rumqttd/src/router/routing.rs.
#[cfg(test)]
mod verif_demo_f23 {
    use super::verif_support::*;
    use super::*;

    fn forwards(router: &mut Router, id: ConnectionId) -> Vec<String> {
        let mut out = vec![];
        for n in router.obufs.get_mut(id).unwrap().data_buffer.lock().drain(..) {
            if let Notification::Forward(f) = n {
                out.push(String::from_utf8_lossy(&f.publish.payload).to_string());
            }
        }
        out
    }

    #[test]
    fn f23_resume_after_an_out_of_order_puback_resends_the_oldest_unacked_message() {
        let mut router = router();
        let sub = connect(&mut router, "sub", false);
        let publisher = connect(&mut router, "pub", true);
        send(&mut router, sub, vec![subscribe("hello/world", QoS::AtLeastOnce, 1)]);
        drain(&mut router);
        for m in ["m1", "m2", "m3"] {
            send(&mut router, publisher, vec![publish("hello/world", QoS::AtLeastOnce, 7, m)]);
            drain(&mut router);
        }
        assert_eq!(forwards(&mut router, sub), ["m1", "m2", "m3"]); // packet ids 1, 2, 3, none acknowledged
        // the client acknowledges packet id 2 first: the router does not accept that and closes the connection
        send(&mut router, sub, vec![Packet::PubAck(PubAck { pkid: 2, reason: PubAckReason::Success }, None)]);
        drain(&mut router);
        assert!(router.connection_map.get("sub").is_none(), "the connection is closed");
        // the client comes back and resumes its session: nothing was acknowledged, so all three are due again
        let sub = connect(&mut router, "sub", false);
        drain(&mut router);
        assert_eq!(forwards(&mut router, sub), ["m1", "m2", "m3"]);
    }
}
