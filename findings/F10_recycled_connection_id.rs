// Demonstration of finding F10 (C14, known finding — not fixed: needs a per-connection generation
// token in Event/links). Connection ids are slab keys and are reused immediately. A late
// Event::Disconnect from the link of a connection that the router already removed (takeover by a
// new connection with the same client id) removes the NEW connection, which got the same id.
// Uses router_demo_support.rs. Fails on the pinned tree and on the fixed tree alike.
#[cfg(test)]
mod verif_demo_f10 {
    use super::verif_support::*;
    use super::*;

    #[test]
    fn late_disconnect_of_old_link_does_not_hit_new_connection() {
        let mut router = router();
        let old = connect(&mut router, "a", true);
        // same client id connects again: the router drops the old connection (takeover) ...
        let new = connect(&mut router, "a", true);
        assert_eq!(old, new, "the slab key of the removed connection is reused at once");
        // ... and then the old link's task notices its socket error and reports it
        router.events(old, Event::Disconnect);
        assert!(
            router.connection_map.contains_key("a"),
            "the new connection was removed by the old link's Disconnect event"
        );
    }
}
