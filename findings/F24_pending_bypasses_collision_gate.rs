// Demonstration of finding F24 (C02, C07), MQTT 3.1.1 client. Appended to rumqttc/src/eventloop.rs.
// While `pending` is non-empty the event loop takes requests even though a publish is parked on a packet-id
// collision (and even though the window is full): `!pending.is_empty() || (!inflight_full && !collision)`.
// `pending` also carries the user requests that were still in the channel when the connection failed. A second
// colliding publish among them overwrites the parked one, which is then never sent: an accepted QoS 1 publish is lost.
// A scripted broker on a loopback socket drives the real EventLoop::poll().
#[cfg(test)]
mod verif_demo_f24 {
    use super::*;
    use crate::QoS;
    use tokio::io::{AsyncReadExt, AsyncWriteExt};
    use tokio::net::TcpListener;

    async fn read_packet(stream: &mut TcpStream) -> Option<Vec<u8>> {
        let mut packet = vec![stream.read_u8().await.ok()?];
        let mut remaining = 0usize;
        let mut shift = 0;
        loop {
            let byte = stream.read_u8().await.ok()?;
            packet.push(byte);
            remaining |= ((byte & 0x7f) as usize) << shift;
            shift += 7;
            if byte & 0x80 == 0 {
                break;
            }
        }
        let mut body = vec![0u8; remaining];
        stream.read_exact(&mut body).await.ok()?;
        packet.extend(body);
        Some(packet)
    }

    fn parse_publish(p: &[u8]) -> (u16, u8) {
        let topic_len = ((p[2] as usize) << 8) | p[3] as usize;
        let pkid = ((p[4 + topic_len] as u16) << 8) | p[5 + topic_len] as u16;
        (pkid, p[6 + topic_len])
    }

    #[tokio::test]
    async fn f24_parked_publish_survives_a_reconnect_with_more_requests_queued() {
        let listener = TcpListener::bind("127.0.0.1:0").await.unwrap();
        let port = listener.local_addr().unwrap().port();
        let broker = tokio::spawn(async move {
            // first connection: A (id 1) and B (id 2) arrive, only B is acknowledged, then the link dies
            let (mut stream, _) = listener.accept().await.unwrap();
            read_packet(&mut stream).await.unwrap();
            stream.write_all(&[0x20, 0x02, 0x00, 0x00]).await.unwrap();
            let a = parse_publish(&read_packet(&mut stream).await.unwrap());
            let b = parse_publish(&read_packet(&mut stream).await.unwrap());
            assert_eq!((a, b), ((1, 1), (2, 2)));
            stream.write_all(&[0x40, 0x02, 0x00, 0x02]).await.unwrap();
            time::sleep(Duration::from_millis(300)).await; // C is taken now and parks on id 1; D, E wait in the channel
            drop(stream);
            // second connection resumes the session: acknowledge whatever arrives, in arrival order
            let (mut stream, _) = listener.accept().await.unwrap();
            read_packet(&mut stream).await.unwrap();
            stream.write_all(&[0x20, 0x02, 0x01, 0x00]).await.unwrap();
            // a slow broker: it acknowledges only when nothing has arrived for a while, in arrival order
            let mut payloads = vec![];
            let mut quiet_rounds = 0;
            while quiet_rounds < 2 {
                let mut unacked = vec![];
                while let Ok(Some(p)) = time::timeout(Duration::from_millis(400), read_packet(&mut stream)).await {
                    if p[0] >> 4 == 3 {
                        let (pkid, payload) = parse_publish(&p);
                        payloads.push(payload);
                        unacked.push(pkid);
                    }
                }
                quiet_rounds = if unacked.is_empty() { quiet_rounds + 1 } else { 0 };
                for pkid in unacked {
                    stream.write_all(&[0x40, 0x02, (pkid >> 8) as u8, pkid as u8]).await.unwrap();
                }
            }
            payloads
        });

        let mut options = MqttOptions::new("f24", "127.0.0.1", port);
        options.set_clean_session(false).set_inflight(2);
        let mut eventloop = EventLoop::new(options, 10);
        let tx = eventloop.requests_tx.clone();
        for n in 1..=5u8 {
            // A, B, C, D, E — all accepted by the client library
            tx.send_async(Request::Publish(Publish::new("hello/world", QoS::AtLeastOnce, vec![n]))).await.unwrap();
        }
        time::timeout(Duration::from_secs(10), async { while eventloop.poll().await.is_ok() {} })
            .await
            .expect("first connection dropped");
        assert!(eventloop.pending.len() >= 2, "A and the parked C are carried over: {:?}", eventloop.pending);
        let _ = time::timeout(Duration::from_secs(6), async { while eventloop.poll().await.is_ok() {} }).await;

        let mut payloads = broker.await.unwrap();
        payloads.sort_unstable();
        payloads.dedup();
        assert_eq!(payloads, [1, 3, 4, 5], "every accepted publish that was never acknowledged must reach the broker after the resume");
    }
}
