// Demonstrations of findings F2 and F13 (C05). Appended to rumqttd/src/protocol/v5/mod.rs of the
// pinned tree both tests fail (F2: "internal error: entered unreachable code"; F13: "got
// Err(InsufficientBytes(1)) for a complete frame"); after the two fix commits both pass.
#[cfg(test)]
mod verif_demo {
    use super::*;
    use bytes::BytesMut;

    #[test]
    fn f2_connack_frame_does_not_panic() {
        let mut stream = BytesMut::from(&[0x20u8, 0x03, 0x00, 0x00, 0x00][..]);
        let _ = V5.read_mut(&mut stream, 1024);
        let mut stream = BytesMut::from(&[0xB0u8, 0x04, 0x00, 0x01, 0x00, 0x00][..]);
        let _ = V5.read_mut(&mut stream, 1024);
    }

    #[test]
    fn f13_complete_frame_never_asks_for_more_bytes() {
        let mut stream = BytesMut::from(&[0x40u8, 0x04, 0x00, 0x01, 0x00, 0x80][..]);
        let r = V5.read_mut(&mut stream, 1024);
        assert!(stream.is_empty(), "frame was consumed");
        assert!(!matches!(r, Err(Error::InsufficientBytes(_))), "got {r:?} for a complete frame");
    }
}
