// Demonstration of finding F42 (C03, dev profile): prepare_filter ends with
// `debug_assert!(self.scheduler.check_tracker_duplicates(id).is_none())`, and check_tracker_duplicates calls two data
// requests duplicates when they have the same filter_idx. But `t` and `$share/g/t` are two different subscriptions
// that read the SAME log (one filter_idx): a client that subscribes to both makes the assertion fail, and in a build
// with debug assertions the panic ends the router thread (the routing core of every client).
// Uses router_demo_support.rs. Appended to rumqttd/src/router/routing.rs.
#[cfg(test)]
mod verif_demo_f42 {
    use super::verif_support::*;
    use super::*;

    #[test]
    fn f42_plain_and_shared_subscription_on_one_topic_do_not_panic_the_router() {
        let mut router = router();
        let c = connect(&mut router, "c", true);
        let publisher = connect(&mut router, "pub", true);
        // both SUBSCRIBEs arrive in one read (the first request is still in the tracker when the second is added)
        let outcome = std::panic::catch_unwind(std::panic::AssertUnwindSafe(|| {
            let both = vec![subscribe("t", QoS::AtMostOnce, 1), subscribe("$share/g/t", QoS::AtMostOnce, 2)];
            send(&mut router, c, both);
            drain(&mut router);
        }));
        assert!(outcome.is_ok(), "the router panicked on a client's second (shared) subscription to the same topic");
        // both subscriptions are served
        send(&mut router, publisher, vec![publish("t", QoS::AtMostOnce, 0, "m")]);
        drain(&mut router);
        let mut got = 0;
        for n in router.obufs.get_mut(c).unwrap().data_buffer.lock().drain(..) {
            if let Notification::Forward(_) = n {
                got += 1;
            }
        }
        assert_eq!(got, 2, "one copy per subscription");
    }
}
