// Demonstration of finding F52 (C18), MQTT 5 client: the three `network.flush().await` in v5 select() have no timeout (the
// 3.1.1 event loop wraps each in time::timeout(network_timeout, ..) and reports FlushTimeout). A broker that stops
// READING (its TCP window closes, the connection stays open) makes flush() pend for ever; while a select! arm's body
// is awaited the other arms are not polled, so no PINGREQ is sent, no keep-alive failure is noticed, and poll() never
// returns: the silent broker is never reported.
// Appended to rumqttc/src/v5/eventloop.rs.
#[cfg(test)]
mod verif_demo_f52 {
    use super::*;
    use crate::v5::mqttbytes::v5::Publish;
    use crate::v5::mqttbytes::QoS;

    #[tokio::test(flavor = "current_thread")]
    async fn f52_a_broker_that_stops_reading_is_reported() {
        // the peer never reads: 64 bytes fit, then writes pend
        let (client_end, _broker_end) = tokio::io::duplex(64);
        let mut options = MqttOptions::new("f52", "localhost", 1883);
        options.set_connection_timeout(1);
        let mut eventloop = EventLoop::new(options, 10);
        eventloop.network = Some(Network::new(client_end, None));
        let tx = eventloop.requests_tx.clone();
        for _ in 0..4 {
            let publish = Publish::new("hello/world", QoS::AtMostOnce, vec![0u8; 200], None);
            tx.send_async(Request::Publish(publish)).await.unwrap();
        }
        // the network timeout is 1 s: within 5 s some poll() must have reported the dead connection
        let outcome = time::timeout(Duration::from_secs(5), async {
            loop {
                if let Err(e) = eventloop.poll().await {
                    return e;
                }
            }
        })
        .await;
        assert!(outcome.is_ok(), "poll() is stuck in flush(): the broker stopped reading and nothing is ever reported");
    }
}
