// Demonstration of finding F16 (C11), MQTT 3.1.1 client. Appended to rumqttc/src/eventloop.rs.
// A second connection failure in the middle of a replay: publishes 1 and 2 were re-sent (so they
// are back in the state), 3, 4 and a user request issued later are still waiting in `pending`.
// On the pinned tree clean() appends what the state hands back BEHIND `pending`: the next
// connection sends 3, 4, the user's subscribe, and only then 1, 2.  After the fix: 1, 2, 3, 4, sub.
#[cfg(test)]
mod verif_demo_f16 {
    use super::*;
    use crate::mqttbytes::v4::*;
    use crate::mqttbytes::*;

    fn publish(pkid: u16) -> Publish {
        let mut p = Publish::new("hello/world", QoS::AtLeastOnce, vec![pkid as u8]);
        p.pkid = pkid;
        p
    }

    fn describe(r: &Request) -> String {
        match r {
            Request::Publish(p) => format!("pub{}", p.pkid),
            Request::Subscribe(_) => "sub".to_owned(),
            other => format!("{other:?}"),
        }
    }

    #[test]
    fn f16_second_failure_mid_replay_keeps_the_original_order() {
        let mut eventloop = EventLoop::new(MqttOptions::new("f16", "localhost", 1883), 10);
        // first failure happened earlier: 1..4 unacknowledged, then the user subscribed
        for pkid in 1..=4 {
            eventloop.pending.push_back(Request::Publish(publish(pkid)));
        }
        eventloop.pending.push_back(Request::Subscribe(Subscribe::new("later", QoS::AtMostOnce)));
        // the resumed connection replays 1 and 2 ...
        for _ in 0..2 {
            let request = eventloop.pending.pop_front().unwrap();
            eventloop.state.handle_outgoing_packet(request).unwrap();
        }
        // ... and fails again
        eventloop.clean();
        let order: Vec<String> = eventloop.pending.iter().map(describe).collect();
        assert_eq!(order, ["pub1", "pub2", "pub3", "pub4", "sub"]);
    }
}
