// Demonstration of finding F37 (C17): the router keeps one SharedGroup (member list, turn and read cursor) per share
// NAME, so `$share/g/a` and `$share/g/b` -- two different shared subscriptions -- share one turn and one cursor although
// they read two different logs. The sole subscriber of `$share/g/a` gets the first message only: the turn then passes
// to the subscriber of `$share/g/b`, which has nothing to read in its own log and never hands the turn back.
// Uses router_demo_support.rs. Appended to rumqttd/src/router/routing.rs.
#[cfg(test)]
mod verif_demo_f37 {
    use super::verif_support::*;
    use super::*;

    fn take(router: &mut Router, id: ConnectionId) -> Vec<String> {
        let mut out = vec![];
        for n in router.obufs.get_mut(id).unwrap().data_buffer.lock().drain(..) {
            if let Notification::Forward(f) = n {
                out.push(String::from_utf8_lossy(&f.publish.payload).to_string());
            }
        }
        out
    }

    #[test]
    fn f37_same_share_name_on_two_filters_are_two_groups() {
        let mut router = router();
        let c1 = connect(&mut router, "c1", true);
        let c2 = connect(&mut router, "c2", true);
        let publisher = connect(&mut router, "pub", true);
        send(&mut router, c1, vec![subscribe("$share/g/a", QoS::AtMostOnce, 1)]);
        send(&mut router, c2, vec![subscribe("$share/g/b", QoS::AtMostOnce, 1)]);
        drain(&mut router);
        let (mut seen_1, mut seen_2) = (vec![], vec![]);
        for m in ["a1", "a2", "a3"] {
            send(&mut router, publisher, vec![publish("a", QoS::AtMostOnce, 0, m)]);
            drain(&mut router);
            seen_1.extend(take(&mut router, c1));
            seen_2.extend(take(&mut router, c2));
        }
        send(&mut router, publisher, vec![publish("b", QoS::AtMostOnce, 0, "b1")]);
        drain(&mut router);
        seen_1.extend(take(&mut router, c1));
        seen_2.extend(take(&mut router, c2));
        assert_eq!(seen_1, ["a1", "a2", "a3"], "the only member of $share/g/a; the member of $share/g/b got {seen_2:?}");
        assert_eq!(seen_2, ["b1"], "the only member of $share/g/b");
    }
}
