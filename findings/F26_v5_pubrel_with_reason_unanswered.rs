// Demonstration of finding F26 (C10), MQTT 5 client. Appended to rumqttc/src/v5/state.rs.
// A PUBREL for a packet id the client knows (it answered the QoS 2 PUBLISH with PUBREC) must be answered with
// PUBCOMP. When the PUBREL carries a reason code other than Success the handler clears the id and returns nothing.
#[cfg(test)]
mod verif_demo_f26 {
    use super::*;
    use crate::v5::mqttbytes::v5::*;
    use crate::v5::mqttbytes::QoS;

    #[test]
    fn f26_release_of_a_known_id_is_answered_with_pubcomp() {
        let mut state = MqttState::new(10, false);
        let mut publish = Publish::new("hello/world", QoS::ExactlyOnce, vec![1, 2, 3], None);
        publish.pkid = 7;
        let pubrec = state.handle_incoming_packet(Packet::Publish(publish)).unwrap();
        assert!(matches!(pubrec, Some(Packet::PubRec(ref p)) if p.pkid == 7));
        let mut pubrel = PubRel::new(7, None);
        pubrel.reason = PubRelReason::PacketIdentifierNotFound;
        let answer = state.handle_incoming_packet(Packet::PubRel(pubrel)).unwrap();
        assert!(
            matches!(answer, Some(Packet::PubComp(ref p)) if p.pkid == 7),
            "release of known id 7 answered with {answer:?}"
        );
    }
}
