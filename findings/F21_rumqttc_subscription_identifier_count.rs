// Demonstration of finding F21 (C04), client copy. Appended to rumqttc/src/v5/mqttbytes/v5/publish.rs.
#[cfg(test)]
mod verif_demo_f21 {
    use super::*;
    use bytes::BytesMut;

    #[test]
    fn f21_publish_with_subscription_identifiers_round_trips() {
        let mut publish = Publish::new("t", QoS::AtMostOnce, "payload", None);
        publish.properties = Some(PublishProperties {
            subscription_identifiers: vec![1, 2, 3],
            content_type: Some(String::new()),
            ..Default::default()
        });
        let mut buffer = BytesMut::new();
        publish.write(&mut buffer).unwrap();
        let fixed_header = parse_fixed_header(buffer.iter()).unwrap();
        let frame = buffer.split_to(fixed_header.frame_length()).freeze();
        assert_eq!(Publish::read(fixed_header, frame).unwrap(), publish);
    }
}
