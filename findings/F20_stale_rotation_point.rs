// Demonstration of finding F20 (C11), MQTT 3.1.1 client. Appended to rumqttc/src/eventloop.rs.
// The rotation point `last_puback` survives a reconnect on which the broker reports NO session (poll() drops the
// carried-over requests there), while the packet id counter keeps running. The ids of the next session's
// publishes then wrap across the stale rotation point, and after the next failure they are retransmitted in the
// wrong order: sent 9,10,1,2,3 (payloads 9..13) — replayed 3,9,10,1,2 (payloads 13,9,10,11,12).
// A scripted broker on a loopback socket drives the real EventLoop::poll().
#[cfg(test)]
mod verif_demo_f20 {
    use super::*;
    use crate::QoS;
    use tokio::io::{AsyncReadExt, AsyncWriteExt};
    use tokio::net::TcpListener;

    async fn read_packet(stream: &mut TcpStream) -> Option<Vec<u8>> {
        let mut packet = vec![stream.read_u8().await.ok()?];
        let mut remaining = 0usize;
        let mut shift = 0;
        loop {
            let byte = stream.read_u8().await.ok()?;
            packet.push(byte);
            remaining |= ((byte & 0x7f) as usize) << shift;
            shift += 7;
            if byte & 0x80 == 0 {
                break;
            }
        }
        let mut body = vec![0u8; remaining];
        stream.read_exact(&mut body).await.ok()?;
        packet.extend(body);
        Some(packet)
    }

    /// accepts a connection, answers CONNECT with the given session-present flag, reads `n` publishes and returns
    /// their (packet id, first payload byte); sends PUBACKs for `acks`
    async fn session(listener: &TcpListener, session_present: u8, n: usize, acks: &[u16]) -> Vec<(u16, u8)> {
        let (mut stream, _) = listener.accept().await.unwrap();
        let connect = read_packet(&mut stream).await.unwrap();
        assert_eq!(connect[0] >> 4, 1);
        stream.write_all(&[0x20, 0x02, session_present, 0x00]).await.unwrap();
        let mut seen = vec![];
        while seen.len() < n {
            let p = read_packet(&mut stream).await.expect("publish");
            if p[0] >> 4 != 3 {
                continue;
            }
            let topic_len = ((p[2] as usize) << 8) | p[3] as usize;
            let pkid = ((p[4 + topic_len] as u16) << 8) | p[5 + topic_len] as u16;
            seen.push((pkid, p[6 + topic_len]));
        }
        for pkid in acks {
            stream.write_all(&[0x40, 0x02, (pkid >> 8) as u8, *pkid as u8]).await.unwrap();
        }
        // let the acks arrive, then hang up
        time::sleep(Duration::from_millis(200)).await;
        seen
    }

    async fn run_until_disconnected(eventloop: &mut EventLoop) {
        time::timeout(Duration::from_secs(10), async { while eventloop.poll().await.is_ok() {} })
            .await
            .expect("the broker should have dropped the connection");
    }

    #[tokio::test]
    async fn f20_replay_order_after_a_session_that_was_not_resumed() {
        let listener = TcpListener::bind("127.0.0.1:0").await.unwrap();
        let port = listener.local_addr().unwrap().port();
        let broker = tokio::spawn(async move {
            let first = session(&listener, 0, 8, &[1, 2]).await;
            let second = session(&listener, 0, 5, &[]).await; // the broker has no session for the client
            let third = session(&listener, 1, 5, &[]).await; // this time it resumes it
            (first, second, third)
        });

        let mut options = MqttOptions::new("f20", "127.0.0.1", port);
        options.set_clean_session(false).set_inflight(10);
        let mut eventloop = EventLoop::new(options, 20);
        let tx = eventloop.requests_tx.clone();
        let publish = |n: u8| Request::Publish(Publish::new("hello/world", QoS::AtLeastOnce, vec![n]));

        for n in 1..=8 {
            tx.send_async(publish(n)).await.unwrap();
        }
        run_until_disconnected(&mut eventloop).await; // first session: 8 sent, 1 and 2 acknowledged
        assert_eq!(eventloop.pending.len(), 6);

        // second connection: CONNACK says "no session" -> the six carried-over publishes are dropped
        let event = eventloop.poll().await.unwrap();
        assert!(matches!(event, Event::Incoming(Packet::ConnAck(_))));
        assert!(eventloop.pending.is_empty());
        for n in 9..=13 {
            tx.send_async(publish(n)).await.unwrap();
        }
        run_until_disconnected(&mut eventloop).await; // second session: 5 sent, none acknowledged

        // third connection resumes the session: the five publishes are retransmitted
        let _ = time::timeout(Duration::from_secs(5), async { while eventloop.poll().await.is_ok() {} }).await;

        let (_first, second, third) = broker.await.unwrap();
        assert_eq!(second.iter().map(|x| x.1).collect::<Vec<_>>(), [9, 10, 11, 12, 13]);
        assert_eq!(third, second, "retransmission order differs from the order the publishes were sent in");
    }
}
