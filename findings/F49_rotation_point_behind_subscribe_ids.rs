// Demonstration of finding F49 (C11), MQTT 3.1.1 client: MqttState::clean() starts the retransmission list right after
// `last_puback`, assuming the oldest unacknowledged publish sits there. SUBSCRIBE / UNSUBSCRIBE draw packet ids from
// the same counter without occupying outgoing_pub, so when the window is empty the ids handed out run ahead of
// last_puback; after a wrap-around the rotation point lies INSIDE the outstanding range and the newest publish is
// retransmitted first although the broker had acknowledged everything strictly in order.
// Appended to rumqttc/src/state.rs.
#[cfg(test)]
mod verif_demo_f49 {
    use super::*;
    use crate::mqttbytes::v4::*;
    use crate::mqttbytes::*;

    #[test]
    fn f49_retransmission_keeps_the_original_order_after_subscribes_took_ids() {
        let mut state = MqttState::new(10, false);
        let mut sent = vec![];
        let mut publish = |state: &mut MqttState, n: u8| {
            let p = Publish::new("hello/world", QoS::AtLeastOnce, vec![n]);
            match state.handle_outgoing_packet(Request::Publish(p)).unwrap() {
                Some(Packet::Publish(p)) => p.pkid,
                other => panic!("{other:?}"),
            }
        };
        for n in 1..=5 {
            let id = publish(&mut state, n);
            state.handle_incoming_packet(Incoming::PubAck(PubAck::new(id))).unwrap(); // acknowledged in order
        }
        for _ in 0..3 {
            let subscribe = Subscribe::new("a/b", QoS::AtMostOnce);
            state.handle_outgoing_packet(Request::Subscribe(subscribe)).unwrap(); // ids 6, 7, 8
        }
        for n in 6..=13 {
            sent.push(publish(&mut state, n)); // ids 9, 10, 1, 2, 3, 4, 5, 6 -- none acknowledged
        }
        assert_eq!(sent, [9, 10, 1, 2, 3, 4, 5, 6]);
        // the connection fails
        let replay: Vec<u16> = state
            .clean()
            .into_iter()
            .filter_map(|r| match r {
                Request::Publish(p) => Some(p.pkid),
                _ => None,
            })
            .collect();
        assert_eq!(replay, sent, "retransmission order differs from the order the publishes were sent in");
    }
}
