// Demonstration of finding F25 (C04, open), rumqttc MQTT 5 codec. Appended to rumqttc/src/v5/mqttbytes/v5/mod.rs.
// Packet::Auth can be encoded (Packet::write has an arm for it) but not decoded: PacketType has no AUTH variant,
// FixedHeader::packet_type answers InvalidPacketType(15) and Packet::read has no arm for it.
#[cfg(test)]
mod verif_demo_f25 {
    use super::*;
    use bytes::BytesMut;

    #[test]
    fn f25_auth_round_trips_through_packet_read() {
        let auth = Auth {
            code: auth::AuthReasonCode::Continue,
            properties: None,
        };
        let mut buffer = BytesMut::new();
        Packet::Auth(auth.clone()).write(&mut buffer, None).unwrap();
        let decoded = Packet::read(&mut buffer, None).expect("an AUTH packet written by this codec");
        assert_eq!(decoded, Packet::Auth(auth));
    }
}
