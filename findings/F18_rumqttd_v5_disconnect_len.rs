// Demonstration of finding F18 (C04, C20), broker copy. Appended to rumqttd/src/protocol/v5/disconnect.rs.
// A DISCONNECT with a reason other than "normal" and no properties — what the router sends a v5 client on
// every reasoned disconnect (takeover, protocol error, ...) — is written as  E0 01 <reason> 00 : the remaining
// length says 1 but two bytes follow. The frame cannot be decoded and leaves a stray byte in the stream.
#[cfg(test)]
mod verif_demo_f18 {
    use super::*;
    use bytes::BytesMut;

    #[test]
    fn f18_reasoned_disconnect_without_properties_round_trips() {
        let disconnect = Disconnect {
            reason_code: DisconnectReasonCode::SessionTakenOver,
        };
        let mut buffer = BytesMut::new();
        let written = write(&disconnect, &None, &mut buffer).unwrap();
        assert_eq!(written, buffer.len(), "write() return value vs bytes produced ({:?})", &buffer[..]);

        let fixed_header = parse_fixed_header(buffer.iter()).unwrap();
        assert_eq!(fixed_header.frame_length(), buffer.len(), "announced frame length vs bytes produced");
        let frame = buffer.split_to(fixed_header.frame_length()).freeze();
        let (decoded, properties) = read(fixed_header, frame).unwrap();
        assert_eq!(decoded, disconnect);
        assert!(properties.is_none());
        assert!(buffer.is_empty(), "bytes left in the stream: {:?}", &buffer[..]);
    }

    #[test]
    fn f18_reasoned_disconnect_with_empty_properties_keeps_its_reason() {
        let disconnect = Disconnect {
            reason_code: DisconnectReasonCode::ServerShuttingDown,
        };
        let properties = Some(DisconnectProperties {
            session_expiry_interval: None,
            reason_string: None,
            user_properties: vec![],
            server_reference: None,
        });
        let mut buffer = BytesMut::new();
        let written = write(&disconnect, &properties, &mut buffer).unwrap();
        assert_eq!(written, buffer.len());
        let fixed_header = parse_fixed_header(buffer.iter()).unwrap();
        let frame = buffer.split_to(fixed_header.frame_length()).freeze();
        let (decoded, _) = read(fixed_header, frame).unwrap();
        assert_eq!(decoded, disconnect, "the reason code is lost");
    }
}
