// Demonstration of finding F54 (C20, also C01): a QoS 2 PUBLISH is parked until its PUBREL, and its topic alias is
// resolved only then (append_to_commitlog). A topic alias means what it means when the PUBLISH is received: if the
// publisher re-points the alias between the PUBLISH and the PUBREL, the message is delivered under the WRONG topic.
// Uses router_demo_support.rs. Appended to rumqttd/src/router/routing.rs.
#[cfg(test)]
mod verif_demo_f54 {
    use super::verif_support::*;
    use super::*;
    use crate::protocol::{PubRel, PubRelReason};

    fn aliased(topic: &str, qos: QoS, pkid: u16, payload: &str, alias: u16) -> Packet {
        let Packet::Publish(p, _) = publish(topic, qos, pkid, payload) else { unreachable!() };
        let props = PublishProperties { topic_alias: Some(alias), ..Default::default() };
        Packet::Publish(p, Some(props))
    }

    #[test]
    fn f54_a_qos2_publish_keeps_the_topic_its_alias_had_when_it_was_sent() {
        let mut router = router();
        let sub = connect(&mut router, "sub", true);
        let publisher = connect(&mut router, "pub", true);
        send(&mut router, sub, vec![subscribe("#", QoS::AtMostOnce, 1)]);
        drain(&mut router);
        // alias 1 := t1
        send(&mut router, publisher, vec![aliased("t1", QoS::AtMostOnce, 0, "first", 1)]);
        // a QoS 2 publish through alias 1 (= t1 at this moment) ...
        send(&mut router, publisher, vec![aliased("", QoS::ExactlyOnce, 7, "exactly once", 1)]);
        // ... the alias is re-pointed before the release
        send(&mut router, publisher, vec![aliased("t2", QoS::AtMostOnce, 0, "second", 1)]);
        send(&mut router, publisher, vec![Packet::PubRel(PubRel { pkid: 7, reason: PubRelReason::Success }, None)]);
        drain(&mut router);
        let mut seen = vec![];
        for n in router.obufs.get_mut(sub).unwrap().data_buffer.lock().drain(..) {
            if let Notification::Forward(f) = n {
                seen.push((String::from_utf8_lossy(&f.publish.topic).to_string(), String::from_utf8_lossy(&f.publish.payload).to_string()));
            }
        }
        let exactly_once: Vec<_> = seen.iter().filter(|(_, p)| p == "exactly once").collect();
        assert_eq!(exactly_once, [&("t1".to_owned(), "exactly once".to_owned())], "all forwards: {seen:?}");
    }
}
