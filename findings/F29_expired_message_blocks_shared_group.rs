// Demonstration of finding F29 (C17, C01): a message that has expired (MQTT 5 message expiry) is filtered out when the
// log is read. A round-robin shared group reads one entry per turn; when that entry is expired the read is empty,
// forward_device_data returns FilterCaughtup without writing the group cursor back, the member is parked, and the
// next wake-up re-reads the same expired entry: nothing behind it is ever forwarded.
// Uses router_demo_support.rs. Appended to rumqttd/src/router/routing.rs.
#[cfg(test)]
mod verif_demo_f29 {
    use super::verif_support::*;
    use super::*;

    fn forwards(router: &mut Router, id: ConnectionId) -> Vec<String> {
        let mut out = vec![];
        for n in router.obufs.get_mut(id).unwrap().data_buffer.lock().drain(..) {
            if let Notification::Forward(f) = n {
                out.push(String::from_utf8_lossy(&f.publish.payload).to_string());
            }
        }
        out
    }

    fn expiring(topic: &str, payload: &str) -> Packet {
        match publish(topic, QoS::AtMostOnce, 0, payload) {
            Packet::Publish(p, _) => Packet::Publish(
                p,
                Some(PublishProperties {
                    message_expiry_interval: Some(0), // expires at once
                    ..Default::default()
                }),
            ),
            _ => unreachable!(),
        }
    }

    fn scenario(filter: &str) -> Vec<String> {
        let mut router = router();
        let sub = connect(&mut router, "sub", true);
        let publisher = connect(&mut router, "pub", true);
        send(&mut router, sub, vec![subscribe(filter, QoS::AtMostOnce, 1)]);
        drain(&mut router);
        send(&mut router, publisher, vec![expiring("hello/world", "expired")]);
        drain(&mut router);
        for m in ["m1", "m2"] {
            send(&mut router, publisher, vec![publish("hello/world", QoS::AtMostOnce, 0, m)]);
            drain(&mut router);
        }
        forwards(&mut router, sub)
    }

    #[test]
    fn control_plain_subscription_skips_the_expired_message() {
        assert_eq!(scenario("hello/world"), ["m1", "m2"]);
    }

    #[test]
    fn f29_shared_group_gets_past_an_expired_message() {
        assert_eq!(scenario("$share/workers/hello/world"), ["m1", "m2"]);
    }
}
