// Demonstration of finding F38 (C16, also C03/C14): the table of will deciders (Server.awaiting_will_handler) is shared
// by the tasks of all connections. A connection that the router refuses (connection limit) ends its task early and
// leaves its decider registered; the next CONNECT of that client id signals into the stale sender with
// `try_send(..).unwrap()` WHILE the table is locked, panics, and poisons the mutex: from then on every connection task
// panics at `lock().unwrap()` — nobody is admitted and no will is decided any more.
// Drives server::broker::remote (the per-connection task) over in-memory streams against a real Router.
// Appended to rumqttd/src/server/broker.rs.
#[cfg(test)]
mod verif_demo_f38 {
    use super::*;
    use crate::protocol::{Connect, ConnectReturnCode};
    use crate::router::shared_subs::Strategy;
    use crate::RouterConfig;
    use bytes::BytesMut;
    use tokio::io::{AsyncReadExt, AsyncWriteExt, DuplexStream};

    type Table = Arc<Mutex<HashMap<String, Sender<AwaitingWill>>>>;

    fn spawn_connection(
        router_tx: &Sender<(ConnectionId, Event)>,
        table: &Table,
    ) -> (DuplexStream, task::JoinHandle<()>) {
        let (client, server) = tokio::io::duplex(4096);
        let settings = Arc::new(ConnectionSettings {
            connection_timeout_ms: 2000,
            max_payload_size: 20480,
            max_inflight_count: 100,
            auth: None,
            external_auth: None,
            dynamic_filters: false,
        });
        let handle = task::spawn(remote(
            settings,
            None,
            router_tx.clone(),
            Box::new(server),
            V4,
            table.clone(),
        ));
        (client, handle)
    }

    /// sends CONNECT, returns whether a successful CONNACK came back
    async fn connect(client: &mut DuplexStream, client_id: &str) -> bool {
        let connect = Connect {
            keep_alive: 60,
            client_id: client_id.to_owned(),
            clean_session: true,
        };
        let mut out = BytesMut::new();
        V4.write(Packet::Connect(connect, None, None, None, None), &mut out)
            .unwrap();
        client.write_all(&out).await.unwrap();
        let mut buf = BytesMut::new();
        let mut chunk = [0u8; 64];
        loop {
            let read = time::timeout(Duration::from_secs(2), client.read(&mut chunk)).await;
            match read {
                Ok(Ok(n)) if n > 0 => buf.extend_from_slice(&chunk[..n]),
                _ => return false,
            }
            match V4.read_mut(&mut buf, 1024) {
                Ok(Packet::ConnAck(ack, _)) => return ack.code == ConnectReturnCode::Success,
                Ok(_) => return false,
                Err(_) => continue,
            }
        }
    }

    #[tokio::test(flavor = "current_thread")]
    async fn f38_a_refused_connect_does_not_lock_everybody_out() {
        let config = RouterConfig {
            max_segment_size: 1024 * 1024,
            max_connections: 1,
            max_segment_count: 10,
            max_outgoing_packet_count: 200,
            custom_segment: None,
            initialized_filters: None,
            shared_subscriptions_strategy: Strategy::RoundRobin,
        };
        let router_tx = Router::new(0, config).spawn();
        let table: Table = Arc::new(Mutex::new(HashMap::new()));

        // `a` takes the only slot
        let (mut a, a_task) = spawn_connection(&router_tx, &table);
        assert!(connect(&mut a, "a").await, "a is admitted");
        // `x` is refused by the router: its task ends without a link
        let (mut x, x_task) = spawn_connection(&router_tx, &table);
        assert!(!connect(&mut x, "x").await, "x is refused: connection limit");
        let _ = x_task.await;
        // `a` goes away, the slot is free again
        drop(a);
        let _ = a_task.await;
        // `x` tries again ...
        let (mut x, x_task) = spawn_connection(&router_tx, &table);
        let x_admitted = connect(&mut x, "x").await;
        drop(x);
        let x_outcome = x_task.await;
        // ... and a client that never did anything unusual connects afterwards
        let (mut y, _y_task) = spawn_connection(&router_tx, &table);
        let y_admitted = connect(&mut y, "y").await;
        assert!(
            y_admitted,
            "y is locked out (will-decider table poisoned: {}); x's second attempt: admitted={x_admitted}, task panicked={}",
            table.is_poisoned(),
            x_outcome.is_err()
        );
        assert!(x_admitted, "x's second attempt was not admitted");
    }
}
