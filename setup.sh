#!/bin/bash
# Builds the fact extractor and pre-compiles /repo's dependencies for the default configuration
# (offline; everything comes from the local cargo cache and the pre-installed nightly toolchain).
set -e
cd "$(dirname "$0")"
export CARGO_NET_OFFLINE=true
(cd driver && cargo build --offline 2>&1 | tail -3)
python3 - <<'PY'
import sys
sys.path.insert(0, '.')
from analysis import extract
extract.build_driver()
print(extract.ensure_facts('default'))
PY
