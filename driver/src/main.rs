//! rustc_private fact extractor for the rumqtt static checks (see /verif/DESIGN.md §2.1).
//!
//! Invoked through RUSTC_WORKSPACE_WRAPPER: argv[1] is the real rustc and is dropped.
//! For the crates named in FACTS_CRATES (default "rumqttc,rumqttd") it writes
//! $FACTS_DIR/<crate>.json with
//!   * A-view bodies: clones of `mir_promoted` captured inside an overriding `mir_borrowck`
//!     provider (natural CFG, `Yield` terminators, promoted constants),
//!   * R-view bodies: `optimized_mir` (after drop elaboration),
//!   * enum/struct definitions, trait impl tables,
//!   * divergence summaries of every external function called from a workspace body,
//!     derived from dependency MIR (needs -Zalways-encode-mir).
#![feature(rustc_private)]
#![allow(clippy::all)]

extern crate rustc_abi;
extern crate rustc_data_structures;
extern crate rustc_driver;
extern crate rustc_hir;
extern crate rustc_index;
extern crate rustc_interface;
extern crate rustc_middle;
extern crate rustc_session;
extern crate rustc_span;

use std::cell::RefCell;
use std::collections::{BTreeMap, HashMap};
use std::fmt::Write as _;

use rustc_driver::{Callbacks, Compilation};
use rustc_hir::def::DefKind;
use rustc_hir::def_id::{DefId, LocalDefId, LOCAL_CRATE};
use rustc_interface::interface::{Compiler, Config};
use rustc_middle::mir::{
    self, AggregateKind, AssertKind, BasicBlock, Body, BorrowKind, Const, Operand, Place,
    ProjectionElem, Rvalue, RuntimeChecks, StatementKind, TerminatorKind, UnwindAction,
};
use rustc_middle::ty::print::with_no_trimmed_paths;
use rustc_middle::ty::{self, EarlyBinder, Instance, InstanceKind, Ty, TyCtxt, TypeVisitableExt, TypingEnv};
use rustc_span::hygiene::{DesugaringKind, ExpnKind};
use rustc_span::Span;

// ------------------------------------------------------------------------------------------
// tiny JSON value

enum V {
    Null,
    B(bool),
    I(i128),
    S(String),
    A(Vec<V>),
    O(Vec<(&'static str, V)>),
    M(BTreeMap<String, V>),
}

fn esc(s: &str, out: &mut String) {
    out.push('"');
    for c in s.chars() {
        match c {
            '"' => out.push_str("\\\""),
            '\\' => out.push_str("\\\\"),
            '\n' => out.push_str("\\n"),
            '\r' => out.push_str("\\r"),
            '\t' => out.push_str("\\t"),
            c if (c as u32) < 0x20 => {
                let _ = write!(out, "\\u{:04x}", c as u32);
            }
            c => out.push(c),
        }
    }
    out.push('"');
}

impl V {
    fn write(&self, out: &mut String) {
        match self {
            V::Null => out.push_str("null"),
            V::B(b) => out.push_str(if *b { "true" } else { "false" }),
            V::I(i) => {
                let _ = write!(out, "{}", i);
            }
            V::S(s) => esc(s, out),
            V::A(a) => {
                out.push('[');
                for (i, v) in a.iter().enumerate() {
                    if i > 0 {
                        out.push(',');
                    }
                    v.write(out);
                }
                out.push(']');
            }
            V::O(o) => {
                out.push('{');
                let mut first = true;
                for (k, v) in o.iter() {
                    if let V::Null = v {
                        continue;
                    }
                    if !first {
                        out.push(',');
                    }
                    first = false;
                    esc(k, out);
                    out.push(':');
                    v.write(out);
                }
                out.push('}');
            }
            V::M(m) => {
                out.push('{');
                for (i, (k, v)) in m.iter().enumerate() {
                    if i > 0 {
                        out.push(',');
                    }
                    esc(k, out);
                    out.push(':');
                    v.write(out);
                }
                out.push('}');
            }
        }
    }
}

fn s<T: Into<String>>(x: T) -> V {
    V::S(x.into())
}
fn int<T: Into<i128>>(x: T) -> V {
    V::I(x.into())
}

// ------------------------------------------------------------------------------------------
// captured analysis MIR (lifetime-erased; only read back while the same TyCtxt is alive)

struct Captured {
    def: LocalDefId,
    body: Body<'static>,
    promoted: Vec<Body<'static>>,
}

thread_local! {
    static CAPTURED: RefCell<Vec<Captured>> = RefCell::new(Vec::new());
}

fn wanted_crate(name: &str) -> bool {
    let list = std::env::var("FACTS_CRATES").unwrap_or_else(|_| "rumqttc,rumqttd".to_string());
    list.split(',').any(|c| c == name)
}

fn capture_one<'tcx>(tcx: TyCtxt<'tcx>, def: LocalDefId) {
    let (body, promoted) = tcx.mir_promoted(def);
    let body: Body<'tcx> = body.borrow().clone();
    let promoted: Vec<Body<'tcx>> = promoted.borrow().iter().cloned().collect();
    // SAFETY: the clones are only used in `after_analysis`, while `tcx` is still alive.
    let body: Body<'static> = unsafe { std::mem::transmute(body) };
    let promoted: Vec<Body<'static>> = unsafe { std::mem::transmute(promoted) };
    CAPTURED.with(|c| c.borrow_mut().push(Captured { def, body, promoted }));
}

fn my_borrowck<'tcx>(
    tcx: TyCtxt<'tcx>,
    def: LocalDefId,
) -> rustc_middle::queries::mir_borrowck::ProvidedValue<'tcx> {
    let name = tcx.crate_name(LOCAL_CRATE);
    if wanted_crate(name.as_str()) {
        capture_one(tcx, def);
        for nested in tcx.nested_bodies_within(def) {
            capture_one(tcx, nested);
        }
    }
    (rustc_interface::DEFAULT_QUERY_PROVIDERS.queries.mir_borrowck)(tcx, def)
}

// ------------------------------------------------------------------------------------------

struct Cx<'tcx> {
    tcx: TyCtxt<'tcx>,
    types: Vec<String>,
    type_ix: HashMap<Ty<'tcx>, usize>,
    spans: Vec<V>,
    span_ix: HashMap<Span, usize>,
    // external summaries
    ext: HashMap<Instance<'tcx>, (u32, std::rc::Rc<Summary>)>,
    ext_out: BTreeMap<String, V>,
    ext_stack: Vec<Instance<'tcx>>,
    ext_bodies_walked: usize,
}

#[derive(Default, Clone)]
struct Summary {
    /// sink name -> witness chain
    sinks: BTreeMap<String, String>,
    /// workspace functions called back from inside the external function
    locals: BTreeMap<String, ()>,
    mir: bool,
}

const EXT_DEPTH: u32 = 6;

fn is_workspace_crate(tcx: TyCtxt<'_>, did: DefId) -> bool {
    if did.is_local() {
        return true;
    }
    let n = tcx.crate_name(did.krate);
    matches!(n.as_str(), "rumqttc" | "rumqttd")
}

impl<'tcx> Cx<'tcx> {
    fn ty(&mut self, t: Ty<'tcx>) -> V {
        if let Some(i) = self.type_ix.get(&t) {
            return V::I(*i as i128);
        }
        let st = with_no_trimmed_paths!(format!("{}", t));
        let i = self.types.len();
        self.types.push(st);
        self.type_ix.insert(t, i);
        V::I(i as i128)
    }

    fn path(&self, did: DefId) -> String {
        with_no_trimmed_paths!(self.tcx.def_path_str(did))
    }

    fn span(&mut self, sp: Span) -> V {
        if let Some(i) = self.span_ix.get(&sp) {
            return V::I(*i as i128);
        }
        let tcx = self.tcx;
        let sm = tcx.sess.source_map();
        let mut macros: Vec<V> = Vec::new();
        let mut desugar: Option<String> = None;
        for ed in sp.macro_backtrace() {
            match ed.kind {
                ExpnKind::Macro(_, name) => {
                    let krate = ed
                        .macro_def_id
                        .map(|d| tcx.crate_name(d.krate).to_string())
                        .unwrap_or_else(|| "?".to_string());
                    macros.push(s(format!("{}::{}", krate, name)));
                }
                ExpnKind::Desugaring(k) => {
                    if desugar.is_none() {
                        desugar = Some(
                            match k {
                                DesugaringKind::QuestionMark => "?",
                                DesugaringKind::Await => "await",
                                DesugaringKind::ForLoop => "for",
                                DesugaringKind::WhileLoop => "while",
                                DesugaringKind::Async => "async",
                                DesugaringKind::TryBlock => "try",
                                _ => "other",
                            }
                            .to_string(),
                        );
                    }
                }
                _ => {}
            }
        }
        let cs = sp.source_callsite();
        let lo = sm.lookup_char_pos(cs.lo());
        let file = match &lo.file.name {
            rustc_span::FileName::Real(r) => match r.local_path() {
                Some(p) => p.to_string_lossy().to_string(),
                None => format!("{:?}", r),
            },
            other => format!("{:?}", other),
        };
        let v = V::O(vec![
            ("f", s(file)),
            ("l", int(lo.line as i64)),
            ("c", int(lo.col.0 as i64 + 1)),
            ("mx", if macros.is_empty() { V::Null } else { V::A(macros) }),
            ("ds", desugar.map(s).unwrap_or(V::Null)),
        ]);
        let i = self.spans.len();
        self.spans.push(v);
        self.span_ix.insert(sp, i);
        V::I(i as i128)
    }

    fn field_name(&self, pty: mir::PlaceTy<'tcx>, f: rustc_abi::FieldIdx) -> String {
        let tcx = self.tcx;
        match pty.ty.kind() {
            ty::Adt(def, _) => {
                let v = pty.variant_index.unwrap_or(rustc_abi::FIRST_VARIANT);
                if def.is_union() || def.is_struct() || def.is_enum() {
                    let vd = def.variant(v);
                    if f.as_usize() < vd.fields.len() {
                        return vd.fields[f].name.to_string();
                    }
                }
                format!("{}", f.as_usize())
            }
            ty::Closure(did, _) | ty::Coroutine(did, _) | ty::CoroutineClosure(did, _) => {
                if let Some(ld) = did.as_local() {
                    let caps = tcx.closure_captures(ld);
                    if f.as_usize() < caps.len() {
                        return format!("^{}", caps[f.as_usize()].to_string(tcx));
                    }
                }
                format!("^{}", f.as_usize())
            }
            _ => format!("{}", f.as_usize()),
        }
    }

    fn place(&mut self, body: &Body<'tcx>, p: Place<'tcx>) -> V {
        let tcx = self.tcx;
        let mut pty = mir::PlaceTy::from_ty(body.local_decls[p.local].ty);
        let mut projs = Vec::new();
        for elem in p.projection.iter() {
            match elem {
                ProjectionElem::Deref => projs.push(s("*")),
                ProjectionElem::Field(f, _) => {
                    let name = self.field_name(pty, f);
                    projs.push(V::O(vec![("f", s(name)), ("i", int(f.as_u32()))]));
                }
                ProjectionElem::Downcast(_, vidx) => {
                    let name = match pty.ty.kind() {
                        ty::Adt(def, _) if def.is_enum() => def.variant(vidx).name.to_string(),
                        _ => format!("{}", vidx.as_u32()),
                    };
                    projs.push(V::O(vec![("d", s(name)), ("v", int(vidx.as_u32()))]));
                }
                ProjectionElem::Index(l) => projs.push(V::O(vec![("ix", int(l.as_u32()))])),
                ProjectionElem::ConstantIndex { offset, from_end, .. } => projs.push(V::O(vec![
                    ("ci", int(offset as i64)),
                    ("fe", V::B(from_end)),
                ])),
                ProjectionElem::Subslice { .. } => projs.push(s("subslice")),
                _ => projs.push(s("cast")),
            }
            pty = pty.projection_ty(tcx, elem);
        }
        let has_proj = !projs.is_empty();
        V::O(vec![
            ("l", int(p.local.as_u32())),
            ("p", if has_proj { V::A(projs) } else { V::Null }),
            ("ty", if has_proj { self.ty(pty.ty) } else { V::Null }),
        ])
    }

    fn konst(&mut self, body: &Body<'tcx>, env: TypingEnv<'tcx>, c: &mir::ConstOperand<'tcx>) -> V {
        let tcx = self.tcx;
        let _ = body;
        let cty = c.const_.ty();
        let mut o: Vec<(&'static str, V)> = vec![("ty", self.ty(cty))];
        match cty.kind() {
            ty::FnDef(did, args) => {
                o.push(("fn", s(self.path(*did))));
                if !args.is_empty() {
                    o.push(("ga", s(with_no_trimmed_paths!(format!("{:?}", args)))));
                }
            }
            ty::Bool | ty::Int(_) | ty::Uint(_) | ty::Char => {
                let val = match c.const_ {
                    Const::Val(..) => c.const_.try_to_scalar_int(),
                    Const::Unevaluated(uv, _) if uv.promoted.is_some() => None,
                    _ => {
                        if c.const_.has_non_region_param() {
                            None
                        } else {
                            c.const_.try_eval_scalar_int(tcx, env)
                        }
                    }
                };
                if let Some(si) = val {
                    let size = si.size();
                    let bits = si.to_bits(size);
                    let v: i128 = match cty.kind() {
                        ty::Int(_) => size.sign_extend(bits) as i128,
                        _ => bits as i128,
                    };
                    o.push(("v", V::I(v)));
                }
            }
            _ => {}
        }
        if let Const::Unevaluated(uv, _) = c.const_ {
            if let Some(p) = uv.promoted {
                o.push(("promoted", int(p.as_u32())));
                o.push(("pdef", s(self.path(uv.def))));
            } else {
                o.push(("cdef", s(self.path(uv.def))));
            }
        }
        let mut disp = with_no_trimmed_paths!(format!("{}", c.const_));
        if disp.len() > 160 {
            let mut cut = 160;
            while !disp.is_char_boundary(cut) {
                cut -= 1;
            }
            disp.truncate(cut);
        }
        o.push(("s", s(disp)));
        V::O(vec![("k", V::O(o))])
    }

    fn operand(&mut self, body: &Body<'tcx>, env: TypingEnv<'tcx>, op: &Operand<'tcx>) -> V {
        match op {
            Operand::Copy(p) => V::O(vec![("c", self.place(body, *p))]),
            Operand::Move(p) => V::O(vec![("m", self.place(body, *p))]),
            Operand::Constant(c) => self.konst(body, env, c),
            Operand::RuntimeChecks(rc) => V::O(vec![(
                "rc",
                s(match rc {
                    RuntimeChecks::UbChecks => "ub",
                    RuntimeChecks::ContractChecks => "contract",
                    RuntimeChecks::OverflowChecks => "overflow",
                }),
            )]),
        }
    }

    fn rvalue(&mut self, body: &Body<'tcx>, env: TypingEnv<'tcx>, rv: &Rvalue<'tcx>) -> V {
        let tcx = self.tcx;
        match rv {
            Rvalue::Use(op, _) => V::O(vec![("k", s("use")), ("a", self.operand(body, env, op))]),
            Rvalue::Repeat(op, _) => {
                V::O(vec![("k", s("repeat")), ("a", self.operand(body, env, op))])
            }
            Rvalue::Ref(_, bk, p) => V::O(vec![
                ("k", s("ref")),
                (
                    "bk",
                    s(match bk {
                        BorrowKind::Shared => "shared",
                        BorrowKind::Fake(_) => "fake",
                        BorrowKind::Mut { .. } => "mut",
                    }),
                ),
                ("pl", self.place(body, *p)),
            ]),
            Rvalue::RawPtr(k, p) => V::O(vec![
                ("k", s("rawptr")),
                ("bk", s(format!("{:?}", k))),
                ("pl", self.place(body, *p)),
            ]),
            Rvalue::Cast(ck, op, t) => V::O(vec![
                ("k", s("cast")),
                ("ck", s(format!("{:?}", ck))),
                ("a", self.operand(body, env, op)),
                ("ty", self.ty(*t)),
            ]),
            Rvalue::BinaryOp(bop, ab) => V::O(vec![
                ("k", s("bin")),
                ("op", s(format!("{:?}", bop))),
                ("a", self.operand(body, env, &ab.0)),
                ("b", self.operand(body, env, &ab.1)),
            ]),
            Rvalue::UnaryOp(uop, a) => V::O(vec![
                ("k", s("un")),
                ("op", s(format!("{:?}", uop))),
                ("a", self.operand(body, env, a)),
            ]),
            Rvalue::Discriminant(p) => {
                let pty = p.ty(body, tcx).ty;
                let mut o = vec![("k", s("discr")), ("pl", self.place(body, *p))];
                if let ty::Adt(def, _) = pty.kind() {
                    if def.is_enum() {
                        o.push(("adt", s(self.path(def.did()))));
                        let mut m = BTreeMap::new();
                        for (vi, d) in def.discriminants(tcx) {
                            m.insert(format!("{}", d.val), s(def.variant(vi).name.to_string()));
                        }
                        o.push(("map", V::M(m)));
                    }
                }
                V::O(o)
            }
            Rvalue::Aggregate(ak, ops) => {
                let mut o = vec![("k", s("agg"))];
                match &**ak {
                    AggregateKind::Array(_) => o.push(("ak", s("array"))),
                    AggregateKind::Tuple => o.push(("ak", s("tuple"))),
                    AggregateKind::Adt(did, vidx, _, _, _) => {
                        o.push(("ak", s("adt")));
                        o.push(("adt", s(self.path(*did))));
                        let def = tcx.adt_def(*did);
                        let vd = def.variant(*vidx);
                        o.push(("var", s(vd.name.to_string())));
                        o.push((
                            "fields",
                            V::A(vd.fields.iter().map(|f| s(f.name.to_string())).collect()),
                        ));
                    }
                    AggregateKind::Closure(did, _) => {
                        o.push(("ak", s("closure")));
                        o.push(("adt", s(self.path(*did))));
                    }
                    AggregateKind::Coroutine(did, _) => {
                        o.push(("ak", s("coroutine")));
                        o.push(("adt", s(self.path(*did))));
                    }
                    AggregateKind::CoroutineClosure(did, _) => {
                        o.push(("ak", s("coroutine_closure")));
                        o.push(("adt", s(self.path(*did))));
                    }
                    AggregateKind::RawPtr(..) => o.push(("ak", s("rawptr"))),
                }
                let opsv: Vec<V> = ops.iter().map(|op| self.operand(body, env, op)).collect();
                o.push(("ops", V::A(opsv)));
                V::O(o)
            }
            Rvalue::CopyForDeref(p) => V::O(vec![
                ("k", s("use")),
                ("a", V::O(vec![("c", self.place(body, *p))])),
            ]),
            Rvalue::ThreadLocalRef(d) => {
                V::O(vec![("k", s("tls")), ("s", s(self.path(*d)))])
            }
            other => V::O(vec![
                ("k", s("other")),
                ("s", s(with_no_trimmed_paths!(format!("{:?}", other)))),
            ]),
        }
    }

    /// Resolve a call operand. Returns the JSON description and the resolved instance.
    fn callee(
        &mut self,
        fty: Ty<'tcx>,
        env: TypingEnv<'tcx>,
    ) -> (V, Option<Instance<'tcx>>) {
        let tcx = self.tcx;
        match fty.kind() {
            ty::FnDef(did, args) => {
                let mut o: Vec<(&'static str, V)> = Vec::new();
                let decl = self.path(*did);
                o.push(("decl", s(decl.clone())));
                if let Some(tr) = tcx.trait_of_assoc(*did) {
                    o.push(("trait", s(self.path(tr))));
                }
                let never = tcx.fn_sig(*did).skip_binder().output().skip_binder().is_never();
                if never {
                    o.push(("never", V::B(true)));
                }
                let inst = if args.has_infer() {
                    None
                } else {
                    match Instance::try_resolve(tcx, env, *did, args) {
                        Ok(Some(i)) => Some(i),
                        _ => None,
                    }
                };
                match inst {
                    Some(i) => {
                        let rdid = i.def_id();
                        let kind = match i.def {
                            InstanceKind::Item(_) => "item",
                            InstanceKind::Intrinsic(_) => "intrinsic",
                            InstanceKind::Virtual(..) => "virtual",
                            InstanceKind::ClosureOnceShim { .. } => "closure_once",
                            InstanceKind::FnPtrShim(..) => "fnptr_shim",
                            InstanceKind::DropGlue(..) => "drop_glue",
                            InstanceKind::CloneShim(..) => "clone_shim",
                            InstanceKind::ReifyShim(..) => "reify",
                            InstanceKind::VTableShim(..) => "vtable_shim",
                            _ => "shim",
                        };
                        o.push(("path", s(self.path(rdid))));
                        o.push(("kind", s(kind)));
                        o.push(("ws", V::B(is_workspace_crate(tcx, rdid))));
                        o.push(("crate", s(tcx.crate_name(rdid.krate).to_string())));
                        if !i.args.is_empty() {
                            o.push(("ga", s(with_no_trimmed_paths!(format!("{:?}", i.args)))));
                        }
                        if let Some(imp) = tcx.impl_of_assoc(rdid) {
                            let st = tcx.type_of(imp).instantiate_identity().skip_norm_wip();
                            o.push(("self", s(with_no_trimmed_paths!(format!("{}", st)))));
                        }
                        // receiver type (first generic arg of a trait method, or the impl self type after substitution)
                        if let Some(first) = i.args.types().next() {
                            o.push(("t0", s(with_no_trimmed_paths!(format!("{}", first)))));
                        }
                        if !is_workspace_crate(tcx, rdid) {
                            let key = with_no_trimmed_paths!(format!("{}", i));
                            o.push(("ext", s(key)));
                        }
                        (V::O(o), Some(i))
                    }
                    None => {
                        o.push(("path", s(decl)));
                        o.push(("kind", s("unresolved")));
                        o.push(("ws", V::B(is_workspace_crate(tcx, *did))));
                        o.push(("crate", s(tcx.crate_name(did.krate).to_string())));
                        if !args.is_empty() {
                            o.push(("ga", s(with_no_trimmed_paths!(format!("{:?}", args)))));
                        }
                        if let Some(first) = args.types().next() {
                            o.push(("t0", s(with_no_trimmed_paths!(format!("{}", first)))));
                        }
                        (V::O(o), None)
                    }
                }
            }
            _ => (
                V::O(vec![
                    ("kind", s("indirect")),
                    ("path", s(with_no_trimmed_paths!(format!("<indirect {}>", fty)))),
                ]),
                None,
            ),
        }
    }

    fn unwind(&self, u: &UnwindAction) -> V {
        match u {
            UnwindAction::Cleanup(bb) => int(bb.as_u32()),
            _ => V::Null,
        }
    }

    fn body(
        &mut self,
        did: DefId,
        body: &Body<'tcx>,
        view: &'static str,
        promoted_ix: Option<usize>,
        collect_ext: &mut Vec<Instance<'tcx>>,
    ) -> V {
        let tcx = self.tcx;
        let env = TypingEnv::post_analysis(tcx, did);
        let mut o: Vec<(&'static str, V)> = Vec::new();
        o.push(("id", s(self.path(did))));
        o.push(("view", s(view)));
        if let Some(p) = promoted_ix {
            o.push(("promoted", int(p as i64)));
        }
        let dk = tcx.def_kind(did);
        o.push(("kind", s(format!("{:?}", dk))));
        o.push(("sp", self.span(body.span)));
        o.push(("argc", int(body.arg_count as i64)));
        if promoted_ix.is_none() {
            if matches!(dk, DefKind::Closure | DefKind::InlineConst) {
                let parent = tcx.typeck_root_def_id(did);
                o.push(("root", s(self.path(parent))));
                o.push(("parent", s(self.path(tcx.parent(did)))));
                if let Some(ld) = did.as_local() {
                    if matches!(dk, DefKind::Closure) {
                        let caps: Vec<V> =
                            tcx.closure_captures(ld).iter().map(|c| s(c.to_string(tcx))).collect();
                        o.push(("captures", V::A(caps)));
                        if tcx.is_coroutine(did) {
                            o.push(("coroutine", V::B(true)));
                        }
                    }
                }
            }
            if matches!(dk, DefKind::Fn | DefKind::AssocFn) {
                o.push(("vis", s(format!("{:?}", tcx.visibility(did)))));
                if tcx.asyncness(did).is_async() {
                    o.push(("async", V::B(true)));
                }
                if let Some(imp) = tcx.impl_of_assoc(did) {
                    let st = tcx.type_of(imp).instantiate_identity().skip_norm_wip();
                    o.push(("self", s(with_no_trimmed_paths!(format!("{}", st)))));
                    if let Some(tr) = tcx.impl_opt_trait_ref(imp) {
                        let tr = tr.instantiate_identity().skip_norm_wip();
                        o.push(("trait", s(self.path(tr.def_id))));
                    }
                }
                o.push(("name", s(tcx.item_name(did).to_string())));
            }
        }
        // locals
        let mut names: HashMap<u32, String> = HashMap::new();
        let mut dbg = Vec::new();
        for vdi in body.var_debug_info.iter() {
            if let mir::VarDebugInfoContents::Place(p) = vdi.value {
                if p.projection.is_empty() {
                    names.entry(p.local.as_u32()).or_insert_with(|| vdi.name.to_string());
                } else {
                    dbg.push(V::O(vec![
                        ("n", s(vdi.name.to_string())),
                        ("pl", self.place(body, p)),
                    ]));
                }
            }
        }
        let mut locals = Vec::new();
        for (l, decl) in body.local_decls.iter_enumerated() {
            let mut lo = vec![("ty", self.ty(decl.ty))];
            if let Some(n) = names.get(&l.as_u32()) {
                lo.push(("n", s(n.clone())));
            }
            locals.push(V::O(lo));
        }
        o.push(("locals", V::A(locals)));
        if !dbg.is_empty() {
            o.push(("dbg", V::A(dbg)));
        }
        // blocks
        let mut blocks = Vec::new();
        for (_bb, data) in body.basic_blocks.iter_enumerated() {
            let mut stmts = Vec::new();
            for st in data.statements.iter() {
                match &st.kind {
                    StatementKind::Assign(b) => {
                        let (p, rv) = &**b;
                        stmts.push(V::O(vec![
                            ("lhs", self.place(body, *p)),
                            ("rv", self.rvalue(body, env, rv)),
                            ("sp", self.span(st.source_info.span)),
                        ]));
                    }
                    StatementKind::SetDiscriminant { place, variant_index } => {
                        stmts.push(V::O(vec![
                            ("setdiscr", self.place(body, **place)),
                            ("v", int(variant_index.as_u32())),
                            ("sp", self.span(st.source_info.span)),
                        ]));
                    }
                    StatementKind::Intrinsic(i) => {
                        stmts.push(V::O(vec![
                            ("intrinsic", s(format!("{:?}", i))),
                            ("sp", self.span(st.source_info.span)),
                        ]));
                    }
                    StatementKind::StorageDead(l) => {
                        stmts.push(V::O(vec![("dead", int(l.as_u32()))]));
                    }
                    _ => {}
                }
            }
            let term = data.terminator();
            let tsp = self.span(term.source_info.span);
            let t = match &term.kind {
                TerminatorKind::Goto { target } => {
                    V::O(vec![("k", s("goto")), ("t", int(target.as_u32()))])
                }
                TerminatorKind::SwitchInt { discr, targets } => {
                    let tg: Vec<V> = targets
                        .iter()
                        .map(|(v, bb)| V::A(vec![V::I(v as i128), int(bb.as_u32())]))
                        .collect();
                    V::O(vec![
                        ("k", s("switch")),
                        ("on", self.operand(body, env, discr)),
                        ("targets", V::A(tg)),
                        ("otherwise", int(targets.otherwise().as_u32())),
                        ("sp", tsp),
                    ])
                }
                TerminatorKind::UnwindResume => V::O(vec![("k", s("resume"))]),
                TerminatorKind::UnwindTerminate(_) => V::O(vec![("k", s("terminate"))]),
                TerminatorKind::Return => V::O(vec![("k", s("return")), ("sp", tsp)]),
                TerminatorKind::Unreachable => V::O(vec![("k", s("unreachable"))]),
                TerminatorKind::CoroutineDrop => V::O(vec![("k", s("coroutine_drop"))]),
                TerminatorKind::Drop { place, target, unwind, .. } => {
                    let pty = place.ty(body, tcx).ty;
                    V::O(vec![
                        ("k", s("drop")),
                        ("pl", self.place(body, *place)),
                        ("ty", self.ty(pty)),
                        ("t", int(target.as_u32())),
                        ("u", self.unwind(unwind)),
                        ("sp", tsp),
                    ])
                }
                TerminatorKind::Call { func, args, destination, target, unwind, fn_span, .. } => {
                    let fty = func.ty(body, tcx);
                    let (fv, inst) = self.callee(fty, env);
                    if let Some(i) = inst {
                        if !is_workspace_crate(tcx, i.def_id()) {
                            collect_ext.push(i);
                        }
                    }
                    let mut o2 = vec![("k", s("call")), ("fn", fv)];
                    if !matches!(fty.kind(), ty::FnDef(..)) {
                        o2.push(("fop", self.operand(body, env, func)));
                    }
                    let av: Vec<V> =
                        args.iter().map(|a| self.operand(body, env, &a.node)).collect();
                    o2.push(("args", V::A(av)));
                    o2.push(("dest", self.place(body, *destination)));
                    o2.push(("t", target.map(|t| int(t.as_u32())).unwrap_or(V::Null)));
                    o2.push(("u", self.unwind(unwind)));
                    o2.push(("sp", tsp));
                    o2.push(("fsp", self.span(*fn_span)));
                    V::O(o2)
                }
                TerminatorKind::TailCall { func, .. } => {
                    let fty = func.ty(body, tcx);
                    let (fv, _) = self.callee(fty, env);
                    V::O(vec![("k", s("tailcall")), ("fn", fv), ("sp", tsp)])
                }
                TerminatorKind::Assert { cond, expected, msg, target, unwind } => {
                    let (kind, ops): (String, Vec<V>) = match &**msg {
                        AssertKind::BoundsCheck { len, index } => (
                            "BoundsCheck".into(),
                            vec![self.operand(body, env, len), self.operand(body, env, index)],
                        ),
                        AssertKind::Overflow(op, a, b) => (
                            format!("Overflow:{:?}", op),
                            vec![self.operand(body, env, a), self.operand(body, env, b)],
                        ),
                        AssertKind::OverflowNeg(a) => {
                            ("OverflowNeg".into(), vec![self.operand(body, env, a)])
                        }
                        AssertKind::DivisionByZero(a) => {
                            ("DivisionByZero".into(), vec![self.operand(body, env, a)])
                        }
                        AssertKind::RemainderByZero(a) => {
                            ("RemainderByZero".into(), vec![self.operand(body, env, a)])
                        }
                        AssertKind::ResumedAfterReturn(_) => ("ResumedAfterReturn".into(), vec![]),
                        AssertKind::ResumedAfterPanic(_) => ("ResumedAfterPanic".into(), vec![]),
                        AssertKind::ResumedAfterDrop(_) => ("ResumedAfterDrop".into(), vec![]),
                        AssertKind::MisalignedPointerDereference { .. } => {
                            ("MisalignedPointerDereference".into(), vec![])
                        }
                        AssertKind::NullPointerDereference => {
                            ("NullPointerDereference".into(), vec![])
                        }
                        AssertKind::InvalidEnumConstruction(_) => {
                            ("InvalidEnumConstruction".into(), vec![])
                        }
                    };
                    V::O(vec![
                        ("k", s("assert")),
                        ("cond", self.operand(body, env, cond)),
                        ("expected", V::B(*expected)),
                        ("msg", s(kind)),
                        ("ops", V::A(ops)),
                        ("t", int(target.as_u32())),
                        ("u", self.unwind(unwind)),
                        ("sp", tsp),
                    ])
                }
                TerminatorKind::Yield { value, resume, drop, .. } => V::O(vec![
                    ("k", s("yield")),
                    ("v", self.operand(body, env, value)),
                    ("t", int(resume.as_u32())),
                    ("drop", drop.map(|d| int(d.as_u32())).unwrap_or(V::Null)),
                    ("sp", tsp),
                ]),
                TerminatorKind::FalseEdge { real_target, imaginary_target } => V::O(vec![
                    ("k", s("falseedge")),
                    ("t", int(real_target.as_u32())),
                    ("imag", int(imaginary_target.as_u32())),
                ]),
                TerminatorKind::FalseUnwind { real_target, unwind } => V::O(vec![
                    ("k", s("falseunwind")),
                    ("t", int(real_target.as_u32())),
                    ("u", self.unwind(unwind)),
                ]),
                TerminatorKind::InlineAsm { .. } => V::O(vec![("k", s("asm"))]),
            };
            blocks.push(V::O(vec![
                ("cleanup", if data.is_cleanup { V::B(true) } else { V::Null }),
                ("s", V::A(stmts)),
                ("t", t),
            ]));
        }
        o.push(("blocks", V::A(blocks)));
        V::O(o)
    }

    // --------------------------------------------------------------------------------------
    // external divergence summaries

    fn sink_name_for_never(path: &str) -> String {
        format!("never:{}", path)
    }

    fn ext_summary(
        &mut self,
        inst: Instance<'tcx>,
        env: TypingEnv<'tcx>,
        depth: u32,
    ) -> std::rc::Rc<Summary> {
        if let Some((d, sm)) = self.ext.get(&inst) {
            if *d >= depth {
                return sm.clone();
            }
        }
        let tcx = self.tcx;
        let mut sum = Summary::default();
        if self.ext_stack.contains(&inst) {
            return std::rc::Rc::new(sum);
        }
        let did = inst.def_id();
        let path = self.path(did);
        let body: Option<&'tcx Body<'tcx>> = match inst.def {
            InstanceKind::Item(d) => {
                if tcx.is_mir_available(d) && !tcx.is_foreign_item(d) {
                    // const fns only have ctfe MIR when not inlinable; optimized_mir is what
                    // `is_mir_available` promises for functions.
                    match tcx.def_kind(d) {
                        DefKind::Fn | DefKind::AssocFn | DefKind::Closure => {
                            Some(tcx.instance_mir(inst.def))
                        }
                        _ => None,
                    }
                } else {
                    None
                }
            }
            InstanceKind::Intrinsic(_) => {
                // intrinsics do not panic (abort/unreachable are UB or aborts, out of scope)
                sum.mir = true;
                let rc = std::rc::Rc::new(sum);
                self.ext.insert(inst, (u32::MAX, rc.clone()));
                return rc;
            }
            InstanceKind::Virtual(..) => {
                sum.sinks.insert(format!("virtual:{}", path), String::new());
                let rc = std::rc::Rc::new(sum);
                self.ext.insert(inst, (u32::MAX, rc.clone()));
                return rc;
            }
            InstanceKind::DropGlue(_, None) => {
                sum.mir = true;
                let rc = std::rc::Rc::new(sum);
                self.ext.insert(inst, (u32::MAX, rc.clone()));
                return rc;
            }
            _ => Some(tcx.instance_mir(inst.def)),
        };
        let Some(body) = body else {
            sum.sinks.insert(format!("nomir:{}", path), String::new());
            let rc = std::rc::Rc::new(sum);
            self.ext.insert(inst, (u32::MAX, rc.clone()));
            return rc;
        };
        sum.mir = true;
        self.ext_bodies_walked += 1;
        self.ext_stack.push(inst);
        // block reachability with RuntimeChecks(ub|contract) = false
        let n = body.basic_blocks.len();
        let mut reach = vec![false; n];
        let mut work = vec![mir::START_BLOCK];
        reach[0] = true;
        while let Some(bb) = work.pop() {
            let data = &body.basic_blocks[bb];
            let term = data.terminator();
            let mut succs: Vec<BasicBlock> = Vec::new();
            match &term.kind {
                TerminatorKind::SwitchInt { discr, targets } => {
                    let mut known: Option<u128> = None;
                    match discr {
                        Operand::RuntimeChecks(rc) => {
                            if !matches!(rc, RuntimeChecks::OverflowChecks) {
                                known = Some(0)
                            }
                        }
                        Operand::Copy(p) | Operand::Move(p) if p.projection.is_empty() => {
                            for st in data.statements.iter().rev() {
                                if let StatementKind::Assign(b) = &st.kind {
                                    if b.0 == *p {
                                        if let Rvalue::Use(Operand::RuntimeChecks(rc), _) = &b.1 {
                                            if !matches!(rc, RuntimeChecks::OverflowChecks) {
                                                known = Some(0);
                                            }
                                        }
                                        break;
                                    }
                                }
                            }
                        }
                        Operand::Constant(c) => {
                            if let Some(si) = c.const_.try_to_scalar_int() {
                                known = Some(si.to_bits(si.size()));
                            }
                        }
                        _ => {}
                    }
                    match known {
                        Some(v) => succs.push(targets.target_for_value(v)),
                        None => succs.extend(targets.all_targets().iter().copied()),
                    }
                }
                _ => {
                    // successors without unwind edges
                    match &term.kind {
                        TerminatorKind::Goto { target } => succs.push(*target),
                        TerminatorKind::Drop { target, .. } => succs.push(*target),
                        TerminatorKind::Call { target, .. } => succs.extend(target.iter().copied()),
                        TerminatorKind::Assert { target, .. } => succs.push(*target),
                        TerminatorKind::Yield { resume, .. } => succs.push(*resume),
                        TerminatorKind::FalseEdge { real_target, .. } => succs.push(*real_target),
                        TerminatorKind::FalseUnwind { real_target, .. } => succs.push(*real_target),
                        TerminatorKind::InlineAsm { targets, .. } => {
                            succs.extend(targets.iter().copied())
                        }
                        _ => {}
                    }
                }
            }
            for sx in succs {
                if !reach[sx.as_usize()] {
                    reach[sx.as_usize()] = true;
                    work.push(sx);
                }
            }
        }
        for (bb, data) in body.basic_blocks.iter_enumerated() {
            if !reach[bb.as_usize()] || data.is_cleanup {
                continue;
            }
            let term = data.terminator();
            match &term.kind {
                TerminatorKind::Assert { msg, .. } => match &**msg {
                    AssertKind::BoundsCheck { .. } => {
                        sum.sinks.insert("assert:BoundsCheck".into(), path.clone());
                    }
                    AssertKind::DivisionByZero(_) => {
                        sum.sinks.insert("assert:DivisionByZero".into(), path.clone());
                    }
                    AssertKind::RemainderByZero(_) => {
                        sum.sinks.insert("assert:RemainderByZero".into(), path.clone());
                    }
                    _ => {}
                },
                TerminatorKind::Call { func, .. } | TerminatorKind::TailCall { func, .. } => {
                    let fty = func.ty(body, tcx);
                    let fty = match inst.try_instantiate_mir_and_normalize_erasing_regions(
                        tcx,
                        env,
                        EarlyBinder::bind(fty),
                    ) {
                        Ok(t) => t,
                        Err(_) => {
                            sum.sinks.insert(format!("unnormalized:{}", path), path.clone());
                            continue;
                        }
                    };
                    let ty::FnDef(cdid, cargs) = fty.kind() else {
                        // fn pointer / closure object call: unknown target
                        sum.sinks.insert("indirect".into(), path.clone());
                        continue;
                    };
                    let cpath = self.path(*cdid);
                    let never =
                        tcx.fn_sig(*cdid).skip_binder().output().skip_binder().is_never();
                    if never {
                        sum.sinks.insert(Self::sink_name_for_never(&cpath), path.clone());
                        continue;
                    }
                    let cinst = match Instance::try_resolve(tcx, env, *cdid, cargs) {
                        Ok(Some(i)) => i,
                        _ => {
                            if is_workspace_crate(tcx, *cdid) {
                                sum.locals.insert(cpath, ());
                            } else {
                                sum.sinks.insert(format!("unresolved:{}", cpath), path.clone());
                            }
                            continue;
                        }
                    };
                    if is_workspace_crate(tcx, cinst.def_id()) {
                        sum.locals.insert(self.path(cinst.def_id()), ());
                        continue;
                    }
                    if depth == 0 {
                        continue;
                    }
                    let sub = self.ext_summary(cinst, env, depth - 1);
                    for (k, via) in sub.sinks.iter() {
                        if !sum.sinks.contains_key(k) {
                            let chain = if via.is_empty() {
                                path.clone()
                            } else {
                                format!("{} > {}", path, via)
                            };
                            sum.sinks.insert(k.clone(), chain);
                        }
                    }
                    for k in sub.locals.keys() {
                        sum.locals.insert(k.clone(), ());
                    }
                }
                _ => {}
            }
        }
        self.ext_stack.pop();
        let rc = std::rc::Rc::new(sum);
        self.ext.insert(inst, (depth, rc.clone()));
        rc
    }
}

// ------------------------------------------------------------------------------------------

struct Cb;

impl Callbacks for Cb {
    fn config(&mut self, config: &mut Config) {
        config.override_queries = Some(|_sess, providers| {
            providers.queries.mir_borrowck = my_borrowck;
        });
    }

    fn after_analysis<'tcx>(&mut self, _c: &Compiler, tcx: TyCtxt<'tcx>) -> Compilation {
        let name = tcx.crate_name(LOCAL_CRATE).to_string();
        if !wanted_crate(&name) {
            return Compilation::Continue;
        }
        let Ok(dir) = std::env::var("FACTS_DIR") else {
            return Compilation::Continue;
        };
        // only the library target (the bin target of rumqttd has the same crate name)
        let is_lib = tcx
            .crate_types()
            .iter()
            .any(|t| matches!(t, rustc_session::config::CrateType::Rlib | rustc_session::config::CrateType::Dylib));
        if !is_lib {
            return Compilation::Continue;
        }
        let mut cx = Cx {
            tcx,
            types: Vec::new(),
            type_ix: HashMap::new(),
            spans: Vec::new(),
            span_ix: HashMap::new(),
            ext: HashMap::new(),
            ext_out: BTreeMap::new(),
            ext_stack: Vec::new(),
            ext_bodies_walked: 0,
        };
        let mut bodies: Vec<V> = Vec::new();
        let mut ext_calls: Vec<(Instance<'tcx>, TypingEnv<'tcx>)> = Vec::new();

        // make sure every body has been borrow-checked (so that CAPTURED is complete)
        for ld in tcx.hir_body_owners() {
            let dk = tcx.def_kind(ld);
            if matches!(dk, DefKind::Fn | DefKind::AssocFn | DefKind::Closure) {
                let root = tcx.typeck_root_def_id(ld.to_def_id()).expect_local();
                let _ = tcx.mir_borrowck(root);
            }
        }
        let captured: Vec<Captured> = CAPTURED.with(|c| std::mem::take(&mut *c.borrow_mut()));
        let mut a_count = 0usize;
        for cap in captured.iter() {
            let dk = tcx.def_kind(cap.def);
            if !matches!(dk, DefKind::Fn | DefKind::AssocFn | DefKind::Closure) {
                continue;
            }
            // SAFETY: see capture_one
            let body: &Body<'tcx> = unsafe { std::mem::transmute(&cap.body) };
            let did = cap.def.to_def_id();
            let env = TypingEnv::post_analysis(tcx, did);
            let mut ext = Vec::new();
            bodies.push(cx.body(did, body, "A", None, &mut ext));
            for (i, pb) in cap.promoted.iter().enumerate() {
                let pb: &Body<'tcx> = unsafe { std::mem::transmute(pb) };
                bodies.push(cx.body(did, pb, "A", Some(i), &mut ext));
            }
            for e in ext {
                ext_calls.push((e, env));
            }
            a_count += 1;
        }
        let mut r_count = 0usize;
        for ld in tcx.hir_body_owners() {
            let dk = tcx.def_kind(ld);
            if !matches!(dk, DefKind::Fn | DefKind::AssocFn | DefKind::Closure) {
                continue;
            }
            let did = ld.to_def_id();
            let env = TypingEnv::post_analysis(tcx, did);
            let body = tcx.optimized_mir(did);
            let mut ext = Vec::new();
            bodies.push(cx.body(did, body, "R", None, &mut ext));
            for e in ext {
                ext_calls.push((e, env));
            }
            r_count += 1;
        }

        // external summaries
        let mut seen: HashMap<Instance<'tcx>, ()> = HashMap::new();
        for (inst, env) in ext_calls {
            if seen.insert(inst, ()).is_some() {
                continue;
            }
            let key = with_no_trimmed_paths!(format!("{}", inst));
            let sm = cx.ext_summary(inst, env, EXT_DEPTH);
            let mut sinks = BTreeMap::new();
            for (k, via) in sm.sinks.iter() {
                sinks.insert(k.clone(), s(via.clone()));
            }
            let locals: Vec<V> = sm.locals.keys().map(|k| s(k.clone())).collect();
            cx.ext_out.insert(
                key,
                V::O(vec![
                    ("path", s(cx.path(inst.def_id()))),
                    ("mir", V::B(sm.mir)),
                    ("sinks", V::M(sinks)),
                    ("locals", V::A(locals)),
                ]),
            );
        }

        // ADTs
        let mut adts = Vec::new();
        for ld in tcx.hir_crate_items(()).definitions() {
            let dk = tcx.def_kind(ld);
            if !matches!(dk, DefKind::Struct | DefKind::Enum | DefKind::Union) {
                continue;
            }
            let def = tcx.adt_def(ld.to_def_id());
            let mut variants = Vec::new();
            let discrs: HashMap<u32, u128> = if def.is_enum() {
                def.discriminants(tcx).map(|(v, d)| (v.as_u32(), d.val)).collect()
            } else {
                HashMap::new()
            };
            for (vi, vd) in def.variants().iter_enumerated() {
                let mut fields = Vec::new();
                for f in vd.fields.iter() {
                    let fty = tcx.type_of(f.did).instantiate_identity().skip_norm_wip();
                    fields.push(V::O(vec![
                        ("n", s(f.name.to_string())),
                        ("ty", s(with_no_trimmed_paths!(format!("{}", fty)))),
                    ]));
                }
                variants.push(V::O(vec![
                    ("n", s(vd.name.to_string())),
                    (
                        "discr",
                        discrs.get(&vi.as_u32()).map(|d| V::I(*d as i128)).unwrap_or(V::Null),
                    ),
                    ("fields", V::A(fields)),
                ]));
            }
            adts.push(V::O(vec![
                ("id", s(cx.path(ld.to_def_id()))),
                ("kind", s(format!("{:?}", dk))),
                ("sp", cx.span(tcx.def_span(ld))),
                ("variants", V::A(variants)),
            ]));
        }

        // trait impls
        let mut impls = Vec::new();
        for (tr, imps) in tcx.all_local_trait_impls(()).iter() {
            for imp in imps.iter() {
                let st = tcx.type_of(imp.to_def_id()).instantiate_identity().skip_norm_wip();
                let mut methods = Vec::new();
                for item in tcx.associated_items(imp.to_def_id()).in_definition_order() {
                    if item.is_fn() {
                        methods.push(V::O(vec![
                            ("n", s(item.name().to_string())),
                            ("id", s(cx.path(item.def_id))),
                        ]));
                    }
                }
                impls.push(V::O(vec![
                    ("trait", s(cx.path(*tr))),
                    ("self", s(with_no_trimmed_paths!(format!("{}", st)))),
                    ("methods", V::A(methods)),
                ]));
            }
        }

        // constants (simple integer consts of the crate)
        let mut consts = Vec::new();
        for ld in tcx.hir_crate_items(()).definitions() {
            let dk = tcx.def_kind(ld);
            if !matches!(dk, DefKind::Const { .. } | DefKind::AssocConst { .. }) {
                continue;
            }
            let did = ld.to_def_id();
            if tcx.generics_of(did).requires_monomorphization(tcx) {
                continue;
            }
            let cty = tcx.type_of(did).instantiate_identity().skip_norm_wip();
            if !matches!(cty.kind(), ty::Bool | ty::Int(_) | ty::Uint(_) | ty::Char) {
                continue;
            }
            if let Ok(val) = tcx.const_eval_poly(did) {
                if let Some(si) = val.try_to_scalar_int() {
                    let bits = si.to_bits(si.size());
                    consts.push(V::O(vec![
                        ("id", s(cx.path(did))),
                        ("ty", s(format!("{}", cty))),
                        ("v", V::I(bits as i128)),
                    ]));
                }
            }
        }

        let types = std::mem::take(&mut cx.types);
        let spans = std::mem::take(&mut cx.spans);
        let ext_out = std::mem::take(&mut cx.ext_out);
        let top = V::O(vec![
            ("crate", s(name.clone())),
            ("a_bodies", int(a_count as i64)),
            ("r_bodies", int(r_count as i64)),
            ("ext_bodies_walked", int(cx.ext_bodies_walked as i64)),
            ("features", s(std::env::var("FACTS_TAG").unwrap_or_default())),
            ("types", V::A(types.into_iter().map(s).collect())),
            ("spans", V::A(spans)),
            ("adts", V::A(adts)),
            ("impls", V::A(impls)),
            ("consts", V::A(consts)),
            ("ext", V::M(ext_out)),
            ("bodies", V::A(bodies)),
        ]);
        let mut out = String::with_capacity(64 << 20);
        top.write(&mut out);
        let path = format!("{}/{}.json", dir, name);
        let tmp = format!("{}.tmp.{}", path, std::process::id());
        std::fs::write(&tmp, out).expect("write facts");
        std::fs::rename(&tmp, &path).expect("rename facts");
        Compilation::Continue
    }
}

fn main() {
    let mut args: Vec<String> = std::env::args().collect();
    // RUSTC_WORKSPACE_WRAPPER passes the real rustc as argv[1]
    if args.len() > 1 && (args[1].ends_with("rustc") || args[1].contains("/rustc")) {
        args.remove(1);
    }
    rustc_driver::run_compiler(&args, &mut Cb);
}
