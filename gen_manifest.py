#!/usr/bin/env python3
"""Regenerates MANIFEST.json from analysis/rules/*.py (claimed) and rules/not_applicable.json."""
import importlib, json, os, sys
HERE = os.path.dirname(os.path.abspath(__file__))
sys.path.insert(0, HERE)
props = [json.loads(l) for l in open(os.path.join(HERE, "properties.jsonl"))]
na = json.load(open(os.path.join(HERE, "rules", "not_applicable.json")))
checks = []
not_app = []
for p in props:
    pid = p["id"]
    modpath = os.path.join(HERE, "analysis", "rules", pid.lower() + ".py")
    if os.path.exists(modpath) and pid not in na:
        mod = importlib.import_module("analysis.rules." + pid.lower())
        checks.append({
            "property_id": pid,
            "quick_cmd": "./check %s --tier quick" % pid,
            "thorough_cmd": "./check %s --tier thorough" % pid,
            "evidence_file": "/verif/evidence/%s.json" % pid,
            "replay_cmd_template": "./check %s --explain {path}" % pid,
            "engine": "mir-rules",
            "level_claimed": {
                "category": "other",
                "text": mod.LEVEL_TEXT,
                "design_ref": "DESIGN.md §4 " + pid,
            },
            "level_note": mod.LEVEL_NOTE,
            "technique": mod.TECHNIQUE,
        })
    else:
        not_app.append({"property_id": pid, "reason": na.get(pid, "no sound static rule built yet for this property; see DESIGN.md §4 %s" % pid)})
m = {
    "version": 1,
    "setup_cmd": "./setup.sh",
    "hooks": {
        "guard": "rumqtt_verif",
        "enable": "none needed: static analysis reads the compiler's MIR of the unmodified sources (no instrumentation commits)",
        "baseline_off_cmd": "cd /repo && cargo test --workspace --no-fail-fast --offline",
        "source_commits": [],
        "add_only": True,
    },
    "engines": [{
        "name": "mir-rules",
        "path": "/verif/driver + /verif/analysis",
        "serves_properties": [c["property_id"] for c in checks],
        "kind_free_text": "static analysis: rustc_private fact extractor (pre-borrowck MIR + optimized MIR + dependency divergence summaries) and a python rule library (dominance/path rules, who-may-call, handler tables, provenance, may-panic inventory with discharges, sibling comparison)",
    }],
    "checks": checks,
    "not_applicable": not_app,
    "notes": "All checks are static: they rebuild MIR facts from /repo's working tree with the nightly toolchain (cargo +nightly check through a RUSTC_WORKSPACE_WRAPPER driver) and never execute rumqtt code. Each claimed property is decided only in the named structural clauses (see level_claimed.text and DESIGN.md §4); the remaining clauses are listed there as not decided. fix: commits in /repo are recorded in /verif/known_findings.json.",
}
json.dump(m, open(os.path.join(HERE, "MANIFEST.json"), "w"), indent=1)
print("claimed:", [c["property_id"] for c in checks])
print("n/a:", [n["property_id"] for n in not_app])
