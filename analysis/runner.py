"""Check runner: loads facts for the requested tier, runs the rule module of one property,
applies the known-findings file, writes evidence, prints VIOLATION / KNOWN-FINDING lines."""
import importlib, json, os, sys, time, traceback

from . import extract
from .facts import load_program, AnchorMissing
from .core import CallGraph

VERIF = extract.VERIF
TIER_CONFIGS = {"quick": ["default"], "thorough": ["default", "release", "features"]}


class Ctx:
    def __init__(self, prop, tier, config, progs, facts_sha):
        self.prop = prop
        self.tier = tier
        self.config = config
        self.progs = progs
        self.facts_sha = facts_sha
        self._cg = {}
        self.instances = []      # dicts: rule, key, status, site, detail
        self.rule_counts = {}
        self.notes = []
        self.stats = {}

    def cg(self, crate):
        if crate not in self._cg:
            self._cg[crate] = CallGraph(self.progs[crate])
        return self._cg[crate]

    # ---- recording
    def _rec(self, status, rule, fn, instance, site, what, extra):
        key = "%s|%s|%s" % (rule, fn, instance)
        d = {"rule": rule, "key": key, "status": status, "fn": fn, "instance": instance,
             "config": self.config}
        if site:
            d["site"] = site
        if what:
            d["what"] = what
        if extra:
            d.update(extra)
        self.instances.append(d)
        return d

    def ok(self, rule, fn, instance, site=None, what=None, trivial=False, **extra):
        if trivial:
            extra["trivial"] = True
        return self._rec("ok", rule, fn, instance, site, what, extra)

    def violation(self, rule, fn, instance, what, site=None, **extra):
        return self._rec("violation", rule, fn, instance, site, what, extra)

    def anchor_missing(self, rule, what):
        return self._rec("violation", rule, "-", "ANCHOR-MISSING:" + what, None,
                         "ANCHOR-MISSING: " + what + " (rule fails closed)", {})

    def vacuous(self, rule, why):
        self.notes.append("rule %s vacuous in config %s: %s" % (rule, self.config, why))

    def floor(self, rule, what, count, minimum):
        """fail closed if a rule matched fewer instances than confirmed by hand"""
        if count < minimum:
            self.anchor_missing(rule, "%s: matched %d instance(s), hand-confirmed floor is %d" % (what, count, minimum))

    def guarded(self, rule, fn, *args, **kw):
        """run one rule; a missing anchor or an engine error fails that rule closed without
        hiding the results of the others"""
        try:
            return fn(*args, **kw)
        except AnchorMissing as e:
            self.anchor_missing(rule, str(e))
        except Exception as e:
            self.anchor_missing(rule, "engine error: %s\n%s" % (e, traceback.format_exc()[-1200:]))

    def note(self, s):
        self.notes.append(s)


def load_known():
    p = os.path.join(VERIF, "known_findings.json")
    try:
        with open(p) as f:
            return json.load(f)
    except FileNotFoundError:
        return []


def run_check(prop, tier="quick", out=sys.stdout):
    t0 = time.time()
    prop = prop.upper()
    seed = int(os.environ.get("VERIF_SEED", "0") or 0)
    mod = importlib.import_module("analysis.rules.%s" % prop.lower())
    configs = TIER_CONFIGS[tier]
    all_instances = []
    notes = []
    stats = {}
    shas = {}
    assumptions = list(getattr(mod, "ASSUMPTIONS", []))
    for config in configs:
        try:
            d, sh = extract.ensure_facts(config)
        except extract.BuildFailed as e:
            out.write("ERROR: %s\n" % e)
            out.write("BUILD-FAILED property=%s config=%s: /repo's working tree does not compile under the fact extractor; no verdict\n" % (prop, config))
            return 2
        shas[config] = sh
        crates = getattr(mod, "CRATES", extract.CRATES)
        progs = {c: load_program(os.path.join(d, c + ".json")) for c in crates}
        ctx = Ctx(prop, tier, config, progs, sh)
        try:
            mod.run(ctx)
        except AnchorMissing as e:
            ctx.anchor_missing("R-%s-anchor" % prop, str(e))
        except Exception as e:  # an engine crash must never look like a pass
            tb = traceback.format_exc()
            ctx.anchor_missing("R-%s-engine" % prop, "engine error: %s\n%s" % (e, tb[-1500:]))
        if tier == "thorough" and hasattr(mod, "run_thorough") and config == "default":
            try:
                mod.run_thorough(ctx)
            except AnchorMissing as e:
                ctx.anchor_missing("R-%s-anchor" % prop, str(e))
            except Exception as e:
                tb = traceback.format_exc()
                ctx.anchor_missing("R-%s-engine" % prop, "engine error (thorough): %s\n%s" % (e, tb[-1500:]))
        all_instances.extend(ctx.instances)
        if os.environ.get("VERIF_LIST"):
            # debugging aid: list every non-trivial obligation that was evaluated
            for d in ctx.instances:
                if not d.get("trivial"):
                    out.write("  [%s] %s %s\n" % (d["status"], d["key"], d.get("site", "")))
        notes.extend(ctx.notes)
        for k, v in ctx.stats.items():
            stats["%s/%s" % (config, k)] = v
        for c, p in progs.items():
            stats["%s/%s/functions" % (config, c)] = len(p.A)
            stats["%s/%s/ext_summaries" % (config, c)] = len(p.ext)
        for c, g in ctx._cg.items():
            stats["%s/%s/call_graph_edges" % (config, c)] = g.n_edges

    # ---- known findings
    known = [k for k in load_known() if k.get("property") == prop]
    open_keys = {k["key"]: k for k in known if k.get("status") == "open"}
    violations = {}
    known_hit = {}
    for inst in all_instances:
        if inst["status"] != "violation":
            continue
        if inst["key"] in open_keys:
            inst["status"] = "known"
            known_hit.setdefault(inst["key"], inst)
        else:
            violations.setdefault(inst["key"], inst)

    for key, inst in known_hit.items():
        out.write("KNOWN-FINDING: property=%s %s %s\n" % (prop, key, open_keys[key].get("what", inst.get("what", ""))))
    stale = [k for k in open_keys if k not in known_hit]
    for k in stale:
        notes.append("known finding no longer reported (stale entry): %s" % k)

    # ---- evidence
    by_rule = {}
    for inst in all_instances:
        r = by_rule.setdefault(inst["rule"], {"instances": 0, "ok": 0, "violations": 0, "known": 0})
        r["instances"] += 1
        r[{"ok": "ok", "violation": "violations", "known": "known"}[inst["status"]]] += 1
    distinct = set()
    for inst in all_instances:
        if inst.get("trivial"):
            continue
        distinct.add((inst["rule"], inst["fn"], inst["instance"]))
    samples = []
    per_rule_seen = {}
    for inst in all_instances:
        n = per_rule_seen.get(inst["rule"], 0)
        if n < 4 and not inst.get("trivial"):
            per_rule_seen[inst["rule"]] = n + 1
            samples.append({k: v for k, v in inst.items() if k in ("rule", "fn", "instance", "site", "status", "what", "discharge", "config", "path")})
    evdir = os.environ.get("VERIF_EVIDENCE_DIR") or os.path.join(VERIF, "evidence")
    report_path = os.path.join(evdir, "%s.report.json" % prop)
    ev = {
        "property_id": prop,
        "tier": tier,
        "seed": seed,
        "level": "other",
        "coverage": {
            "explanation": getattr(mod, "EXPLANATION", ""),
            "evaluations": len(all_instances),
            "distinct_nontrivial": len(distinct),
            "rule": "rule instances = (rule, function, construct) triples evaluated on the MIR facts of /repo's working tree; "
                    "trivial = constant-dead or foreign-macro sites. Per rule: " + json.dumps(by_rule, sort_keys=True),
            "samples": samples[:40],
            "rules": by_rule,
            "configs": configs,
            "facts_sha": shas,
            "stats": stats,
            "notes": notes,
            "known_findings_reported": sorted(known_hit),
            "exhaustive": True,
        },
        "assumptions": assumptions,
        "wall_s": round(time.time() - t0, 2),
        "violations": len(violations),
    }
    os.makedirs(evdir, exist_ok=True)
    with open(os.path.join(evdir, "%s.json" % prop), "w") as f:
        json.dump(ev, f, indent=1, sort_keys=True)
    if violations:
        with open(report_path, "w") as f:
            json.dump({"property": prop, "violations": list(violations.values())}, f, indent=1)
        for key, inst in violations.items():
            out.write("  violation %s\n      at %s: %s\n" % (key, inst.get("site", "?"), inst.get("what", "")))
            if inst.get("path"):
                out.write("      path: %s\n" % " -> ".join(inst["path"][:14]))
        out.write("VIOLATION property=%s replay=%s\n" % (prop, report_path))
        return 1
    else:
        try:
            os.remove(report_path)
        except OSError:
            pass
    out.write("OK property=%s tier=%s instances=%d distinct=%d known=%d wall=%.1fs\n" % (
        prop, tier, len(all_instances), len(distinct), len(known_hit), time.time() - t0))
    return 0


def explain(path, out=sys.stdout):
    with open(path) as f:
        rep = json.load(f)
    for v in rep["violations"]:
        out.write("%s\n  at %s\n  %s\n" % (v["key"], v.get("site"), v.get("what")))
        if v.get("path"):
            out.write("  path: %s\n" % " -> ".join(v["path"]))
    return 0
