"""Self-test of the rules: each mutant is a small edit of a scratch worktree of /repo that still
compiles and must make exactly the named rule report a violation; benign twins must stay silent.

  ./check selftest [name-regex] [--keep]

Mutants live in /verif/selftest/mutants.json as exact-string edits (file, old, new) so they do
not depend on line numbers.  The scratch worktree is created under /tmp and removed afterwards.
This is a development aid, not part of any property's check command.
"""
import json, os, re, shutil, subprocess, sys, tempfile, time

HERE = os.path.dirname(os.path.dirname(os.path.abspath(__file__)))


def sh(cmd, **kw):
    return subprocess.run(cmd, shell=True, stdout=subprocess.PIPE, stderr=subprocess.STDOUT, text=True, **kw)


def main(argv):
    pat = None
    keep = "--keep" in argv
    for a in argv:
        if not a.startswith("--"):
            pat = re.compile(a)
    with open(os.path.join(HERE, "selftest", "mutants.json")) as f:
        mutants = json.load(f)
    wt = "/tmp/verif-selftest-wt"
    evd = "/tmp/verif-selftest-evidence"
    # one run at a time: two runs would edit the same scratch worktree under each other (and the fact cache, keyed by
    # source hash, would be filled with facts of the other run's mutant)
    import fcntl
    lock = open("/tmp/verif-selftest.lock", "w")
    fcntl.flock(lock, fcntl.LOCK_EX)
    sh("git -C /repo worktree remove --force %s" % wt)
    shutil.rmtree(wt, ignore_errors=True)
    r = sh("git -C /repo worktree add --detach %s HEAD" % wt)
    if r.returncode != 0:
        print(r.stdout)
        return 2
    os.makedirs(evd, exist_ok=True)
    results = []
    try:
        for m in mutants:
            if pat and not pat.search(m["name"]):
                continue
            sh("git -C %s checkout -- ." % wt)
            ok_apply = True
            for e in m["edits"]:
                p = os.path.join(wt, e["file"])
                src = open(p).read()
                if src.count(e["old"]) != e.get("count", 1):
                    print("MUTANT %s: edit anchor found %d times in %s (expected %d)" % (m["name"], src.count(e["old"]), e["file"], e.get("count", 1)))
                    ok_apply = False
                    break
                open(p, "w").write(src.replace(e["old"], e["new"]))
            if not ok_apply:
                results.append((m["name"], "STALE-MUTANT"))
                continue
            t0 = time.time()
            env = dict(os.environ, VERIF_REPO=wt, VERIF_EVIDENCE_DIR=evd)
            r = subprocess.run([os.path.join(HERE, "check"), m["property"], "--tier", "quick"], env=env, stdout=subprocess.PIPE, stderr=subprocess.STDOUT, text=True)
            out = r.stdout
            keys = re.findall(r"^  violation (.*)$", out, re.M)
            expect = m.get("expect")
            if "BUILD-FAILED" in out:
                verdict = "DOES-NOT-COMPILE"
            elif expect is None:
                verdict = "ok (silent)" if r.returncode == 0 else "FALSE-ALARM: " + "; ".join(keys)[:300]
            else:
                hit = [k for k in keys if re.search(expect, k)]
                other = [k for k in keys if not re.search(expect, k) and not re.search(m.get("also_ok", "$^"), k)]
                if hit and r.returncode == 1:
                    verdict = "ok (fires: %s)" % hit[0][:140]
                    if other:
                        verdict += " [+%d other: %s]" % (len(other), other[0][:100])
                else:
                    verdict = "MISSED (exit %d; violations: %s)" % (r.returncode, "; ".join(keys)[:300])
            results.append((m["name"], verdict))
            print("%-44s %-5s %5.1fs  %s" % (m["name"], m["property"], time.time() - t0, verdict), flush=True)
    finally:
        if not keep:
            sh("git -C /repo worktree remove --force %s" % wt)
            shutil.rmtree(wt, ignore_errors=True)
            shutil.rmtree(evd, ignore_errors=True)
    bad = [r for r in results if not r[1].startswith("ok")]
    print("\n%d mutants, %d not ok" % (len(results), len(bad)))
    return 1 if bad else 0
