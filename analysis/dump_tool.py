import sys; sys.path.insert(0,'/verif')
from analysis.facts import *
p=load_program('/verif/.cache/facts/default/%s.json'%sys.argv[1])
view=sys.argv[3] if len(sys.argv)>3 else 'A'
for b in p.find(sys.argv[2], view): dump_body(b, sys.stdout)
