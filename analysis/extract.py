"""Fact extraction: runs the rustc_private driver over /repo's current working tree.

Facts are cached under /verif/.cache/facts/<config>/<source-hash>/ and are rebuilt whenever
the hash of /repo's sources (or of the driver) changes.  The cargo target directory with the
compiled dependencies lives in /verif/.cache/target-<config>.
"""
import fcntl, hashlib, os, shutil, subprocess, sys, time

VERIF = os.path.dirname(os.path.dirname(os.path.abspath(__file__)))
REPO = os.environ.get("VERIF_REPO", "/repo")
CACHE = os.path.join(VERIF, ".cache")
DRIVER_DIR = os.path.join(VERIF, "driver")
DRIVER_BIN = os.path.join(DRIVER_DIR, "target", "debug", "facts-driver")

CONFIGS = {
    # name: (extra rustflags, cargo feature args, target dir suffix)
    "default": ("", [], "default"),
    "release": ("-C debug-assertions=off -C overflow-checks=off", [], "release"),
    "features": ("", ["--features", "rumqttd/validate-tenant-prefix,rumqttd/allow-duplicate-clientid"], "default"),
}

CRATES = ("rumqttc", "rumqttd")


class BuildFailed(Exception):
    pass


def _hash_tree(h, root, rel):
    base = os.path.join(root, rel)
    if os.path.isfile(base):
        h.update(rel.encode()); h.update(b"\0")
        with open(base, "rb") as f:
            h.update(f.read())
        return
    for dirpath, dirnames, filenames in os.walk(base):
        dirnames[:] = sorted(d for d in dirnames if d not in ("target", ".git"))
        for fn in sorted(filenames):
            p = os.path.join(dirpath, fn)
            h.update(os.path.relpath(p, root).encode()); h.update(b"\0")
            try:
                with open(p, "rb") as f:
                    h.update(f.read())
            except OSError:
                pass


def source_hash():
    h = hashlib.sha256()
    for rel in ("Cargo.toml", "Cargo.lock", "rumqttc", "rumqttd"):
        _hash_tree(h, REPO, rel)
    _hash_tree(h, DRIVER_DIR, "src")
    return h.hexdigest()[:20]


def sysroot():
    return subprocess.check_output(["rustc", "+nightly", "--print", "sysroot"], text=True).strip()


def build_driver(log=sys.stderr):
    src_m = os.path.getmtime(os.path.join(DRIVER_DIR, "src", "main.rs"))
    if os.path.exists(DRIVER_BIN) and os.path.getmtime(DRIVER_BIN) >= src_m:
        return
    env = dict(os.environ, CARGO_NET_OFFLINE="true")
    r = subprocess.run(["cargo", "build", "--offline"], cwd=DRIVER_DIR, env=env,
                       stdout=subprocess.PIPE, stderr=subprocess.STDOUT, text=True)
    if r.returncode != 0:
        log.write(r.stdout)
        raise BuildFailed("driver build failed")


def facts_dir(config, sh):
    return os.path.join(CACHE, "facts", config, sh)


def ensure_facts(config="default", log=sys.stderr):
    """Returns (dir, source_hash). Extracts under an exclusive lock if not cached."""
    os.makedirs(CACHE, exist_ok=True)
    sh = source_hash()
    d = facts_dir(config, sh)
    if all(os.path.exists(os.path.join(d, c + ".json")) for c in CRATES):
        return d, sh
    lock_path = os.path.join(CACHE, "lock")
    with open(lock_path, "w") as lf:
        fcntl.flock(lf, fcntl.LOCK_EX)
        try:
            if all(os.path.exists(os.path.join(d, c + ".json")) for c in CRATES):
                return d, sh
            build_driver(log)
            _extract(config, d, log)
            # drop stale fact dirs of this config (keep disk use bounded)
            parent = os.path.dirname(d)
            others = [o for o in os.listdir(parent) if o != sh and not o.endswith(".tmp")]
            others.sort(key=lambda o: os.path.getmtime(os.path.join(parent, o)), reverse=True)
            for other in others[5:]:
                shutil.rmtree(os.path.join(parent, other), ignore_errors=True)
        finally:
            fcntl.flock(lf, fcntl.LOCK_UN)
    return d, sh


def _extract(config, out_dir, log):
    flags, feat, tsuffix = CONFIGS[config]
    target = os.path.join(CACHE, "target-" + tsuffix)
    tmp = out_dir + ".tmp.%d" % os.getpid()
    shutil.rmtree(tmp, ignore_errors=True)
    os.makedirs(tmp)
    # cargo must not replay a cached run of the workspace members
    fp = os.path.join(target, "debug", ".fingerprint")
    if os.path.isdir(fp):
        for e in os.listdir(fp):
            if e.startswith("rumqttc-") or e.startswith("rumqttd-"):
                shutil.rmtree(os.path.join(fp, e), ignore_errors=True)
    env = dict(os.environ)
    env.update({
        "CARGO_NET_OFFLINE": "true",
        "CARGO_INCREMENTAL": "0",
        "LD_LIBRARY_PATH": sysroot() + "/lib",
        "RUSTFLAGS": ("-Zmir-opt-level=0 -Zalways-encode-mir -Awarnings " + flags).strip(),
        "RUSTC_WORKSPACE_WRAPPER": DRIVER_BIN,
        "FACTS_DIR": tmp,
        "FACTS_TAG": config,
        "CARGO_TARGET_DIR": target,
    })
    env.pop("RUSTC_WRAPPER", None)
    cmd = ["cargo", "+nightly", "check", "--offline", "-p", "rumqttc", "-p", "rumqttd", "--lib"] + feat
    t0 = time.time()
    r = subprocess.run(cmd, cwd=REPO, env=env, stdout=subprocess.PIPE, stderr=subprocess.STDOUT, text=True)
    if r.returncode != 0 or not all(os.path.exists(os.path.join(tmp, c + ".json")) for c in CRATES):
        tail = "\n".join(l for l in r.stdout.splitlines() if "facts-driver /" not in l)[-6000:]
        log.write(tail + "\n")
        shutil.rmtree(tmp, ignore_errors=True)
        raise BuildFailed("fact extraction failed for config %s (cargo exit %d)" % (config, r.returncode))
    os.makedirs(os.path.dirname(out_dir), exist_ok=True)
    shutil.rmtree(out_dir, ignore_errors=True)
    os.replace(tmp, out_dir)
    log.write("[extract] config=%s facts in %.1fs\n" % (config, time.time() - t0))


if __name__ == "__main__":
    cfgs = sys.argv[1:] or ["default"]
    for c in cfgs:
        d, sh = ensure_facts(c)
        print(c, d, sh)
