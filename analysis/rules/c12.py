"""C12 — topic-filter matching and validation (structural clauses only, DESIGN §4 C12)."""
import re
from ..core import *
from ..panics import inventory, apply_discharges, check_sites

EXPLANATION = (
    "Static decision of three structural clauses of C12 on the MIR of /repo's working tree: "
    "(R-C12-panic) no undischarged may-panic site in matches/valid_filter/valid_topic/has_wildcards of the three copies "
    "(inventory = every Assert, every call to a `!` function, every external call whose dependency-MIR summary reaches a panic sink); "
    "(R-C12-siblings) the copies that are identical on the pinned tree "
    "(matches x3, has_wildcards x3, valid_topic x2 and valid_filter x2 in rumqttc) stay signature-equal (constants, comparison operators, callees, switch shapes), identity reported; "
    "(R-C12-dollar) each matches() rejects a topic whose first character is '$' before any level comparison. "
    "(R-C12-levels) in each matches(): `false` for an exhausted topic only behind a test of the filter level against \"#\" (a/# matches a); `true` after the last filter level only behind a poll of the topic iterator; "
    "every loop iteration consumes one topic level and continues only via `level == \"+\"` or a comparison of the two levels. "
    "(R-C12-filter) each valid_filter() tests both the non-last levels and the last level for '+' and for '#', and a '#' in a non-last level leads only to false. "
    "R-C12-siblings also covers the broker's cached matcher (DataLog::matches / next_native_offset): a new filter reaches every cached topic protocol::matches says it matches (shared with R-C01-cache). "
    "NOT decided: conformance of matching with the MQTT rules for all string pairs; agreement of the differently written rumqttd valid_filter with the client copies.")

ASSUMPTIONS = [
    "rustc type checking / MIR construction / Instance resolution are correct",
    "dependency panics are derived from dependency MIR to depth 6; sinks in rules/benign_sinks.json are out of scope (allocation failure, aborts, formatter errors)",
    "std APIs listed as total in rules/ext_api.json are total for all arguments (each with a reason)",
]

COPIES = {
    "rumqttc": [r"^mqttbytes::topic::", r"^v5::mqttbytes::"],
    "rumqttd": [r"^protocol::"],
}
FUNCS = ["matches", "valid_filter", "valid_topic", "has_wildcards"]


def find_copies(ctx):
    out = {}  # fname -> list of (label, body)
    for crate, prefixes in COPIES.items():
        prog = ctx.progs[crate]
        for pre in prefixes:
            for fn in FUNCS:
                m = prog.find(pre + fn + "$")
                if len(m) == 1:
                    out.setdefault(fn, []).append(("%s::%s" % (crate, m[0].id), m[0], crate))
    return out


def run(ctx):
    copies = find_copies(ctx)
    for fn in FUNCS:
        ctx.floor("R-C12-anchor", "copies of %s" % fn, len(copies.get(fn, [])), 3)
    if any(len(copies.get(fn, [])) < 3 for fn in FUNCS):
        return

    # ---- R-C12-panic
    for crate in ("rumqttc", "rumqttd"):
        prog = ctx.progs[crate]
        cg = ctx.cg(crate)
        entries = [b.id for fn in FUNCS for (_, b, c) in copies[fn] if c == crate]
        reach = cg.reach(entries)
        sites, cnt = inventory(prog, reach)
        apply_discharges(sites)
        check_sites(ctx, "R-C12-panic", sites, "C12", "topic matching/validation functions (%s)" % crate, cg, entries)
        for e in entries:
            ctx.ok("R-C12-panic", e, "function analysed", trivial=True)

    # ---- R-C12-siblings
    groups = {
        "matches": copies["matches"],
        "has_wildcards": copies["has_wildcards"],
        # the rumqttd copies of valid_topic / valid_filter are written differently on the pinned
        # tree; their agreement with the client copies is not decided (DESIGN §4 C12)
        "valid_topic": [c for c in copies["valid_topic"] if c[2] == "rumqttc"],
        "valid_filter": [c for c in copies["valid_filter"] if c[2] == "rumqttc"],
    }
    for fn, group in groups.items():
        ref_label, ref_body, _ = group[0]
        ref_sig = signature(ref_body)
        ref_canon = canonical(ref_body)
        for label, body, _ in group[1:]:
            sig = signature(body)
            ident = canonical(body) == ref_canon
            if sig == ref_sig:
                ctx.ok("R-C12-siblings", label, "vs " + ref_label, site=body.fn_loc(),
                       what="signature-equal" + (" and identical MIR" if ident else " (not identical)"))
            else:
                diff = []
                for k in set(sig) | set(ref_sig):
                    if sig.get(k, 0) != ref_sig.get(k, 0):
                        diff.append("%s: %d vs %d" % (k, sig.get(k, 0), ref_sig.get(k, 0)))
                ctx.violation("R-C12-siblings", label, "vs " + ref_label,
                              "copies of %s disagree: %s" % (fn, "; ".join(sorted(diff)[:8])), site=body.fn_loc())

    # ---- R-C12-dollar
    for label, body, crate in copies["matches"]:
        check_dollar(ctx, label, body)
        ctx.guarded("R-C12-levels", check_levels, ctx, ctx.progs[crate], label, body)
    for label, body, crate in copies["valid_filter"]:
        ctx.guarded("R-C12-filter", check_filter_levels, ctx, ctx.progs[crate], label, body)
    ctx.guarded("R-C12-siblings", cached_matcher_agrees, ctx)


def cached_matcher_agrees(ctx):
    """The broker answers 'which filters match this topic' from a topic -> filters cache (DataLog::matches); that
    cached matcher agrees with protocol::matches only if a new filter is added to every cached topic that matches()
    says it matches - decided by matches() alone. Shared with R-C01-cache (recomputed on every run)."""
    from . import c01
    from .common import Relabel
    view = Relabel(ctx, "R-C12-siblings", lambda fn, inst: True)
    c01.cache(view, ctx.progs["rumqttd"])
    ctx.floor("R-C12-siblings", "verdicts about the cached matcher", view.kept, 2)


def check_dollar(ctx, label, body):
    rule = "R-C12-dollar"
    # a call taking the constant '$' (char 36) or "$" whose receiver derives from parameter 1 (topic)
    cands = []
    for bb, t in body.calls():
        if body.is_cleanup(bb):
            continue
        has_dollar = False
        for a in t["args"]:
            k = op_const(a)
            if k is not None and (k.get("v") == 36 or k.get("s") in ('const "$"', '"$"')):
                has_dollar = True
        if not has_dollar:
            continue
        srcs = flatten_src(provenance(body, t["args"][0], through_calls=[r"Index<.*>::index", r"::index$", r"::get$"]))
        if any(s.kind == "param" and s.l == 1 for s in srcs):
            cands.append((bb, t))
    if not cands:
        ctx.violation(rule, label, "dollar-check", "no test of the topic against '$' found in matches()", site=body.fn_loc())
        return
    splits = [bb for bb, t in body.calls() if re.search(r"str>::split$|::split$", callee_path(t)) and not body.is_cleanup(bb)]
    nexts = [bb for bb, t in body.calls() if re.search(r"Iterator>::next$|Iterator::next$", callee_path(t)) and not body.is_cleanup(bb)]
    okc = None
    # edges taken when the topic is empty (`topic.is_empty()` true): an empty topic has no first character
    empty_edges = []
    for bb, t in body.calls():
        if re.search(r"str>::is_empty$", callee_path(t)) and not body.is_cleanup(bb):
            srcs = flatten_src(provenance(body, t["args"][0]))
            sw = t.get("t")
            if any(s.kind == "param" and s.l == 1 for s in srcs) and sw is not None and body.blocks[sw]["t"]["k"] == "switch":
                # the value may be negated first
                stt = body.blocks[sw]["t"]
                l = op_local(stt["on"])
                neg = False
                for s_ in body.blocks[sw]["s"]:
                    if "lhs" in s_ and s_["lhs"]["l"] == l and s_["rv"]["k"] == "un" and s_["rv"]["op"] == "Not":
                        neg = True
                zero_t = [x for v, x in stt["targets"] if v == 0]
                if neg and zero_t:
                    empty_edges.append((sw, zero_t[0]))      # !is_empty == false  → empty
                elif not neg:
                    empty_edges.append((sw, stt["otherwise"]))
    for bb, t in cands:
        if reachable(body, (0,), avoid_blocks=(bb,), avoid_edges=empty_edges) & set(splits + nexts):
            continue
        # the switch on the call's result
        sw = t.get("t")
        if sw is None or body.blocks[sw]["t"]["k"] != "switch":
            continue
        st = body.blocks[sw]["t"]
        if op_local(st["on"]) != t["dest"]["l"]:
            continue
        true_t = st["otherwise"]
        # from the true edge every path reaches return without split/next and sets _0 = false
        r = reachable(body, (true_t,))
        if r & set(splits + nexts):
            continue
        vals = set()
        for b in r:
            for s_ in body.blocks[b]["s"]:
                if "lhs" in s_ and s_["lhs"]["l"] == 0 and not s_["lhs"].get("p"):
                    k = op_const(s_["rv"].get("a", {})) if s_["rv"]["k"] == "use" else None
                    vals.add(k.get("v") if k else "nonconst")
        if vals == {0}:
            okc = (bb, t)
            break
    if okc:
        ctx.ok(rule, label, "dollar-check", site=body.loc(okc[1].get("sp")),
               what="'$' test on the topic dominates all level iteration; its true edge returns false")
    else:
        ctx.violation(rule, label, "dollar-check",
                      "the '$' test does not dominate the level comparison or its true edge does not return false",
                      site=body.fn_loc())

TECHNIQUE = "static analysis: MIR may-panic inventory with dependency-derived divergence summaries + sibling signature comparison + dominance rule"
LEVEL_TEXT = ("Decides, for every path of the 12 functions (matches/valid_filter/valid_topic/has_wildcards x 3 copies), that no construct can panic "
              "(every Assert, `!` call and dependency call with a derived panic sink is discharged or audited), that the hand-copied siblings keep the same "
              "constants/operators/callees, and that the '$' rejection dominates level matching. It does not decide that the answers follow the MQTT rules for all strings "
              "(value-level; not reachable by a sound static rule here).")
LEVEL_NOTE = "Trusted: rustc MIR construction and callee resolution; rules/ext_api.json (std string APIs audited total); rules/panic_audit.json (2 signed unwraps on str::split)."


# ------------------------------------------------------------------------------------------
# R-C12-levels: level-by-level structure of matches()

def _str_consts(prog, body, op):
    """string literals an operand can denote (direct `const "x"` or a reference to a promoted literal)"""
    import json
    out = set()
    k = op_const(op)
    cands = [Src("const", v=k.get("v"), s=k.get("s"), promoted=k.get("promoted"), fn=k.get("fn"))] if k is not None else flatten_src(provenance(body, op))
    for s in cands:
        if s.kind != "const":
            continue
        if s.promoted is not None:
            pb = prog.promoted.get((body.id, s.promoted))
            if pb:
                for m in re.finditer(r'const \\"([^"\\]*)\\"|"s": "\\"([^"\\]*)\\""', json.dumps(pb.raw["blocks"])):
                    out.add(m.group(1) if m.group(1) is not None else m.group(2))
        elif s.s:
            m = re.match(r'^(?:const )?"(.*)"$', s.s)
            if m:
                out.add(m.group(1))
    return out


def check_levels(ctx, prog, label, body):
    """Necessary structure of level-wise matching, as path rules over one copy of matches():
    (L1) a `return false` reached because the topic ran out of levels lies behind a test of the current filter
         level against "#"  (a/# matches a);
    (L2) after the filter's levels are exhausted, `return true` lies behind a poll of the topic iterator
         (a does not match a/b);
    (L3) every way round the per-level loop polls the topic iterator (one topic level per filter level);
    (L4) every way round the loop that is not the true edge of `level == "+"` compares the filter level with
         the topic level."""
    rule = "R-C12-levels"
    live = reachable(body, (0,))
    role = {}     # bb of an Iterator::next call -> "topic" | "filter"
    for bb, t in body.calls():
        if bb not in live or body.is_cleanup(bb) or not re.search(r"Iterator>::next$|Iterator::next$", callee_path(t)):
            continue
        for s in flatten_src(provenance(body, t["args"][0], through_calls=[r"Iterator::by_ref$", r"IntoIterator>::into_iter$"])):
            if s.kind == "call" and re.search(r"str>::split$|::split$", s.path):
                ps = flatten_src(provenance(body, s.term["args"][0]))
                if ps and all(p.kind == "param" for p in ps):
                    role[bb] = "topic" if ps[0].l == 1 else "filter"
    tnext = [bb for bb, r in role.items() if r == "topic"]
    fnext = [bb for bb, r in role.items() if r == "filter"]
    if not tnext or len(fnext) != 1:
        ctx.anchor_missing(rule, "%s: level iterators not recognised (topic next: %d, filter next: %d)" % (label, len(tnext), len(fnext)))
        return

    def edges(bb):
        """(Some target, None target) of the discriminant switch on the result of the next() call in bb"""
        dest = body.blocks[bb]["t"]["dest"]["l"]
        for sw in discr_switches(body, r"Option"):
            if sw[4] and sw[4]["l"] == dest and not [p for p in (sw[4].get("p") or []) if p != "*"]:
                return variant_target(sw, "Some"), variant_target(sw, "None")
        return None, None
    f_some, f_none = edges(fnext[0])
    t_none = [edges(bb)[1] for bb in tnext]
    if f_some is None or f_none is None:
        ctx.anchor_missing(rule, "%s: match on the filter iterator's next() not found" % label)
        return
    falses, trues = [], []
    for bi in live:
        for st in body.blocks[bi]["s"]:
            if "lhs" in st and st["lhs"]["l"] == 0 and not st["lhs"].get("p") and st["rv"]["k"] == "use":
                k = op_const(st["rv"]["a"])
                if k is not None and k.get("v") in (0, 1):
                    (trues if k["v"] == 1 else falses).append(bi)
    # comparisons
    hash_tests, plus_true_edges, level_cmps = [], [], []
    for bb, t in body.calls():
        if bb not in live or body.is_cleanup(bb) or not re.search(r"PartialEq.*::(eq|ne)$", callee_path(t)) or len(t["args"]) != 2:
            continue
        lits = [_str_consts(prog, body, a) for a in t["args"]]
        nonconst = [i for i in (0, 1) if not lits[i]]
        from_filter = False
        for i in nonconst:
            for s in flatten_src(provenance(body, t["args"][i])):
                if s.kind == "call" and s.term is body.blocks[fnext[0]]["t"]:
                    from_filter = True
        if not from_filter:
            continue
        lit = lits[0] | lits[1]
        if "#" in lit:
            hash_tests.append(bb)
        elif "+" in lit:
            sw = t.get("t")
            if sw is not None and body.blocks[sw]["t"]["k"] == "switch":
                stt = body.blocks[sw]["t"]
                zero = [x for v, x in stt["targets"] if v == 0]
                is_eq = callee_path(t).endswith("eq")
                plus_true_edges.append((sw, stt["otherwise"] if is_eq else (zero[0] if zero else None)))
        elif len(nonconst) == 2:
            level_cmps.append(bb)
    # L1
    bad = []
    for tn in t_none:
        if tn is None:
            continue
        r_ = reachable(body, (f_some,), avoid_blocks=tuple(hash_tests))
        if tn in r_ and (reachable(body, (tn,), avoid_blocks=tuple(hash_tests) + (fnext[0],)) & set(falses)):
            bad.append(tn)
    if bad:
        ctx.violation(rule, label, "parent level of a trailing #",
                      "matches(): a path returns false because the topic has no more levels without ever testing the current filter level against \"#\": filter a/# no longer matches topic a (MQTT-4.7.1-2)",
                      site=body.loc(body.blocks[bad[0]]["t"].get("sp")))
    else:
        ctx.ok(rule, label, "L1: topic-exhausted `false` only behind a test of the filter level against \"#\"", site=body.fn_loc())
    # L2
    if reachable(body, (f_none,), avoid_blocks=tuple(tnext) + (fnext[0],)) & set(trues):
        ctx.violation(rule, label, "topic longer than filter", "matches(): after the last filter level `true` is returned without polling the topic iterator: a/b matches filter a", site=body.fn_loc())
    else:
        ctx.ok(rule, label, "L2: filter exhausted: `true` only behind topics.next()", site=body.fn_loc())
    # L3
    if fnext[0] in reachable(body, (f_some,), avoid_blocks=tuple(tnext)):
        ctx.violation(rule, label, "level not consumed", "matches(): the per-level loop can continue without advancing the topic iterator", site=body.fn_loc())
    else:
        ctx.ok(rule, label, "L3: every loop iteration polls the topic iterator", site=body.fn_loc())
    # L4
    if fnext[0] in reachable(body, (f_some,), avoid_blocks=tuple(level_cmps), avoid_edges=[e for e in plus_true_edges if e[1] is not None]):
        ctx.violation(rule, label, "level not compared", "matches(): the loop can continue past a filter level that is neither \"+\" nor compared with the topic level", site=body.fn_loc())
    else:
        ctx.ok(rule, label, "L4: a loop iteration continues only via `level == \"+\"` or a comparison of filter level and topic level", site=body.fn_loc())


# ------------------------------------------------------------------------------------------
# R-C12-filter: wildcard placement tests of valid_filter()

def check_filter_levels(ctx, prog, label, body):
    """Necessary structure of filter validation in one copy of valid_filter(): both kinds of level —
    the non-last levels (tested inside the loop over levels) and the last level (tested outside it) —
    are tested for '+' AND for '#'; a '#' found in a non-last level can only lead to `false`."""
    rule = "R-C12-filter"
    live = reachable(body, (0,))
    # blocks on a cycle = the per-level loop
    in_loop = set()
    for bi in live:
        if bi in reachable_after(body, [bi]):
            in_loop.add(bi)
    tests = {"entry": {}, "last": {}}
    for bb, t in body.calls():
        if bb not in live or body.is_cleanup(bb) or not re.search(r"str>::contains(::<.*>)?$|::contains$", callee_path(t)) or len(t["args"]) != 2:
            continue
        k = op_const(t["args"][1])
        if k is None or k.get("v") not in (35, 43):
            continue
        cls = "entry" if bb in in_loop else "last"
        tests[cls].setdefault("#" if k["v"] == 35 else "+", []).append((bb, t))
    trues = [bi for bi in live for st in body.blocks[bi]["s"]
             if "lhs" in st and st["lhs"]["l"] == 0 and not st["lhs"].get("p") and st["rv"]["k"] == "use" and (op_const(st["rv"]["a"]) or {}).get("v") == 1]
    for cls, what in (("entry", "non-last levels"), ("last", "the last level")):
        missing = [c for c in ("+", "#") if c not in tests[cls]]
        if missing:
            ctx.violation(rule, label, "%s not tested for %s" % (what, "/".join(missing)),
                          "valid_filter() never tests %s for %s: filters with a misplaced wildcard (e.g. `sport+/tennis`) are accepted" % (what, " and ".join("'%s'" % c for c in missing)), site=body.fn_loc())
        else:
            ctx.ok(rule, label, "%s are tested for '+' and '#'" % what, site=body.fn_loc())
    for bb, t in tests["entry"].get("#", []):
        sw = t.get("t")
        if sw is None or body.blocks[sw]["t"]["k"] != "switch":
            continue
        true_t = body.blocks[sw]["t"]["otherwise"]
        if reachable(body, (true_t,)) & set(trues):
            ctx.violation(rule, label, "'#' in a non-last level accepted", "valid_filter(): after finding '#' in a non-last level a path still returns true", site=body.loc(t.get("sp")))
        else:
            ctx.ok(rule, label, "'#' in a non-last level leads only to `false`", site=body.loc(t.get("sp")))
