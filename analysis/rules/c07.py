"""C07 — client packet-id uniqueness and inflight-window flow control (DESIGN §4 C07)."""
import re
from ..core import *
from .client import *

CRATES = ("rumqttc",)
EXPLANATION = (
    "Static decision on the MIR of /repo's working tree (rumqttc v4 and v5 state machines / event loops): "
    "(R-C07-accounting) on every Ok path of every handler that touches the packet-id tables, (slots stored + releases recorded) − (slots freed + releases cleared) equals (inflight increments − decrements) — "
    "paths are enumerated exhaustively per handler (loop-free), closures passed to Option::map are inlined as optional segments; "
    "(R-C07-collision-resolve) every Ok path that frees a packet id for good calls check_collision for that id, and `collision = Some(..)` is assigned only in outgoing_publish on the edge where the slot is occupied; "
    "(R-C07-gate) the event loop's request branch precondition is evaluated as a truth table over (pending empty, window full, collision pending): the branch is enabled exactly when the window is free and no collision is pending — also while carried-over requests are pending; `state.inflight >= limit` uses `>=`, and `limit` is the state field next_pkid wraps at "
    "(or, when that field is written only by MqttState::new, the options field the constructor argument is read from); "
    "(R-C07-pkid) the packet id of outgoing publish/subscribe/unsubscribe comes from next_pkid() (or is a caller-assigned non-zero id), next_pkid is the only writer of last_pkid besides new, "
    "and its wrap-around test by equality is used only against a limit that is never rewritten — otherwise a `last_pkid >= limit` test must guard it. "
    "NOT decided: 1 <= id <= limit and uniqueness as value invariants over all ack orders.")
ASSUMPTIONS = ["rustc MIR construction is correct", "tokio::select! keeps the user-written precondition expression as ordinary MIR (only uses of the flag locals are required, not the macro's internal shape)"]
TECHNIQUE = "static analysis: exhaustive per-path effect enumeration on handler MIR (accounting equation), must-pass rules, who-may-write, provenance of packet ids"
LEVEL_TEXT = ("Decides the window accounting equation and collision-resolution call on every path of every handler for both protocol versions, who writes the id counter/collision slot, and that the flow-control gate consults the window and collision state. "
              "Numeric bounds over histories are not decided.")
LEVEL_NOTE = "Trusted: rustc MIR."

HANDLERS = ["handle_incoming_puback", "handle_incoming_pubrec", "handle_incoming_pubrel", "handle_incoming_pubcomp",
            "outgoing_publish", "outgoing_pubrel", "save_pubrel", "outgoing_puback", "outgoing_pubrec"]


def run(ctx):
    prog = ctx.progs["rumqttc"]
    for ver in ("v4", "v5"):
        ctx.guarded("R-C07-accounting", accounting, ctx, prog, ver)
        ctx.guarded("R-C07-gate", gate, ctx, prog, ver)
        ctx.guarded("R-C07-pkid", pkid, ctx, prog, ver)
        ctx.guarded("R-C07-collision-resolve", collision_reset, ctx, prog, ver)
        ctx.guarded("R-C07-unique", id_held_by_release, ctx, prog, ver)


def block_effects(prog, body, bb):
    """effects of one block's terminator (and of the closure it passes to Option::map, as optional)"""
    t = body.blocks[bb]["t"]
    eff = {}
    opt = None
    if t["k"] == "call":
        cp = callee_path(t)
        fs = [x.split(".")[-1] for x in (receiver_fields(body, t) or [])]
        f = fs[-1] if fs else None
        if re.search(r"IndexMut<I>>::index_mut$", cp) and f == "outgoing_pub":
            eff["S+"] = 1
        elif cp.endswith("FixedBitSet::insert") and f == "outgoing_rel":
            eff["R+"] = 1
        elif cp.endswith("FixedBitSet::set") and f == "outgoing_rel":
            eff["R-"] = 1
        elif cp.endswith("Option::<T>::take"):
            src = flatten_src(provenance(body, t["args"][0], through_calls=[r"ops::Try>::branch$", r"Option::<T>::ok_or$", r"::get_mut$", r"Deref(Mut)?>::deref(_mut)?$"]))
            if any("outgoing_pub" in [x.split(".")[-1] for x in (getattr(s, "fields", None) or [])] for s in src):
                eff["S-"] = 1
        elif cp.endswith("MqttState::check_collision"):
            eff["CC"] = 1
        elif t["fn"].get("ws") and re.search(r"MqttState::\w+$", cp) and cp in prog.A and cp != body.id \
                and any(callee_path(t2).endswith("MqttState::check_collision") for _, t2 in prog.A[cp].calls()):
            # helper that resolves a collision (v5 resend_collision): check_collision is always
            # called; the re-send bookkeeping happens only when a publish was parked
            eff["CC"] = 1
            hb = prog.A[cp]
            opt = {}
            for b2 in reachable(hb, (0,)):
                e2, _ = block_effects(prog, hb, b2)
                for k, v in e2.items():
                    if k != "CC":
                        opt[k] = opt.get(k, 0) + v
        elif cp.endswith("MqttState::save_pubrel"):
            eff["R+"] = 1; eff["I+"] = 1
        elif cp.endswith("Option::<T>::map"):
            for s in flatten_src(provenance(body, t["args"][1])):
                cb = prog.A.get(getattr(s, "adt", None))
                if cb is not None:
                    opt = {}
                    for b2 in reachable(cb, (0,)):
                        e2, _ = block_effects(prog, cb, b2)
                        for k, v in e2.items():
                            opt[k] = opt.get(k, 0) + v
    for st in body.blocks[bb]["s"]:
        if "lhs" in st and st["rv"]["k"] == "bin":
            pl = op_place(st["rv"]["a"])
            if pl is not None and [x.split(".")[-1] for x in place_fields(pl)][-1:] == ["inflight"]:
                if st["rv"]["op"] in ("AddWithOverflow", "Add"):
                    eff["I+"] = eff.get("I+", 0) + 1
                elif st["rv"]["op"] in ("SubWithOverflow", "Sub"):
                    eff["I-"] = eff.get("I-", 0) + 1
        if "lhs" in st and [x.split(".")[-1] for x in place_fields(st["lhs"])][-1:] == ["collision"] and st["rv"]["k"] in ("agg", "use"):
            eff["COL="] = 1
    return eff, opt


def ok_return_paths(body, limit=4000):
    """all acyclic paths entry→return, tagged Ok/Err by the last Result aggregate assigned to _0
    (Err also when the path ends through a `?` residual)"""
    rets = set(return_blocks(body))
    out = []
    stack = [(0, (0,))]
    n = 0
    while stack:
        b, path = stack.pop()
        n += 1
        if n > limit * 20:
            raise AnchorMissing("%s: too many paths to enumerate" % body.id)
        if b in rets:
            out.append(path)
            if len(out) > limit:
                raise AnchorMissing("%s: more than %d paths" % (body.id, limit))
            continue
        for s in live_succ(body, b):
            if s in path:
                raise AnchorMissing("%s: handler contains a loop; the per-path accounting rule does not apply" % body.id)
            stack.append((s, path + (s,)))
    return out


def path_kind(body, path):
    kind = None
    for b in path:
        for st in body.blocks[b]["s"]:
            if "lhs" in st and st["lhs"]["l"] == 0 and not st["lhs"].get("p") and st["rv"]["k"] == "agg" and st["rv"].get("var") in ("Ok", "Err"):
                kind = st["rv"]["var"]
        t = body.blocks[b]["t"]
        if t["k"] == "call" and t["dest"]["l"] == 0 and re.search(r"from_residual$", callee_path(t)):
            kind = "Err"
        if t["k"] == "call" and t["dest"]["l"] == 0 and callee_path(t).endswith("MqttState::outgoing_puback"):
            kind = "Ok"
        if t["k"] == "call" and t["dest"]["l"] == 0 and re.search(r"MqttState::outgoing_", callee_path(t)):
            kind = "Ok"
    return kind or "Ok"


def accounting(ctx, prog, ver):
    rule = "R-C07-accounting"
    rule2 = "R-C07-collision-resolve"
    n = 0
    for name in HANDLERS:
        body = state_fn(prog, ver, name)
        paths = ok_return_paths(body)
        checked = 0
        seen_bad = set()
        for path in paths:
            if path_kind(body, path) != "Ok":
                continue
            base = {}
            opts = []
            for b in path:
                e, opt = block_effects(prog, body, b)
                for k, v in e.items():
                    base[k] = base.get(k, 0) + v
                if opt is not None:
                    opts.append(opt)
            variants = [base]
            for o in opts:
                v2 = dict(base)
                for k, v in o.items():
                    v2[k] = v2.get(k, 0) + v
                variants.append(v2)
            for v in variants:
                checked += 1
                slots = v.get("S+", 0) + v.get("R+", 0) - v.get("S-", 0) - v.get("R-", 0)
                infl = v.get("I+", 0) - v.get("I-", 0)
                if slots != infl:
                    key = (slots, infl)
                    if key not in seen_bad:
                        seen_bad.add(key)
                        ctx.violation(rule, body.id, "slots %+d vs inflight %+d" % (slots, infl),
                                      "an Ok path changes the packet-id tables by %+d occupied slots but `inflight` by %+d (effects %s): the window count drifts from the tables" % (slots, infl, {k: x for k, x in v.items() if k not in ("CC", "COL=")}),
                                      site=body.loc(body.blocks[path[-2] if len(path) > 1 else path[-1]]["t"].get("sp")), path=path_lines(body, path)[-8:])
                freed = (v.get("S-", 0) > v.get("R+", 0)) or v.get("R-", 0) > 0
                if freed and not v.get("CC"):
                    if ("cc",) not in seen_bad:
                        seen_bad.add(("cc",))
                        ctx.violation(rule2, body.id, "id freed without check_collision",
                                      "an Ok path frees a packet id for good but does not call check_collision(pkid): a publish parked on that id can never be sent",
                                      site=body.loc(body.blocks[path[-2] if len(path) > 1 else path[-1]]["t"].get("sp")), path=path_lines(body, path)[-8:])
        n += 1
        if not [k for k in seen_bad if k != ("cc",)]:
            ctx.ok(rule, body.id, "%d Ok path variants: table slots and inflight move together" % checked)
        if ("cc",) not in seen_bad and name in ("handle_incoming_puback", "handle_incoming_pubcomp", "handle_incoming_pubrec"):
            ctx.ok(rule2, body.id, "every Ok path that frees an id calls check_collision")
    ctx.floor(rule, "handlers analysed (%s)" % ver, n, 9)
    # who assigns collision = Some(..)
    pre = dict((v[0], v[1]) for v in VERSIONS)[ver]
    for body in state_fns(prog, ver):
        for bi, b in enumerate(body.blocks):
            if b.get("cleanup"):
                continue
            for st in b["s"]:
                if "lhs" in st and [x.split(".")[-1] for x in place_fields(st["lhs"])][-1:] == ["collision"] and st["lhs"]["l"] == 1:
                    src = flatten_src(provenance(body, st["rv"]["a"])) if st["rv"]["k"] == "use" else [Src("agg", adt="std::option::Option", var=st["rv"].get("var"))] if st["rv"]["k"] == "agg" else []
                    is_some = any(s.kind == "agg" and getattr(s, "var", None) == "Some" for s in src)
                    if not is_some:
                        continue
                    if body.name == "outgoing_publish":
                        # on the edge where the slot is occupied: dominated by true edge of Option::is_some on outgoing_pub.get(..)
                        from .c15 import switch_on_call_result
                        sw = switch_on_call_result(body, r"Option::<T>::is_some$") + switch_on_call_result(body, r"FixedBitSet::contains$", "outgoing_rel")
                        held_edges = [(s_[0], s_[1]) for s_ in sw]
                        if sw and (any(dominates(body, s_[1], bi) for s_ in sw) or must_pass(body, [0], [bi], via_edges=held_edges, include_from=True)):
                            ctx.ok(rule2, body.id, "collision = Some(publish) only when the packet id is held (outgoing_pub[pkid] occupied / release pending)", site=body.loc(st.get("sp")))
                        else:
                            ctx.violation(rule2, body.id, "collision parked without occupied slot", "a publish is parked as a collision although its packet id slot is free: nothing will ever resolve it", site=body.loc(st.get("sp")))
                    elif body.name != "new":
                        ctx.violation(rule2, body.id, "collision assigned", "the collision slot is filled outside outgoing_publish", site=body.loc(st.get("sp")))


def pkid_limit_fields(prog, ver):
    """fields of the state that next_pkid compares the id counter against (the limit bounding packet ids)"""
    np = state_fn(prog, ver, "next_pkid")
    out = set()
    for b in np.blocks:
        for st in b["s"]:
            if "lhs" in st and st["rv"]["k"] == "bin" and st["rv"]["op"] in ("Eq", "Ge", "Gt", "Lt", "Le"):
                for side in ("a", "b"):
                    for s in flatten_src(provenance(np, st["rv"][side])):
                        if s.kind in ("param", "field") and s.fields and s.fields[-1] != "last_pkid" and s.l == 1:
                            out.add(s.fields[-1])
    return out


def limit_agreement(ctx, prog, ver, body, rhs):
    """The window test of the event loop must use the limit that bounds packet ids in the state machine:
    either the very field next_pkid wraps at, or — when that field is written only by the constructor —
    the options field the constructor argument is read from.  A gate with a larger limit admits requests
    whose id is still held (collision) or exceeds the negotiated window."""
    rule = "R-C07-gate"
    pre_s = dict((v[0], v[1]) for v in VERSIONS)[ver]
    pre_e = dict((v[0], v[2]) for v in VERSIONS)[ver]
    limits = pkid_limit_fields(prog, ver)
    if not limits:
        ctx.anchor_missing(rule, "next_pkid limit field (%s)" % ver)
        return
    src = flatten_src(provenance(body, rhs))
    gate_fields = [s.fields for s in src if getattr(s, "fields", None)]
    if src and len(gate_fields) == len(src) and all("state" in f and f[-1] in limits for f in gate_fields):
        ctx.ok(rule, body.id, "window test compares against state.%s, the limit next_pkid wraps at" % "/".join(sorted(limits)))
        return
    # limit held in the options: sound only if the state's limit is a constructor-time copy of the same options field
    mutable = sorted(set(b.id for lim in limits for b, bi, st in field_writes(prog, lim) if b.id.startswith(pre_s) and b.name != "new"))
    ctor_fields = set()
    nb = prog.one("^" + re.escape(pre_e) + r"new$")
    for bb, t in nb.calls():
        if callee_path(t).endswith("MqttState::new") and t["args"]:
            for s in flatten_src(provenance(nb, t["args"][0])):
                if getattr(s, "fields", None):
                    ctor_fields.add(s.fields[-1])
    if src and not mutable and gate_fields and len(gate_fields) == len(src) and all(f[-1] in ctor_fields for f in gate_fields):
        ctx.ok(rule, body.id, "window test compares against options.%s, the value MqttState::new copies into %s (never rewritten)" % ("/".join(sorted(ctor_fields)), "/".join(sorted(limits))))
        return
    ctx.violation(rule, body.id, "window limit differs from the packet-id limit",
                  "select() tests `state.inflight >= X` with X from %s, but packet ids are bounded by state.%s%s: with a smaller negotiated window the loop keeps taking requests although the window is full"
                  % ([".".join(f) for f in gate_fields] or [s.kind + ":" + str(getattr(s, "path", "")) for s in src], "/".join(sorted(limits)),
                     (" (rewritten by %s)" % mutable) if mutable else ""), site=body.fn_loc())


def _first_use_block(body, local):
    for bi, b in enumerate(body.blocks):
        if b.get("cleanup"):
            continue
        for st in b["s"]:
            if "lhs" in st and st["rv"]["k"] == "use" and op_local(st["rv"]["a"]) == local:
                return bi
        if b["t"]["k"] == "switch" and op_local(b["t"]["on"]) == local:
            return bi
    raise AnchorMissing("first use of the window flag not found")


def gate(ctx, prog, ver):
    rule = "R-C07-gate"
    pre = dict((v[0], v[2]) for v in VERSIONS)[ver]
    body = prog.one("^" + re.escape(pre) + r"select::\{closure#0\}$")
    # locals: inflight_full = state.inflight >= limit ; collision = state.collision.is_some()
    full = coll = None
    for bi, b in enumerate(body.blocks):
        for st in b["s"]:
            if "lhs" in st and st["rv"]["k"] == "bin" and st["rv"]["op"] in ("Ge", "Gt", "Eq", "Lt", "Le"):
                sa = flatten_src(provenance(body, st["rv"]["a"]))
                if any(getattr(s, "fields", None) and s.fields[-1].split(".")[-1] == "inflight" and "state" in ".".join(s.fields) for s in sa):
                    full = (st["lhs"]["l"], st["rv"]["op"], bi, st["rv"]["b"])
    for bb, t in body.calls():
        if callee_path(t).endswith("Option::<T>::is_some"):
            fs = [x.split(".")[-1] for x in (receiver_fields(body, t) or [])]
            if fs and fs[-1] == "collision":
                coll = (t["dest"]["l"], bb)
    if full:
        limit_agreement(ctx, prog, ver, body, full[3])
    if not full:
        ctx.violation(rule, body.id, "no window test", "select() no longer computes `state.inflight >= <limit>`", site=body.fn_loc())
    elif full[1] != "Ge":
        ctx.violation(rule, body.id, "window test operator", "the window test is `%s` instead of `>=`: requests are accepted with a full window" % full[1], site=body.fn_loc())
    if not coll:
        ctx.violation(rule, body.id, "no collision test", "select() no longer reads state.collision.is_some()", site=body.fn_loc())

    def used_in_switch(local):
        # the flag (possibly copied / negated) is a switch discriminant somewhere
        frontier = {local}
        for _ in range(6):
            new = set(frontier)
            for b in body.blocks:
                for st in b["s"]:
                    if "lhs" in st and not st["lhs"].get("p"):
                        rv = st["rv"]
                        src = None
                        if rv["k"] == "use":
                            src = op_local(rv["a"])
                        elif rv["k"] == "un":
                            src = op_local(rv["a"])
                        if src in frontier:
                            new.add(st["lhs"]["l"])
            frontier = new
        for b in body.blocks:
            t = b["t"]
            if t["k"] == "switch" and op_local(t["on"]) in frontier:
                return True
        return False
    if full and full[1] == "Ge" and coll:
        if used_in_switch(full[0]) and used_in_switch(coll[0]):
            ctx.ok(rule, body.id, "the request branch precondition tests both `inflight >= limit` and `collision.is_some()`")
        else:
            ctx.violation(rule, body.id, "flag unused", "inflight_full / collision is computed but not tested by the request branch precondition: new requests are taken with a full window or an unresolved collision", site=body.fn_loc())
    # truth table of the request branch's precondition over (pending empty, window full, collision pending)
    if full and coll:
        ie_calls = [(bb, t) for bb, t in body.calls() if callee_path(t).endswith("VecDeque::<T, A>::is_empty") and [x.split(".")[-1] for x in (receiver_fields(body, t) or [])][-1:] == ["pending"] and not body.is_cleanup(bb)]
        starts = [(t["t"], t["dest"]["l"]) for bb, t in ie_calls if t.get("t") is not None]
        if not starts:
            # the precondition does not look at pending at all: start where the window flag is first consumed
            starts = []
        table = {}
        undecided = None
        for pend_empty in (True, False):
            for is_full in (True, False):
                for is_coll in (True, False):
                    env = {full[0]: is_full, coll[0]: is_coll}
                    if starts:
                        cur, pl = starts[0]
                        env[pl] = pend_empty
                    else:
                        cur = _first_use_block(body, full[0])
                    disabled = False
                    for _ in range(200):
                        blk = body.blocks[cur]
                        for st in blk["s"]:
                            if "lhs" not in st or st["lhs"].get("p"):
                                continue
                            rv = st["rv"]
                            if rv["k"] == "use":
                                k = op_const(rv["a"])
                                l = op_local(rv["a"])
                                if k is not None and k.get("v") in (0, 1):
                                    env[st["lhs"]["l"]] = bool(k["v"])
                                elif l in env:
                                    env[st["lhs"]["l"]] = env[l]
                            elif rv["k"] == "un" and rv["op"] == "Not" and op_local(rv["a"]) in env:
                                env[st["lhs"]["l"]] = not env[op_local(rv["a"])]
                            elif rv["k"] == "bin" and rv["op"] == "BitOr" and "u8" in body.local_ty(st["lhs"]["l"]):
                                disabled = True
                        t = blk["t"]
                        if t["k"] in ("goto", "falseedge", "assert", "falseunwind"):
                            cur = t.get("t") if t["k"] != "goto" else t["t"]
                        elif t["k"] == "switch":
                            l = op_local(t["on"])
                            if l not in env:
                                undecided = (cur, l)
                                break
                            tg = [x for v, x in t["targets"] if v == (1 if env[l] else 0)]
                            cur = tg[0] if tg else t["otherwise"]
                        else:
                            break       # next call: the precondition of the next branch starts
                    table[(pend_empty, is_full, is_coll)] = not disabled
        if undecided:
            ctx.anchor_missing(rule, "select (%s): precondition of the request branch could not be evaluated (switch on an untracked value in bb%d)" % (ver, undecided[0]))
        else:
            bad_taken = sorted(k for k, en in table.items() if en and (k[1] or k[2]))
            bad_idle = sorted(k for k, en in table.items() if not en and not k[1] and not k[2])
            if bad_taken:
                ctx.violation(rule, body.id, "requests taken past the flow-control gate",
                              "the request branch is enabled for (pending empty, window full, collision pending) = %s: while carried-over requests are pending the loop takes requests with a full window or an unresolved collision — "
                              "`pending` also holds the user requests drained from the channel, and a second colliding publish overwrites the parked one (an accepted publish is lost)" % bad_taken, site=body.fn_loc())
            elif bad_idle:
                ctx.violation(rule, body.id, "requests refused with a free window", "the request branch is disabled although the window is free and no collision is pending: %s" % bad_idle, site=body.fn_loc())
            else:
                ctx.ok(rule, body.id, "request branch enabled exactly when the window is free and no collision is pending (8-row truth table of the precondition)")


def pkid(ctx, prog, ver):
    rule = "R-C07-pkid"
    pre = dict((v[0], v[1]) for v in VERSIONS)[ver]
    # writers of last_pkid
    for body, bi, st in field_writes(prog, "last_pkid"):
        if not body.id.startswith(pre):
            continue
        if body.name in ("next_pkid", "new"):
            ctx.ok(rule, body.id, "writes last_pkid", site=body.loc(st.get("sp")), trivial=True)
        else:
            ctx.violation(rule, body.id, "writes last_pkid", "the packet id counter is written outside next_pkid", site=body.loc(st.get("sp")))
    # pkid sources
    for name, arg_ty in (("outgoing_publish", "Publish"), ("outgoing_subscribe", "Subscribe"), ("outgoing_unsubscribe", "Unsubscribe")):
        body = state_fn(prog, ver, name)
        wrote = False
        for bi, b in enumerate(body.blocks):
            for st in b["s"]:
                if "lhs" in st and [x.split(".")[-1] for x in place_fields(st["lhs"])][-1:] == ["pkid"] and st["lhs"]["l"] == 2:
                    src = flatten_src(provenance(body, st["rv"]["a"])) if st["rv"]["k"] == "use" else []
                    if src and all(s.kind == "call" and s.path.endswith("MqttState::next_pkid") for s in src):
                        wrote = True
                    else:
                        ctx.violation(rule, body.id, "pkid source", "the outgoing packet's id is assigned from something other than next_pkid()", site=body.loc(st.get("sp")))
        if wrote:
            ctx.ok(rule, body.id, "pkid = next_pkid()")
        else:
            ctx.violation(rule, body.id, "no pkid assignment", "%s no longer assigns a packet id from next_pkid()" % name, site=body.fn_loc())
    # wrap test
    np = state_fn(prog, ver, "next_pkid")
    eqs = []
    guards = []
    for bi, b in enumerate(np.blocks):
        for st in b["s"]:
            if "lhs" in st and st["rv"]["k"] == "bin" and st["rv"]["op"] in ("Eq", "Ge", "Gt", "Lt", "Le"):
                for side in ("a", "b"):
                    for s in flatten_src(provenance(np, st["rv"][side])):
                        if s.kind in ("param", "field") and s.fields and s.fields[-1] not in ("last_pkid",) and s.l == 1:
                            (eqs if st["rv"]["op"] == "Eq" else guards).append(s.fields[-1])
    if not eqs and not guards:
        ctx.violation(rule, np.id, "no wrap", "next_pkid no longer wraps around at the inflight limit", site=np.fn_loc())
        return
    for limit in set(eqs):
        writers = [b.id for b, bi, st in field_writes(prog, limit) if b.id.startswith(pre) and b.name != "new"]
        if writers and limit not in guards:
            ctx.violation(rule, np.id, "wrap test by equality against a mutable limit",
                          "next_pkid wraps only when the next id == %s, but %s is rewritten by %s: once last_pkid is above a lowered limit the ids run past it" % (limit, limit, sorted(set(writers))),
                          site=np.fn_loc())
        else:
            ctx.ok(rule, np.id, "wrap test against %s is sound (%s)" % (limit, "limit never rewritten" if not writers else "guarded by an ordering test on the same limit"))


def collision_reset(ctx, prog, ver):
    """'a collision is only ever pending while the colliding id is genuinely held': MqttState::clean() empties
    outgoing_pub and the window, so it must empty the collision slot too (Option::take / = None on every path) —
    a collision left pending after clean() can be resolved by no acknowledgement and closes the request gate for good."""
    rule = "R-C07-collision-resolve"
    pre = dict((v[0], v[1]) for v in VERSIONS)[ver]
    body = prog.one("^" + re.escape(pre) + r"clean$")
    clears = []
    for bb, t in body.calls():
        if not body.is_cleanup(bb) and re.search(r"Option::<T>::take$|mem::take$|mem::replace$", callee_path(t)):
            fs = [x.split(".")[-1] for x in (receiver_fields(body, t) or [])]
            if fs[-1:] == ["collision"]:
                clears.append(bb)
    for bi, b in enumerate(body.blocks):
        if b.get("cleanup"):
            continue
        for st in b["s"]:
            if "lhs" in st and [x.split(".")[-1] for x in place_fields(st["lhs"])][-1:] == ["collision"] and st["rv"]["k"] == "agg" and st["rv"].get("var") == "None":
                clears.append(bi)
    if clears and must_pass(body, [0], return_blocks(body), via_blocks=set(clears), include_from=True):
        ctx.ok(rule, body.id, "clean() empties the collision slot on every path", site=body.fn_loc())
    else:
        ctx.violation(rule, body.id, "collision survives clean()",
                      "MqttState::clean() hands the parked publish to the caller (or not) but leaves `collision` set while it empties outgoing_pub and the window: after the reconnect the request gate `!inflight_full && !collision` stays closed although no unacknowledged publish holds that id — nothing can ever resolve the collision",
                      site=body.fn_loc())


def id_held_by_release(ctx, prog, ver):
    """'no two publishes that are simultaneously unacknowledged carry the same id': a QoS 2 publish leaves outgoing_pub
    at PUBREC but keeps its id (outgoing_rel, counted in inflight) until PUBCOMP — the handler of which already calls
    check_collision.  outgoing_publish must treat such an id as taken: the store into outgoing_pub is reached only over
    the false edge of a test on outgoing_rel as well."""
    rule = "R-C07-unique"
    pre = dict((v[0], v[1]) for v in VERSIONS)[ver]
    body = prog.one("^" + re.escape(pre) + r"outgoing_publish$")
    from .c15 import switch_on_call_result
    rel = switch_on_call_result(body, r"FixedBitSet::contains$", "outgoing_rel")
    stores = []
    for bi, b in enumerate(body.blocks):
        if b.get("cleanup"):
            continue
        for st in b["s"]:
            if "lhs" in st and st["lhs"]["l"] == 1 and "outgoing_pub" in [x.split(".")[-1] for x in place_fields(st["lhs"])]:
                stores.append((bi, st))
        t = b["t"]
        if t["k"] == "call" and re.search(r"IndexMut<.*>>::index_mut$", callee_path(t)) and (receiver_fields(body, t) or [None])[-1] == "outgoing_pub":
            stores.append((bi, {"sp": t.get("sp")}))
    if not stores:
        raise AnchorMissing("outgoing_publish (%s): the store into outgoing_pub was not found" % ver)
    ok = bool(rel) and all(any(dominates(body, r[2], bi) for r in rel) for bi, _ in stores)
    if ok:
        ctx.ok(rule, body.id, "a publish is stored under an id only if no release is pending on it (outgoing_rel tested)", site=body.loc(stores[0][1].get("sp")))
    else:
        ctx.violation(rule, body.id, "id of a pending release reused",
                      "outgoing_publish tests only outgoing_pub[pkid] before it uses an id: a QoS 2 publish that has received PUBREC has left outgoing_pub but holds its id (outgoing_rel, inflight) until PUBCOMP, "
                      "so a wrapped-around publish goes out under the same id while that exchange is unfinished — two unacknowledged publishes share an id and their PUBREC/PUBCOMP cannot be told apart",
                      site=body.loc(stores[0][1].get("sp")))
