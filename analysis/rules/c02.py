"""C02 — client never loses an accepted QoS1/2 publish across acks and reconnects (DESIGN §4 C02)."""
import re
from ..core import *
from .client import *

CRATES = ("rumqttc",)
EXPLANATION = (
    "Static decision on the MIR of /repo's working tree (rumqttc v4 and v5): "
    "(R-C02-drain) every field of MqttState that can hold an accepted publish (type mentions Publish) or a pending release (outgoing_rel) is drained by MqttState::clean() into the returned requests; "
    "(R-C02-collision-siblings) each of the four places that turn check_collision()'s result into an outgoing Packet::Publish performs the full effect set of the reference site "
    "(store into outgoing_pub, inflight += 1, announce Outgoing::Publish, reset collision_ping_count), and takes the collision only on a path that sends it; "
    "(R-C02-record-before-send) in outgoing_publish every path that returns Packet::Publish for QoS>0 stored a copy in outgoing_pub first, and the only path that keeps the publish without sending it stores it in `collision`; "
    "(R-C02-clean-on-error) in EventLoop::poll the Err edge of select() passes through EventLoop::clean, every path of which moves MqttState::clean()'s packets into `pending` (their position in the queue is R-C11-first); "
    "(R-C02-cancel-safe) in next_request (a select! arm) no await point is reachable after pending.pop_front(), so a cancelled poll cannot drop a carried-over request; "
    "(R-C02-reason-class) the v5 ack handlers take their refusal path only for reason codes outside the MQTT 5 success class of the packet type; "
    "(R-C02-release-roles) outgoing_pub / outgoing_rel are emptied only by the PUBACK/PUBREC/PUBCOMP handlers and clean(). "
    "R-C02-drain also demands a complete walk: no narrowing adapter (take/skip/step_by/filter/sub-slice) between a holder field and the drained requests, and both halves of a split used. "
    "NOT decided: loss at specific crash points of the byte stream, framed-buffer contents at failure, broker-side session semantics.")
ASSUMPTIONS = ["rustc MIR construction is correct"]
TECHNIQUE = "static analysis: type-driven field inventory + provenance into the drained requests, sibling effect-set comparison, must-pass rules, who-may-write"
LEVEL_TEXT = ("Decides for all ack orders and failure points expressible as code paths that an accepted QoS>0 publish always has a home that clean() drains, and that every resend path records what it sends. "
              "Byte-level crash points are not decided.")
LEVEL_NOTE = "Trusted: rustc MIR."


def run(ctx):
    prog = ctx.progs["rumqttc"]
    for ver in ("v4", "v5"):
        ctx.guarded("R-C02-drain", drain, ctx, prog, ver)
        ctx.guarded("R-C02-collision-siblings", siblings, ctx, prog, ver)
        ctx.guarded("R-C02-collision-guard", collision_guard, ctx, prog, ver)
        ctx.guarded("R-C02-record-before-send", record, ctx, prog, ver)
        ctx.guarded("R-C02-clean-on-error", clean_on_error, ctx, prog, ver)
        ctx.guarded("R-C02-release-roles", roles, ctx, prog, ver)
        ctx.guarded("R-C02-cancel-safe", cancel_safe, ctx, prog, ver)
    ctx.guarded("R-C02-reason-class", reason_class, ctx, prog)


NARROWING = re.compile(r"Iterator::(take|skip|take_while|skip_while|step_by|filter|nth|last|find|position|min|max)$"
                       r"|as std::iter::Iterator>::(nth|last)$"
                       r"|std::iter::(Take|Skip|TakeWhile|SkipWhile|StepBy|Filter)<"
                       r"|::(index|index_mut|get|get_mut|get_unchecked|get_unchecked_mut|first|first_mut|last_mut|truncate|chunks|chunks_mut|windows|split_off|pop|pop_front|pop_back)$")


def src_chains(srcs, acc=()):
    """(call paths from the value back to the leaf, leaf) for every leaf of a provenance forest"""
    for s_ in srcs:
        if s_.kind == "call":
            if getattr(s_, "inner", None):
                yield from src_chains(s_.inner, acc + (s_.path,))
            else:
                yield acc + (s_.path,), s_
        elif s_.kind == "op":
            for a in s_.args:
                yield from src_chains(a, acc)
        else:
            yield acc, s_


def _stmt_places(st):
    out = []
    def walk(x):
        if isinstance(x, dict):
            if "l" in x and isinstance(x.get("l"), int):
                out.append(x)
            for v in x.values():
                walk(v)
        elif isinstance(x, list):
            for v in x:
                walk(v)
    walk(st)
    return out


def drain(ctx, prog, ver):
    rule = "R-C02-drain"
    adt = "state::MqttState" if ver == "v4" else "v5::state::MqttState"
    a = prog.adts.get(adt)
    if not a:
        raise AnchorMissing("struct %s not found" % adt)
    holders = [f["n"] for f in a["variants"][0]["fields"] if re.search(r"\bPublish\b", f["ty"])] + ["outgoing_rel"]
    ctx.floor(rule, "publish-holding fields of %s" % adt, len(holders), 3)
    clean = state_fn(prog, ver, "clean")
    bodies = [clean] + [b for b in prog.A.values() if b.root == clean.id]
    found = {}
    for b in bodies:
        for blk in b.blocks:
            for st in blk["s"]:
                if "lhs" in st and st["rv"]["k"] == "agg" and st["rv"].get("adt", "").endswith("Request") and st["rv"]["var"] in ("Publish", "PubRel"):
                    for o in st["rv"]["ops"]:
                        for s in flatten_src(provenance(b, o, through_calls=[r"."])):
                            for f in (getattr(s, "fields", None) or []):
                                f = f.split(".")[-1]
                                if f in holders:
                                    found[f] = b.loc(st.get("sp"))
    # complete walk: the iteration that carries a holder's entries into the requests must not be narrowed
    # (Iterator::take/skip/step_by/filter.., a sub-slice, get()/first()/last()); a split must have both halves walked.
    # Packet ids of replayed publishes come from EARLIER connections, so no bound of the current one covers them.
    for b in bodies:
        for blk in b.blocks:
            for st in blk["s"]:
                if "lhs" in st and st["rv"]["k"] == "agg" and st["rv"].get("adt", "").endswith("Request") and st["rv"]["var"] in ("Publish", "PubRel"):
                    for o in st["rv"]["ops"]:
                        for chain, leaf in src_chains(provenance(b, o, through_calls=[r"."])):
                            fs = [x.split(".")[-1] for x in (getattr(leaf, "fields", None) or [])]
                            hit = [f for f in fs if f in holders]
                            if not hit:
                                continue
                            narrowed = [c for c in chain if NARROWING.search(c)]
                            if narrowed:
                                ctx.violation(rule, clean.id, "field %s drained only in part" % hit[0],
                                              "MqttState::clean() walks %s through %s: entries outside that part stay behind in the state (never retransmitted) although ids of replayed publishes were handed out under an earlier connection's limits" % (hit[0], narrowed[0]),
                                              site=b.loc(st.get("sp")))
                            else:
                                ctx.ok(rule, clean.id, "field %s is walked completely (%d adapters, none narrowing)" % (hit[0], len(chain)), site=b.loc(st.get("sp")))
        for bb, t in b.calls():
            if b.is_cleanup(bb) or not re.search(r"::split_at(_mut)?$|::split_(first|last)(_mut)?$", callee_path(t)):
                continue
            fs = [x.split(".")[-1] for x in (receiver_fields(b, t) or [])]
            if not fs or fs[-1] not in holders:
                continue
            dest = t["dest"]["l"]
            used = set()
            for blk in b.blocks:
                if blk.get("cleanup"):
                    continue
                for st in blk["s"]:
                    for pl in _stmt_places(st):
                        if pl["l"] == dest:
                            pf = place_fields(pl)
                            if pf:
                                used.add(pf[0])
            if {"0", "1"} <= used:
                ctx.ok(rule, clean.id, "both halves of the split of %s are walked" % fs[-1], site=b.loc(t.get("sp")))
            else:
                ctx.violation(rule, clean.id, "half of the split of %s not walked" % fs[-1],
                              "MqttState::clean() splits %s and uses only part(s) %s of the result" % (fs[-1], sorted(used)), site=b.loc(t.get("sp")))
    for f in holders:
        if f in found:
            ctx.ok(rule, clean.id, "field %s is drained into the pending requests" % f, site=found[f])
        else:
            ctx.violation(rule, clean.id, "field %s not drained" % f,
                          "MqttState.%s can hold an accepted publish/release but MqttState::clean() does not move it into the returned requests: it is neither retransmitted nor released after a connection failure" % f,
                          site=clean.fn_loc())


def collision_guard(ctx, prog, ver):
    """R-C02-collision-guard: check_collision removes the parked publish from `collision` only on the
    edge where its packet id equals the acknowledged id (an ack for another id must leave it parked)"""
    rule = "R-C02-collision-guard"
    body = state_fn(prog, ver, "check_collision")
    bodies = [body] + [b for b in prog.A.values() if b.root == body.id]
    takes = []
    for b in bodies:
        for bb, t in b.calls():
            if b.is_cleanup(bb):
                continue
            fs = [x.split(".")[-1].lstrip("^") for x in (receiver_fields(b, t) or [])]
            if callee_path(t).endswith("Option::<T>::take") and fs[-1:] == ["collision"]:
                takes.append((b, bb, t))
    if not takes:
        ctx.violation(rule, body.id, "no take", "check_collision never takes the parked publish: a collision can never be resolved", site=body.fn_loc())
        return
    for b, bb, t in takes:
        dom = dominators(b)
        guarded = False
        for bi, blk in enumerate(b.blocks):
            tt = blk["t"]
            if tt["k"] != "switch" or blk.get("cleanup") or bi not in dom.get(bb, ()):
                continue
            l = op_local(tt["on"])
            d = single_def(b, l) if l is not None else None
            if d and d[2] == "assign" and d[3]["rv"]["k"] == "bin" and d[3]["rv"]["op"] in ("Eq", "Ne"):
                srcs = flatten_src(provenance(b, d[3]["rv"]["a"])) + flatten_src(provenance(b, d[3]["rv"]["b"]))
                has_param = any(s.kind == "param" and s.l == 2 and not s.fields for s in srcs)
                has_pkid = any(getattr(s, "fields", None) and s.fields[-1] == "pkid" for s in srcs)
                zero = [x for v, x in tt["targets"] if v == 0]
                edge = tt["otherwise"] if d[3]["rv"]["op"] == "Eq" else (zero[0] if zero else None)
                if has_param and has_pkid and edge is not None and edge in dom.get(bb, ()):
                    guarded = True
        if guarded and b is body:
            ctx.ok(rule, body.id, "collision.take() only on the `publish.pkid == pkid` edge", site=b.loc(t.get("sp")))
        else:
            ctx.violation(rule, body.id, "collision taken for any ack",
                          "check_collision takes the parked publish out of `collision` before (or without) comparing its packet id with the acknowledged id: an ack for a different id drops the parked publish",
                          site=b.loc(t.get("sp")))


def collision_sites(prog, ver):
    """[(body, call_bb, region_bodies_blocks)] for each check_collision call outside check_collision itself"""
    out = []
    for body in state_fns(prog, ver):
        for bb, t in body.calls():
            if callee_path(t).endswith("MqttState::check_collision") and not body.is_cleanup(bb):
                out.append((body, bb, t))
    return out


def region_effects(prog, body, blocks):
    eff = set()
    for b in blocks:
        blk = body.blocks[b]
        t = blk["t"]
        if t["k"] == "call":
            cp = callee_path(t)
            fs = [x.split(".")[-1] for x in (receiver_fields(body, t) or [])]
            if re.search(r"IndexMut<I>>::index_mut$", cp) and fs[-1:] == ["outgoing_pub"]:
                eff.add("store outgoing_pub[pkid]")
        for st in blk["s"]:
            if "lhs" not in st:
                continue
            if st["rv"]["k"] == "bin" and st["rv"]["op"] in ("AddWithOverflow", "Add"):
                pl = op_place(st["rv"]["a"])
                if pl is not None and [x.split(".")[-1] for x in place_fields(pl)][-1:] == ["inflight"]:
                    eff.add("inflight += 1")
            if [x.split(".")[-1] for x in place_fields(st["lhs"])][-1:] == ["collision_ping_count"] and st["rv"]["k"] == "use":
                k = op_const(st["rv"]["a"])
                if k is not None and k.get("v") == 0:
                    eff.add("collision_ping_count = 0")
    for (bb, kind, var) in events_pushes(body):
        if bb in blocks and var == "Publish":
            eff.add("announce Outgoing::Publish")
    return eff


REQUIRED = {"store outgoing_pub[pkid]", "inflight += 1", "announce Outgoing::Publish", "collision_ping_count = 0"}


def siblings(ctx, prog, ver):
    rule = "R-C02-collision-siblings"
    sites = collision_sites(prog, ver)
    # v4: PUBACK and PUBCOMP handlers; v5: the resend_collision helper both handlers call
    ctx.floor(rule, "check_collision consumers (%s)" % ver, len(sites), {"v4": 2, "v5": 1}[ver])
    if ver == "v5":
        callers = sorted({b.name for b in state_fns(prog, ver) for _, t in b.calls() if callee_path(t).endswith("MqttState::resend_collision")})
        for need in ("handle_incoming_puback", "handle_incoming_pubcomp", "handle_incoming_pubrec"):
            if need in callers:
                ctx.ok(rule, "v5::state::MqttState::" + need, "resolves a parked collision through resend_collision")
            elif not any(callee_path(t).endswith("MqttState::check_collision") for _, t in state_fn(prog, ver, need).calls()):
                ctx.violation(rule, "v5::state::MqttState::" + need, "collision never resolved", "%s frees packet ids but no longer re-sends a publish parked on them" % need)
    for body, bb, t in sites:
        dest = t["dest"]["l"]
        # consumer A: Option::map(result, closure)
        eff = None
        where = None
        for bb2, t2 in body.calls():
            if callee_path(t2).endswith("Option::<T>::map") and op_local(t2["args"][0]) == dest:
                for s in flatten_src(provenance(body, t2["args"][1])):
                    cb = prog.A.get(getattr(s, "adt", None))
                    if cb is not None:
                        eff = region_effects(prog, cb, reachable(cb, (0,)))
                        where = cb
        if eff is None:
            # consumer B: `if let Some(publish) = self.check_collision(..) { .. }`
            for s in discr_switches(body, r"option::Option$"):
                if s[4]["l"] == dest:
                    some_t = variant_target(s, "Some")
                    dom = dominators(body)
                    region = {b for b in reachable(body, (some_t,)) if some_t in dom.get(b, ())}
                    eff = region_effects(prog, body, region)
                    where = body
        if eff is None:
            # consumer C: `let publish = self.check_collision(..)?;` (Option `?`) in a helper
            from .c05 import try_ok_edge
            e = try_ok_edge(body, bb)
            if e and e[1] is not None:
                dom = dominators(body)
                region = {b for b in reachable(body, (e[1],)) if e[1] in dom.get(b, ())}
                eff = region_effects(prog, body, region)
                where = body
        if eff is None:
            ctx.violation(rule, body.id, "collision result unused", "the publish returned by check_collision is neither mapped nor matched: it is dropped", site=body.loc(t.get("sp")))
            continue
        missing = sorted(REQUIRED - eff)
        if missing:
            ctx.violation(rule, body.id, "collision resend incomplete",
                          "the parked publish is re-sent without: %s (the reference site, the PUBACK handler, does all four): it goes out on the wire but is not held for retransmission / not counted in the window" % ", ".join(missing),
                          site=body.loc(t.get("sp")))
        else:
            ctx.ok(rule, body.id, "collision resend performs the full effect set", site=body.loc(t.get("sp")))
        # the collision is taken only on a path that sends it: no Err return reachable after the take
        errs = set()
        for bi, blk in enumerate(body.blocks):
            for st in blk["s"]:
                if "lhs" in st and st["lhs"]["l"] == 0 and st["rv"]["k"] == "agg" and st["rv"].get("var") == "Err":
                    errs.add(bi)
        after = reachable_after(body, [bb])
        if errs & after:
            ctx.violation(rule, body.id, "collision taken before validation",
                          "check_collision() removes the parked publish before the handler has validated the ack: on the error path that follows the publish is dropped",
                          site=body.loc(t.get("sp")))
        else:
            ctx.ok(rule, body.id, "no error exit after the collision was taken", site=body.loc(t.get("sp")))


def record(ctx, prog, ver):
    rule = "R-C02-record-before-send"
    body = state_fn(prog, ver, "outgoing_publish")
    pk = [p[0] for p in returned_packets(body) if p[1] == "Publish"]
    stores = [bb for bb, t in body.calls() if re.search(r"IndexMut<I>>::index_mut$", callee_path(t)) and [x.split(".")[-1] for x in (receiver_fields(body, t) or [])][-1:] == ["outgoing_pub"]]
    # the QoS test: `publish.qos != QoS::AtMostOnce`
    qos_edges = []
    for bb, t in body.calls():
        if re.search(r"PartialEq.*::(ne|eq)$", callee_path(t)):
            srcs = [s for a in t["args"] for s in flatten_src(provenance(body, a))]
            if any(getattr(s, "fields", None) and s.fields[-1] == "qos" for s in srcs):
                sw = t.get("t")
                st = body.blocks[sw]["t"]
                if st["k"] == "switch":
                    zero = [x for v, x in st["targets"] if v == 0]
                    if zero:
                        # `ne`: false edge = AtMostOnce
                        qos_edges.append((sw, zero[0] if callee_path(t).endswith("ne") else st["otherwise"]))
    if not pk or not stores or not qos_edges:
        raise AnchorMissing("outgoing_publish (%s): Packet::Publish / outgoing_pub store / QoS test not found (%d/%d/%d)" % (ver, len(pk), len(stores), len(qos_edges)))
    r = reachable(body, (0,), avoid_blocks=stores, avoid_edges=qos_edges)
    if set(pk) & r:
        ctx.violation(rule, body.id, "QoS>0 publish sent unrecorded", "a path returns Packet::Publish for a QoS>0 message without first storing it in outgoing_pub: it cannot be retransmitted", site=body.fn_loc())
    else:
        ctx.ok(rule, body.id, "every QoS>0 path stores the publish in outgoing_pub before returning it")
    # Ok(None) only after parking in collision
    nones = []
    for bi, blk in enumerate(body.blocks):
        for st in blk["s"]:
            if "lhs" in st and st["lhs"]["l"] == 0 and st["rv"]["k"] == "agg" and st["rv"].get("var") == "Ok":
                src = flatten_src(provenance(body, st["rv"]["ops"][0]))
                if any(s.kind == "agg" and s.var == "None" for s in src):
                    nones.append(bi)
    parks = []
    for bi, blk in enumerate(body.blocks):
        for st in blk["s"]:
            if "lhs" in st and [x.split(".")[-1] for x in place_fields(st["lhs"])][-1:] == ["collision"]:
                parks.append(bi)
    if nones and parks and all(any(dominates(body, p, n) for p in parks) for n in nones):
        ctx.ok(rule, body.id, "the only path that keeps the publish without sending it parks it in `collision`")
    elif nones:
        ctx.violation(rule, body.id, "publish swallowed", "outgoing_publish can return Ok(None) without parking the publish in `collision`: the accepted message disappears", site=body.fn_loc())
    release_recorded(ctx, prog, ver)


def release_recorded(ctx, prog, ver):
    """a PUBREL that goes on the wire (answer to PUBREC, or a replayed Request::PubRel) is first recorded in
    `outgoing_rel` under its own packet id — that set is what clean() turns back into PubRel requests"""
    rule = "R-C02-record-before-send"

    def rel_inserts(body):
        out = []
        for bb, t in body.calls():
            if body.is_cleanup(bb) or not callee_path(t).endswith("FixedBitSet::insert"):
                continue
            fs = [x.split(".")[-1] for x in (receiver_fields(body, t) or [])]
            if fs[-1:] != ["outgoing_rel"]:
                continue
            src = flatten_src(provenance(body, t["args"][1]))
            own = bool(src) and all((getattr(s, "fields", None) and s.fields[-1] == "pkid") or (s.kind == "call" and s.path.endswith("MqttState::next_pkid")) for s in src)
            out.append((bb, own))
        return out
    # replay path: outgoing_pubrel -> save_pubrel
    sp = state_fn(prog, ver, "save_pubrel")
    ins = rel_inserts(sp)
    oks = [bi for bi, b in enumerate(sp.blocks) if not b.get("cleanup") for st in b["s"]
           if "lhs" in st and st["lhs"]["l"] == 0 and st["rv"]["k"] == "agg" and st["rv"].get("var") == "Ok"]
    if not oks:
        raise AnchorMissing("save_pubrel (%s): Ok return not found" % ver)
    if ins and all(o for _, o in ins) and not (reachable(sp, (0,), avoid_blocks=[b for b, _ in ins]) & set(oks)):
        ctx.ok(rule, sp.id, "every Ok path records the release in outgoing_rel under the PUBREL's own packet id")
    else:
        ctx.violation(rule, sp.id, "replayed PUBREL unrecorded",
                      "save_pubrel can return Ok without inserting the PUBREL's packet id into outgoing_rel: a replayed release is sent but not tracked, so a second failure loses it and its PUBCOMP is rejected as unsolicited",
                      site=sp.fn_loc())
    op = state_fn(prog, ver, "outgoing_pubrel")
    saves = [bb for bb, t in op.calls() if callee_path(t).endswith("MqttState::save_pubrel") and not op.is_cleanup(bb)]
    rels = [bb for bb, v in returned_packets(op) if v == "PubRel"]
    if saves and rels and all(any(dominates(op, s, r) for s in saves) for r in rels):
        ctx.ok(rule, op.id, "Packet::PubRel is returned only after save_pubrel")
    else:
        ctx.violation(rule, op.id, "PUBREL sent without save_pubrel", "outgoing_pubrel returns Packet::PubRel on a path that does not pass save_pubrel", site=op.fn_loc())
    # answer to PUBREC
    hp = state_fn(prog, ver, "handle_incoming_pubrec")
    ins = rel_inserts(hp)
    rels = [bb for bb, v in returned_packets(hp) if v == "PubRel"]
    if not rels:
        raise AnchorMissing("handle_incoming_pubrec (%s): Packet::PubRel construction not found" % ver)
    if ins and all(o for _, o in ins) and not (reachable(hp, (0,), avoid_blocks=[b for b, _ in ins]) & set(rels)):
        ctx.ok(rule, hp.id, "Packet::PubRel is built only after outgoing_rel.insert(pubrec.pkid)")
    else:
        ctx.violation(rule, hp.id, "PUBREL sent unrecorded", "handle_incoming_pubrec answers with PUBREL on a path that did not record the release in outgoing_rel under the PUBREC's packet id", site=hp.fn_loc())


def clean_on_error(ctx, prog, ver):
    rule = "R-C02-clean-on-error"
    pre = dict((v[0], v[2]) for v in VERSIONS)[ver]
    poll = prog.one("^" + re.escape(pre) + r"poll::\{closure#0\}$")
    sel = [bb for bb, t in poll.calls() if callee_path(t).endswith("EventLoop::select") and not poll.is_cleanup(bb)]
    cl = [bb for bb, t in poll.calls() if callee_path(t).endswith("EventLoop::clean") and not poll.is_cleanup(bb)]
    if not sel:
        raise AnchorMissing("poll (%s): call to select() not found" % ver)
    dom = dominators(poll)
    err_t = None
    for s in discr_switches(poll, r"result::Result$"):
        if sel[0] in dom.get(s[0], ()) and variant_target(s, "Err") is not None:
            if err_t is None or len(dom[s[0]]) < len(dom[err_t[0]]):
                err_t = (s[0], variant_target(s, "Err"))
    rets = return_blocks(poll)
    if err_t and cl and not (reachable(poll, (err_t[1],), avoid_blocks=cl) & set(rets)):
        ctx.ok(rule, poll.id, "the Err edge of select() passes through EventLoop::clean")
    else:
        ctx.violation(rule, poll.id, "error without clean", "poll() can return select()'s error without EventLoop::clean(): unacknowledged publishes stay in the state instead of being queued for retransmission", site=poll.fn_loc())
    c = prog.one("^" + re.escape(pre) + "clean$")
    behind, merged, stores, channel = clean_shape(prog, c)
    # delivery only needs the packets to end up in `pending` on every path (their position is C11's rule)
    sinks = [bb for bb, t in behind] + (stores if merged else [])
    rets_c = return_blocks(c)
    if sinks and not (reachable(c, (0,), avoid_blocks=sinks) & set(rets_c)):
        ctx.ok(rule, c.id, "every path of EventLoop::clean moves MqttState::clean()'s packets into `pending`")
    else:
        ctx.violation(rule, c.id, "retransmissions not queued", "EventLoop::clean can return without moving the state's unacknowledged packets into `pending`", site=c.fn_loc())


def roles(ctx, prog, ver):
    rule = "R-C02-release-roles"
    allowed = {"handle_incoming_puback", "handle_incoming_pubrec", "handle_incoming_pubcomp", "clean", "new"}
    n = 0
    for body in state_fns(prog, ver):
        root = prog.A.get(body.root) if body.root else body
        fname = (root.name if root is not None else body.name) or body.name
        for bb, t in body.calls():
            if body.is_cleanup(bb):
                continue
            cp = callee_path(t)
            fs = [x.split(".")[-1] for x in (receiver_fields(body, t) or [])]
            kind = None
            if cp.endswith("FixedBitSet::set") and fs[-1:] == ["outgoing_rel"]:
                kind = "outgoing_rel.set"
            elif cp.endswith("FixedBitSet::clear") and fs[-1:] == ["outgoing_rel"]:
                kind = "outgoing_rel.clear"
            elif cp.endswith("Option::<T>::take"):
                src = flatten_src(provenance(body, t["args"][0], through_calls=[r"."]))
                if any("outgoing_pub" in [x.split(".")[-1] for x in (getattr(s, "fields", None) or [])] for s in src):
                    kind = "outgoing_pub[..].take"
            if kind:
                n += 1
                if fname in allowed:
                    ctx.ok(rule, body.id, kind, site=body.loc(t.get("sp")), trivial=True)
                else:
                    ctx.violation(rule, body.id, kind, "a stored publish / pending release is removed outside the ack handlers and clean()", site=body.loc(t.get("sp")))
    ctx.floor(rule, "removal sites (%s)" % ver, n, 4)
    ctx.ok(rule, dict((v[0], v[1]) for v in VERSIONS)[ver] + "*", "%d removal sites, all in ack handlers / clean" % n)


def cancel_safe(ctx, prog, ver):
    """next_request() is one arm of the event loop's select!: its future is dropped whenever another arm
    completes first.  A request taken out of `pending` must therefore be returned in the same poll — no await
    point (yield in the pre-lowering MIR) may be reachable after `pending.pop_front()`."""
    rule = "R-C02-cancel-safe"
    pre = dict((v[0], v[2]) for v in VERSIONS)[ver]
    nr = prog.one("^" + re.escape(pre) + r"next_request::\{closure#0\}$")
    pops = [bb for bb, t in nr.calls() if re.search(r"VecDeque::<T, A>::(pop_front|pop_back|remove|drain|swap_remove_front|swap_remove_back)$", callee_path(t)) and not nr.is_cleanup(bb)]
    yields = [bi for bi, b in enumerate(nr.blocks) if b["t"]["k"] == "yield" and not b.get("cleanup")]
    if not pops or not yields:
        raise AnchorMissing("next_request (%s): pop_front / await points not found (%d/%d)" % (ver, len(pops), len(yields)))
    late = sorted(set(yields) & reachable_after(nr, pops))
    if late:
        ctx.violation(rule, nr.id, "await after pending.pop_front()",
                      "next_request awaits after it has taken a request out of `pending`: when another select! arm wins during that await the future is dropped together with the request, so an unacknowledged publish / release of the old session is never retransmitted",
                      site=nr.loc(nr.blocks[late[0]]["t"].get("sp")))
    else:
        ctx.ok(rule, nr.id, "no await point is reachable after pending.pop_front() (%d await points, all before)" % len(yields), site=nr.loc(nr.blocks[pops[0]]["t"].get("sp")))


# MQTT 5 reason codes below 0x80 are successes: for PUBACK / PUBREC these are Success (0x00) and
# NoMatchingSubscribers (0x10); PUBREL / PUBCOMP have Success only below 0x80.
SUCCESS_CLASS = {"handle_incoming_puback": {"Success", "NoMatchingSubscribers"}, "handle_incoming_pubrec": {"Success", "NoMatchingSubscribers"},
                 "handle_incoming_pubrel": {"Success"}, "handle_incoming_pubcomp": {"Success"}}


def reason_class(ctx, prog):
    """v5 ack handlers branch to their 'the broker refused' path (which drops the publish / ends the flow) only for
    reason codes outside the success class: the set of reason variants the handler compares against before that
    path equals the success codes of the packet type (a PUBREC with NoMatchingSubscribers is a normal PUBREC)."""
    import json as _json
    rule = "R-C02-reason-class"
    for fn, want in sorted(SUCCESS_CLASS.items()):
        b = state_fn(prog, "v5", fn)
        got = set()
        for bb, t in b.calls():
            if b.is_cleanup(bb) or not re.search(r"PartialEq.*::(ne|eq)$", callee_path(t)):
                continue
            srcs = [x for a in t["args"] for x in flatten_src(provenance(b, a))]
            if not any(getattr(x, "fields", None) and x.fields[-1] == "reason" for x in srcs):
                continue
            for x in srcs:
                if x.kind == "const" and x.promoted is not None:
                    pb = prog.promoted.get((b.id, x.promoted))
                    if pb:
                        got.update(re.findall(r'"var": "(\w+)"', _json.dumps(pb.raw["blocks"])))
        if not got:
            ctx.anchor_missing(rule, "%s (v5): no comparison of the packet's reason code found" % fn)
        elif got == want:
            ctx.ok(rule, b.id, "reason codes treated as success: %s" % sorted(got), site=b.fn_loc())
        else:
            ctx.violation(rule, b.id, "success class of reason codes",
                          "%s treats %s as the non-failure reason codes, MQTT 5 defines %s for this packet: a successful acknowledgement is handled as a refusal (the flow is ended and its release is never sent / retransmitted) or a refusal as success"
                          % (fn, sorted(got), sorted(want)), site=b.fn_loc())
