"""C15 — retained messages: latest per topic on new subscription, cleared by empty (DESIGN §4 C15)."""
import re
from ..core import *
from . import matchroles

EXPLANATION = (
    "Static decision on the MIR of /repo's working tree: (R-C15-store) in append_to_commitlog and append_will_message (siblings): a retained publish with an empty payload (and only a retained one) leads to remove_from_retained_publishes, "
    "otherwise retain leads to insert_to_retained_publishes with a copy taken before `publish.retain = false`, and that assignment dominates the append loop (live forwards are not flagged retained); "
    "(R-C15-oneshot) read_retained_messages is called only in forward_device_data under request.forward_retained and every path from the call clears the flag; a new DataRequest's forward_retained is group.is_none(); "
    "a DataRequest is built only when connection.subscriptions.insert() reported a new filter; retained forwards carry no log cursor. "
    "(R-C15-window) the list of retained messages replayed to a new subscription is truncated to a length derived from the subscriber's window (Outgoing::free_slots / max_outgoing_packet_count) only; "
    "(R-C15-match) read_retained_messages passes the retained map's key (a topic) as matches()'s topic argument and the subscription filter as its filter argument; "
    "(R-C15-expiry) the expiry sweep of read_retained_messages only decides what to keep: it does not store into a retained message (remaining interval) unless it re-bases the stored timestamp with it; "
    "R-C15-match also demands that the scan of the retained table is narrowed by the topic match only (no take/skip before the filter). "
    "NOT decided: 'most recent per topic' over publish histories; the retain flag on the wire (C04).")
ASSUMPTIONS = ["rustc MIR construction is correct"]
TECHNIQUE = "static analysis: edge-restricted dominance and must-pass rules, provenance, sibling agreement"
LEVEL_TEXT = "Decides the store/clear/one-shot structure of retained handling on all paths of the two append functions and the forwarder; value-level 'latest message' is not decided."
LEVEL_NOTE = "Trusted: rustc MIR."


def run(ctx):
    prog = ctx.progs["rumqttd"]
    ctx.guarded("R-C15-store", store, ctx, prog)
    ctx.guarded("R-C15-oneshot", oneshot, ctx, prog)
    ctx.guarded("R-C15-window", window, ctx, prog)
    ctx.guarded("R-C15-expiry", reads_do_not_age, ctx, prog)
    ctx.guarded("R-C15-oneshot", unsubscribed_means_new_again, ctx, prog)
    ctx.guarded("R-C15-match", scan_is_complete, ctx, prog)
    ctx.guarded("R-C15-match", matchroles.check, ctx, "R-C15-match", prog, r"^router::logs::DataLog::read_retained_messages$", "retained replay for a new subscription")


def scan_is_complete(ctx, prog):
    """read_retained_messages walks the broker-wide retained table; only the topic match may leave an entry out.
    A take/skip/step_by placed on the table's iterator (before the match) bounds the whole table in hash order, not
    the matching entries: with more retained topics than the bound a new subscription misses matching ones."""
    from .c02 import src_chains
    rule = "R-C15-match"
    parent = prog.one(r"^router::logs::DataLog::read_retained_messages$")
    narrow = re.compile(r"Iterator::(take|skip|take_while|skip_while|step_by|nth|last|find)$")
    n = 0
    for bb, t in parent.calls():
        if parent.is_cleanup(bb) or not narrow.search(callee_path(t)):
            continue
        chains = list(src_chains(provenance(parent, t["args"][0], through_calls=[r"."])))
        for chain, leaf in chains:
            fs = [x.split(".")[-1] for x in (getattr(leaf, "fields", None) or [])]
            if "retained_publishes" in fs and not any(re.search(r"Iterator::(filter|filter_map)$", c) for c in chain):
                n += 1
                ctx.violation(rule, parent.id, "retained table bounded before the match",
                              "read_retained_messages applies %s to the iterator over the whole retained table before the topic match: entries beyond the bound (in hash order) are never considered, a new subscription misses matching retained messages" % callee_path(t).split("::")[-1],
                              site=parent.loc(t.get("sp")))
    if not n:
        ctx.ok(rule, parent.id, "the scan of the retained table is narrowed by the topic match only", site=parent.fn_loc())


def window(ctx, prog):
    """'provided those fit in its delivery window': the replayed retained messages are cut to the subscriber's
    window (free inflight slots / configured batch), not to some other number — shared with R-C09-bound"""
    from . import c09
    from .common import Relabel
    view = Relabel(ctx, "R-C15-window", lambda fn, inst: "retained truncate" in inst)
    c09.bound(view, prog)
    ctx.floor("R-C15-window", "verdicts about the retained truncate length", view.kept, 1)


def switch_on_call_result(body, callee_regex, recv_field=None):
    """[(switch_bb, true_target, false_target, call_bb)] for `if <call>(..)`"""
    out = []
    for bb, t in body.calls():
        if body.is_cleanup(bb) or not re.search(callee_regex, callee_path(t)):
            continue
        if recv_field is not None:
            fs = receiver_fields(body, t)
            if not fs or fs[-1] != recv_field:
                continue
        dest = t["dest"]["l"]
        for bi, b in enumerate(body.blocks):
            tt = b["t"]
            if tt["k"] != "switch" or b.get("cleanup"):
                continue
            l = op_local(tt["on"])
            neg = False
            hops = 0
            while l is not None and l != dest and hops < 4:
                d = single_def(body, l)
                if d and d[2] == "assign" and d[3]["rv"]["k"] == "use":
                    l = op_local(d[3]["rv"]["a"])
                elif d and d[2] == "assign" and d[3]["rv"]["k"] == "un" and d[3]["rv"]["op"] == "Not":
                    neg = not neg; l = op_local(d[3]["rv"]["a"])
                else:
                    l = None
                hops += 1
            if l == dest:
                zero = [x for v, x in tt["targets"] if v == 0]
                if zero:
                    tr, fa = tt["otherwise"], zero[0]
                    if neg:
                        tr, fa = fa, tr
                    out.append((bi, tr, fa, bb))
    return out


def store(ctx, prog):
    rule = "R-C15-store"
    from .c08 import bool_switch_on_field
    shapes = []
    for fn in ("append_to_commitlog", "append_will_message"):
        body = prog.one(r"^router::routing::%s$" % fn)
        dom = dominators(body)
        empties = switch_on_call_result(body, r"bytes::Bytes::is_empty$", "payload")
        removes = [bb for bb, t in body.calls() if callee_path(t).endswith("DataLog::remove_from_retained_publishes") and not body.is_cleanup(bb)]
        inserts = [bb for bb, t in body.calls() if callee_path(t).endswith("DataLog::insert_to_retained_publishes") and not body.is_cleanup(bb)]
        appends = [bb for bb, t in body.calls() if callee_path(t).endswith("Data::<T>::append") and not body.is_cleanup(bb)]
        retain_sw = bool_switch_on_field(body, "retain")
        retain_writes = []
        for bi, b in enumerate(body.blocks):
            if b.get("cleanup"):
                continue
            for st in b["s"]:
                if "lhs" in st and place_fields(st["lhs"])[-1:] == ["retain"] and st["rv"]["k"] == "use":
                    k = op_const(st["rv"]["a"])
                    if k is not None and k.get("v") == 0:
                        retain_writes.append(bi)
        okc = True
        why = []
        if len(empties) != 1 or len(removes) != 1 or len(inserts) != 1 or not retain_sw or len(retain_writes) != 1 or not appends:
            ctx.violation(rule, body.id, "retained shape", "expected one payload.is_empty() test, one remove, one insert, one `retain = false` and an append loop (found %d/%d/%d/%d/%d)" % (
                len(empties), len(removes), len(inserts), len(retain_writes), len(appends)), site=body.fn_loc())
            continue
        sw_bb, t_empty, t_nonempty, _ = empties[0]
        rsw, t_retain, t_noretain = retain_sw[0]
        rw = retain_writes[0]
        # retained & empty payload → remove, never insert
        if not (dominates(body, t_empty, removes[0]) and inserts[0] not in reachable(body, (t_empty,), avoid_blocks=(rw,))):
            okc = False; why.append("empty payload does not lead to remove_from_retained_publishes only")
        if not dominates(body, t_retain, removes[0]):
            okc = False; why.append("remove_from_retained_publishes is not under `publish.retain`: a NON-retained publish with an empty payload wipes the topic's retained message, and new subscriptions no longer get it")
        # retained & non-empty → insert
        if not (dominates(body, t_nonempty, inserts[0]) and dominates(body, t_retain, inserts[0])):
            okc = False; why.append("insert_to_retained_publishes is not under `!payload.is_empty() && publish.retain`")
        # retain = false after the store, before every append
        if inserts[0] in reachable_after(body, [rw]) or rsw in reachable_after(body, [rw]):
            okc = False; why.append("`publish.retain = false` happens before the retained copy is taken / the retain flag is tested")
        if not all(dominates(body, rw, a) for a in appends):
            okc = False; why.append("`publish.retain = false` does not dominate the append loop (live forwards would carry the retain flag)")
        # the stored copy is a clone of the publish
        it = body.blocks[inserts[0]]["t"]
        src = flatten_src(provenance(body, it["args"][1]))
        if not any(s.kind == "call" and s.path.endswith("Clone>::clone") for s in src):
            okc = False; why.append("the retained copy is not a clone of the publish")
        shapes.append((fn, okc))
        if okc:
            ctx.ok(rule, body.id, "empty→remove; retain→insert(clone) before `retain = false`; `retain = false` dominates the appends", site=body.fn_loc())
        else:
            ctx.violation(rule, body.id, "retained store", "; ".join(why), site=body.fn_loc())
    ctx.floor(rule, "append functions analysed", len(shapes), 2)
    # only these two (and DataLog itself) touch the retained store
    for name in ("insert_to_retained_publishes", "remove_from_retained_publishes"):
        callers = sorted({b.id for b, bb, t in call_sites(prog, r"DataLog::%s$" % name)})
        if set(callers) <= {"router::routing::append_to_commitlog", "router::routing::append_will_message"} and callers:
            ctx.ok(rule, "router::logs::DataLog::" + name, "called only from the two append functions")
        else:
            ctx.violation(rule, "router::logs::DataLog::" + name, "callers", "the retained store is modified from %s" % callers)


def oneshot(ctx, prog):
    rule = "R-C15-oneshot"
    from .c08 import bool_switch_on_field
    callers = sorted({b.id for b, bb, t in call_sites(prog, r"DataLog::read_retained_messages$")})
    if callers == ["router::routing::forward_device_data"]:
        ctx.ok(rule, "router::logs::DataLog::read_retained_messages", "only caller is forward_device_data")
    else:
        ctx.violation(rule, "router::logs::DataLog::read_retained_messages", "callers", "retained messages are read from %s" % callers)
    f = prog.one(r"^router::routing::forward_device_data$")
    reads = [bb for bb, t in f.calls() if callee_path(t).endswith("DataLog::read_retained_messages") and not f.is_cleanup(bb)]
    sws = bool_switch_on_field(f, "forward_retained")
    clears = []
    for bi, b in enumerate(f.blocks):
        if b.get("cleanup"):
            continue
        for st in b["s"]:
            if "lhs" in st and place_fields(st["lhs"])[-1:] == ["forward_retained"] and st["rv"]["k"] == "use":
                k = op_const(st["rv"]["a"])
                if k is not None and k.get("v") == 0:
                    clears.append(bi)
    if len(reads) == 1 and sws and clears:
        if dominates(f, sws[0][1], reads[0]) and must_pass(f, reads, return_blocks(f), via_blocks=clears):
            ctx.ok(rule, f.id, "retained replay only under request.forward_retained, and the flag is cleared on every path after it", site=f.loc(f.blocks[reads[0]]["t"].get("sp")))
        else:
            ctx.violation(rule, f.id, "replay not one-shot", "read_retained_messages is not guarded by forward_retained, or a path after it leaves forward_retained set (retained messages would be replayed again)", site=f.loc(f.blocks[reads[0]]["t"].get("sp")))
    else:
        ctx.violation(rule, f.id, "replay shape", "expected one read_retained_messages under a test of forward_retained with a clearing assignment (found reads=%d tests=%d clears=%d)" % (len(reads), len(sws), len(clears)), site=f.fn_loc())
    # retained forwards carry cursor None
    none_map = False
    for bb, t in f.calls():
        if f.is_cleanup(bb) or not callee_path(t).endswith("Iterator::map"):
            continue
        src = flatten_src(provenance(f, t["args"][0], through_calls=[r"into_iter$"]))
        if not any(s.kind == "call" and s.path.endswith("read_retained_messages") for s in src):
            continue
        for c in flatten_src(provenance(f, t["args"][1])):
            cb = prog.A.get(getattr(c, "adt", None))
            if cb is None:
                continue
            for b in cb.blocks:
                for st in b["s"]:
                    if "lhs" in st and st["lhs"]["l"] == 0 and st["rv"]["k"] == "agg" and st["rv"].get("ak") == "tuple" and len(st["rv"]["ops"]) == 2:
                        s2 = flatten_src(provenance(cb, st["rv"]["ops"][1]))
                        if s2 and all(x.kind == "agg" and x.adt == "std::option::Option" and x.var == "None" for x in s2):
                            none_map = True
    if none_map:
        ctx.ok(rule, f.id, "retained publishes are forwarded with cursor None")
    else:
        ctx.violation(rule, f.id, "retained cursor", "retained publishes are no longer paired with a None cursor (they would rewind the session on retransmission)", site=f.fn_loc())
    # prepare_filter
    p = prog.one(r"^router::routing::Router::prepare_filter$")
    ins = switch_on_call_result(p, r"HashSet::<T, S, A>::insert$", "subscriptions")
    n = 0
    for bi, b in enumerate(p.blocks):
        for st in b["s"]:
            if "lhs" in st and st["rv"]["k"] == "agg" and st["rv"].get("adt") == "router::DataRequest":
                n += 1
                fr = st["rv"]["ops"][st["rv"]["fields"].index("forward_retained")]
                src = flatten_src(provenance(p, fr))
                if src and all(s.kind == "call" and s.path.endswith("Option::<T>::is_none") for s in src):
                    grp = flatten_src(provenance(p, src[0].term["args"][0]))
                    if any(s.kind == "param" and s.l == 6 for s in grp):
                        ctx.ok(rule, p.id, "DataRequest.forward_retained = group.is_none()", site=p.loc(st.get("sp")))
                    else:
                        ctx.violation(rule, p.id, "forward_retained source", "forward_retained is is_none() of something other than the group parameter", site=p.loc(st.get("sp")))
                else:
                    ctx.violation(rule, p.id, "forward_retained source", "a new DataRequest's forward_retained is not `group.is_none()` (shared subscriptions would replay retained messages)", site=p.loc(st.get("sp")))
                if ins and dominates(p, ins[0][1], bi):
                    ctx.ok(rule, p.id, "DataRequest built only when subscriptions.insert() reported a new filter", site=p.loc(st.get("sp")))
                else:
                    ctx.violation(rule, p.id, "re-subscription replays", "a DataRequest (with forward_retained) is created even when the filter was already subscribed", site=p.loc(st.get("sp")))
    ctx.floor(rule, "DataRequest constructions", n, 1)


def reads_do_not_age(ctx, prog):
    """read_retained_messages runs for EVERY new subscription and walks the whole retained map. It may discard what has
    expired, but it must not write the remaining message-expiry interval back into the stored copy while the stored
    timestamp stays the arrival time: the next read would subtract the whole age again, and a retained message would
    be discarded long before its interval has passed (it is then missing for the next new subscription)."""
    rule = "R-C15-expiry"
    parent = prog.one(r"^router::logs::DataLog::read_retained_messages$")
    closures = prog.find(r"^router::logs::DataLog::read_retained_messages::\{closure#\d+\}$")
    # the closure handed to HashMap::retain over retained_publishes: (&K, &mut V) after the environment
    walkers = []
    for bb, t in parent.calls():
        if re.search(r"HashMap::<K, V, S(, A)?>::retain$", callee_path(t)) and not parent.is_cleanup(bb):
            fs = receiver_fields(parent, t)
            if fs and fs[-1] == "retained_publishes":
                for a in t["args"][1:]:
                    for s in flatten_src(provenance(parent, a)):
                        if s.kind == "agg" and any(c.id == s.adt for c in closures):
                            walkers += [c for c in closures if c.id == s.adt]
    if not walkers:
        # no expiry sweep over the stored map at all: nothing is written back
        muts = [t for bb, t in parent.calls() if re.search(r"HashMap::<K, V, S(, A)?>::(values_mut|iter_mut|get_mut|entry)$", callee_path(t)) and not parent.is_cleanup(bb)]
        if muts:
            raise AnchorMissing("read_retained_messages: the stored retained messages are reached mutably in a way this rule does not know (%s)" % callee_path(muts[0]))
        ctx.ok(rule, parent.id, "read_retained_messages does not reach the stored retained messages mutably", site=parent.fn_loc())
        return
    TH = [r"Option::<T>::as_mut$", r"Option::<T>::unwrap$", r"Option::<T>::as_deref_mut$"]
    for cb in walkers:
        stored = cb.argc      # last parameter: &mut V
        written = {}
        for bi, b in enumerate(cb.blocks):
            if b.get("cleanup"):
                continue
            for st in b["s"]:
                if "lhs" not in st or "*" not in [p for p in st["lhs"].get("p", []) if isinstance(p, str)]:
                    continue
                base = st["lhs"]["l"]
                own = [x.split(".")[-1] for x in place_fields(st["lhs"])]
                if base == stored:
                    written[(own or ["*"])[-1]] = st
                    continue
                for s in flatten_src(provenance(cb, {"m": {"l": base}}, through_calls=TH)):
                    if s.kind == "param" and s.l == stored:
                        written[(own or list(s.fields or ["*"]))[-1]] = st
        # compound assignment on a non-primitive (`pubdata.timestamp += ..`) is a call taking `&mut field`
        for bb, t in cb.calls():
            if cb.is_cleanup(bb) or not re.search(r"Assign(<[^>]*>)?>::\w+_assign$", callee_path(t)):
                continue
            for x in flatten_src(provenance(cb, t["args"][0], through_calls=TH)):
                if x.kind == "param" and x.l == stored:
                    written[(list(x.fields or ["*"]))[-1]] = {"sp": t.get("sp")}
        if not written:
            ctx.ok(rule, cb.id, "the expiry sweep over retained_publishes only decides what to keep: nothing is written into a stored message", site=cb.fn_loc())
        elif "timestamp" in written:
            ctx.ok(rule, cb.id, "the stored interval is re-based together with the stored timestamp", site=cb.fn_loc())
        else:
            st = list(written.values())[0]
            ctx.violation(rule, cb.id, "stored retained message aged by a read",
                          "the sweep in read_retained_messages writes into %s of the STORED retained message (remaining = interval − age) while its timestamp stays the arrival time: every later read — any new subscription on any filter — subtracts the whole age again, "
                          "so the message is discarded well before its message-expiry interval has passed and the next new subscription does not get it" % sorted(written),
                          site=cb.loc(st.get("sp")))


def unsubscribed_means_new_again(ctx, prog):
    """'new subscription or repeat' is decided by connection.subscriptions.insert(): a subscription made after an
    UNSUBSCRIBE is new again (and replays retained messages) only if the UNSUBSCRIBE took the filter out of that set —
    shared with R-C01-unsubscribe"""
    from . import c01
    from .common import Relabel
    view = Relabel(ctx, "R-C15-oneshot", lambda fn, inst: "connection.subscriptions" in inst)
    c01.unsubscribe(view, prog)
    ctx.floor("R-C15-oneshot", "verdicts about UNSUBSCRIBE removing the filter from connection.subscriptions", view.kept, 1)
