"""C08 — broker persistent sessions resume without losing subscriptions or messages (DESIGN §4 C08)."""
import re
from ..core import *
from .c03 import slab_field, liveness_check

EXPLANATION = (
    "Static decision on the MIR of /repo's working tree: (R-C08-save) in handle_disconnection, on the persistent (!connection.clean) edge the waiters returned by DataLog::clean(id) are re-registered in the tracker, "
    "that re-registration dominates the rewind loop (so parked requests are rewound as well), the tracker's requests are rewound from Outgoing::retransmission_map() before Graveyard::save_state, and save_state receives the removed connection's tracker, subscriptions and unacked_pubrels; "
    "every path past the removal ends in save_state or save_metrics; "
    "(R-C08-cursor) the log offset recorded per outgoing packet id is the forwarded item's own: native_readv's entries keep item.1, Forward.cursor is the item's offset, "
    "push_forwards records (assigned pkid, filter_idx, p.cursor), and retransmission_map keeps the first cursor per filter; "
    "(R-C08-restore) in handle_new_connection ConnAck.session_present = !clean_session && <saved session exists>, the tracker handed to the scheduler is the saved one only on the !clean_session edge "
    "(Tracker::new on the clean edge), the restoring closure puts back subscriptions and unacked_pubrels, and the restored subscriptions are entered into subscription_map under the new connection id and the client is put back (SharedGroup::add_client on shared_subscriptions) into the shared groups handle_disconnection took it out of; "
    "(R-C08-single-home) the graveyard map is written only by save_state / save_metrics / retrieve. "
    "NOT decided: that the rewound cursor is the oldest unacknowledged one (value), delivery of messages accepted while away, retention.")
ASSUMPTIONS = ["rustc MIR construction is correct"]
TECHNIQUE = "static analysis: edge-restricted dominance/must-pass rules, provenance of saved/restored state, who-may-write"
LEVEL_TEXT = "Decides on the code shape that session state is saved completely on every persistent disconnect path and restored only for non-clean connects; value-level cursor correctness is not decided."
LEVEL_NOTE = "Trusted: rustc MIR. The clean/persistent edges are found structurally from reads of Connection.clean / the clean_session local."


def run(ctx):
    prog = ctx.progs["rumqttd"]
    ctx.guarded("R-C08-save", save, ctx, prog)
    ctx.guarded("R-C08-cursor", cursor_chain, ctx, prog)
    ctx.guarded("R-C08-cursor", head_kept_on_mismatch, ctx, prog)
    ctx.guarded("R-C08-restore", restore, ctx, prog)
    ctx.guarded("R-C08-single-home", single_home, ctx, prog)


def _bool_const_side(rv):
    """('a'|'b', 0|1) when one operand of a binary rvalue is a boolean constant"""
    for side in ("a", "b"):
        k = op_const(rv[side])
        if k is not None and k.get("v") in (0, 1) and (k.get("s") in ("true", "false", "const true", "const false") or True):
            return side, k["v"]
    return None


def bool_switch_on_field(body, field):
    """[(switch_bb, target_when_field_true, target_when_field_false)] for switches whose
    discriminant is (the negation of) a read of `<..>.field`"""
    out = []
    for bi, b in enumerate(body.blocks):
        t = b["t"]
        if t["k"] != "switch" or b.get("cleanup"):
            continue
        l = op_local(t["on"])
        neg = False
        hops = 0
        src = None
        while l is not None and hops < 5:
            d = single_def(body, l)
            if not d or d[2] != "assign":
                break
            rv = d[3]["rv"]
            if rv["k"] == "un" and rv["op"] == "Not":
                neg = not neg
                l = op_local(rv["a"])
                pl = op_place(rv["a"])
                if pl is not None and pl.get("p"):
                    src = pl; break
            elif rv["k"] == "use":
                pl = op_place(rv["a"])
                if pl is not None and pl.get("p"):
                    src = pl; break
                l = op_local(rv["a"])
            elif rv["k"] == "bin" and rv["op"] in ("Eq", "Ne") and _bool_const_side(rv) is not None:
                # `flag == true`, `flag != false`, ... spelled out
                side, val = _bool_const_side(rv)
                if (rv["op"] == "Eq") != bool(val):
                    neg = not neg
                other = rv["b" if side == "a" else "a"]
                pl = op_place(other)
                if pl is not None and pl.get("p"):
                    src = pl; break
                l = op_local(other)
            else:
                break
            hops += 1
        if src is None:
            continue
        fs = place_fields(src)
        if not fs or fs[-1] != field:
            continue
        zero = [x for v, x in t["targets"] if v == 0]
        if not zero:
            continue
        t_true, t_false = t["otherwise"], zero[0]
        if neg:
            t_true, t_false = t_false, t_true
        out.append((bi, t_true, t_false))
    return out


def save(ctx, prog):
    rule = "R-C08-save"
    body = prog.one(r"^router::routing::Router::handle_disconnection$")
    sws = bool_switch_on_field(body, "clean")
    if len(sws) != 1:
        raise AnchorMissing("handle_disconnection: expected one branch on connection.clean, found %d" % len(sws))
    sbb, t_clean, t_persist = sws[0]
    dom = dominators(body)
    region = {b for b in reachable(body, (t_persist,)) if t_persist in dom.get(b, ())}

    def calls_in(regex, reg=None):
        return [(bb, t) for bb, t in body.calls() if re.search(regex, callee_path(t)) and not body.is_cleanup(bb) and (reg is None or bb in reg)]
    saves = calls_in(r"Graveyard::save_state$", region)
    if len(saves) != 1:
        ctx.violation(rule, body.id, "save_state on the persistent edge", "expected exactly one Graveyard::save_state on the !connection.clean edge, found %d" % len(saves), site=body.fn_loc())
        return
    sv_bb, sv = saves[0]
    # (1) waiters re-registered
    cleans = calls_in(r"DataLog::clean$")
    reg_ok = False
    reg_bbs = []
    for bb, t in calls_in(r"Iterator::for_each$", region):
        src = flatten_src(provenance(body, t["args"][0], through_calls=[r"IntoIterator::into_iter$|into_iter$"]))
        from_clean = any(s.kind == "call" and s.path.endswith("DataLog::clean") for s in src)
        clos = [s for s in flatten_src(provenance(body, t["args"][1])) if s.kind == "agg"]
        calls_reg = False
        for c in clos:
            cb = prog.A.get(c.adt)
            if cb and any(callee_path(t2).endswith("Tracker::register_data_request") for _, t2 in cb.calls()):
                calls_reg = True
        if from_clean and calls_reg and dominates(body, bb, sv_bb):
            reg_ok = True
            reg_bbs.append(bb)
    if reg_ok:
        ctx.ok(rule, body.id, "waiters returned by DataLog::clean are re-registered in the tracker before save_state")
    else:
        ctx.violation(rule, body.id, "parked requests not saved",
                      "on the persistent edge the DataRequests parked in waiters (DataLog::clean result) are not re-registered in the tracker before it is saved: those subscriptions would not resume",
                      site=body.loc(sv.get("sp")))
    # (2) rewind from retransmission_map before save_state
    rmap = calls_in(r"Outgoing::retransmission_map$")
    gets = [(bb, t) for bb, t in calls_in(r"HashMap::<K, V, S, A>::get$", region)
            if any(s.kind == "call" and s.path.endswith("retransmission_map") for s in flatten_src(provenance(body, t["args"][0])))]
    cursor_writes = []
    for bi in region:
        for st in body.blocks[bi]["s"]:
            if "lhs" in st and place_fields(st["lhs"])[-1:] == ["cursor"] and "DataRequest" in body.local_ty(st["lhs"]["l"]):
                cursor_writes.append(bi)
    it = calls_in(r"VecDeque::<T, A>::iter_mut$", region)
    if rmap and gets and cursor_writes and it and all(dominates(body, i[0], sv_bb) for i in it):
        ctx.ok(rule, body.id, "requests are rewound from Outgoing::retransmission_map() before save_state")
    else:
        ctx.violation(rule, body.id, "no rewind",
                      "the saved tracker's cursors are not rewound to the oldest unacknowledged forward (retransmission_map) before save_state", site=body.loc(sv.get("sp")))
    # (2b) the rewind must see every request: parked requests are put back before the rewind loop starts
    if reg_bbs and it:
        if all(dominates(body, r, i[0]) for r in reg_bbs for i in it):
            ctx.ok(rule, body.id, "parked requests are re-registered before the rewind loop, so they are rewound too")
        else:
            ctx.violation(rule, body.id, "rewind before re-registration",
                          "the rewind loop over tracker.data_requests runs before the parked (caught-up) requests are put back: those keep their advanced cursor and unacknowledged forwards on their filters are not re-sent after resume",
                          site=body.loc(body.blocks[it[0][0]]["t"].get("sp")))
    # (3) save_state arguments
    def from_removed(op, field, fieldname):
        src = flatten_src(provenance(body, op))
        for s in src:
            if s.kind == "call" and re.search(r"slab::Slab::<T>::remove$|Scheduler::remove$", s.path):
                f = "trackers" if s.path.endswith("Scheduler::remove") else slab_field(body, s.term)
                if f == field and (fieldname is None or (s.fields and s.fields[-1] == fieldname)):
                    ks = flatten_src(provenance(body, s.term["args"][1]))
                    if ks and all(k.kind == "param" and k.l == 2 for k in ks):
                        return True
        return False
    checks = [("tracker", 1, "trackers", None), ("subscriptions", 2, "connections", "subscriptions"), ("unacked_pubrels", 4, "obufs", "unacked_pubrels")]
    for name, argi, slab, fld in checks:
        if from_removed(sv["args"][argi], slab, fld):
            ctx.ok(rule, body.id, "save_state(%s) is the removed connection's own %s" % (name, name), site=body.loc(sv.get("sp")))
        else:
            ctx.violation(rule, body.id, "save_state " + name, "Graveyard::save_state does not receive the %s of the connection being removed" % name, site=body.loc(sv.get("sp")))
    # (4) every path past the removal ends in save_state or save_metrics
    removes = [bb for bb, t in body.calls() if re.search(r"^slab::Slab::<T>::remove$", callee_path(t)) and slab_field(body, t) and not body.is_cleanup(bb)]
    homes = [bb for bb, t in calls_in(r"Graveyard::(save_state|save_metrics)$")]
    if removes and must_pass(body, removes, return_blocks(body), via_blocks=homes):
        ctx.ok(rule, body.id, "every path after the removal saves state or metrics in the graveyard")
    else:
        ctx.violation(rule, body.id, "removal without save", "a path removes the connection and returns without Graveyard::save_state / save_metrics", site=body.fn_loc())
    # clean edge does not save session state
    clean_region = {b for b in reachable(body, (t_clean,)) if t_clean in dom.get(b, ())}
    if calls_in(r"Graveyard::save_state$", clean_region):
        ctx.violation(rule, body.id, "clean session saved", "a clean-session connection's state is saved as a session", site=body.fn_loc())
    else:
        ctx.ok(rule, body.id, "clean edge saves metrics only")


def restore(ctx, prog):
    rule = "R-C08-restore"
    body = prog.one(r"^router::routing::Router::handle_new_connection$")
    # the stored session is looked up AFTER a takeover has put the replaced connection's session into the graveyard,
    # and only on paths that go on to register the new connection (a refused CONNECT must not consume it)
    retr = [bb for bb, t in body.calls() if callee_path(t).endswith("Graveyard::retrieve") and not body.is_cleanup(bb)]
    takeover = [bb for bb, t in body.calls() if callee_path(t).endswith("Router::handle_disconnection") and not body.is_cleanup(bb)]
    inserts = [bb for bb, t in body.calls() if re.search(r"^slab::Slab::<T>::insert$", callee_path(t)) and not body.is_cleanup(bb)]
    if len(retr) != 1:
        raise AnchorMissing("handle_new_connection: expected one Graveyard::retrieve, found %d" % len(retr))
    if set(takeover) & reachable_after(body, retr):
        ctx.violation(rule, body.id, "session looked up before the takeover saved it",
                      "Graveyard::retrieve runs before the takeover's handle_disconnection: on a client-id takeover the replaced connection's session is not in the graveyard yet, the new connection starts without it (session_present = false, no subscriptions, nothing re-sent) and the old session is left behind",
                      site=body.loc(body.blocks[retr[0]]["t"].get("sp")))
    else:
        ctx.ok(rule, body.id, "the takeover's handle_disconnection cannot run after Graveyard::retrieve", site=body.loc(body.blocks[retr[0]]["t"].get("sp")))
    if inserts and not (reachable_after(body, retr, avoid_blocks=tuple(inserts)) & set(return_blocks(body))):
        ctx.ok(rule, body.id, "every path from Graveyard::retrieve registers the connection (no refusal consumes the stored session)")
    else:
        ctx.violation(rule, body.id, "stored session consumed by a refused connect",
                      "a path takes the stored session out of the graveyard and returns without registering the connection (e.g. the max_connections refusal): the session is lost", site=body.loc(body.blocks[retr[0]]["t"].get("sp")))
    # a resumed session's subscriptions are registered under the NEW connection id in the filter -> subscribers map
    # (handle_disconnection took the old id out): otherwise the subscription cannot be given up again
    slab_ins = [(bb, t) for bb, t in body.calls() if re.search(r"^slab::Slab::<T>::insert$", callee_path(t)) and not body.is_cleanup(bb)]
    reg = False
    for bb, t in body.calls():
        if body.is_cleanup(bb) or not re.search(r"HashSet::<T, S(, A)?>::insert$", callee_path(t)):
            continue
        recv = flatten_src(provenance(body, t["args"][0], through_calls=[r"Entry::<'a, K, V(, A)?>::or_default$", r"Entry::<'a, K, V(, A)?>::or_insert(_with)?$", r"HashMap::<K, V, S(, A)?>::(entry|get_mut)$", r"Option::<T>::unwrap$"]))
        in_map = any(getattr(x, "fields", None) and x.fields[-1] == "subscription_map" for x in recv)
        val = flatten_src(provenance(body, t["args"][1]))
        new_id = bool(val) and all(x.kind == "call" and x.path.endswith("Slab::<T>::insert") for x in val)
        if in_map and new_id:
            reg = True
    if reg:
        ctx.ok(rule, body.id, "restored subscriptions are entered into subscription_map under the new connection id")
    else:
        ctx.violation(rule, body.id, "restored subscriptions not registered under the new id",
                      "handle_new_connection restores a session's subscriptions into the connection and tracker but never enters the new connection id into subscription_map (handle_disconnection removed the old one): "
                      "an UNSUBSCRIBE of the resumed client is answered NoSubscriptionExisted and the subscription stays in force", site=body.fn_loc())
    # ... and so is its membership of shared groups: handle_disconnection takes the client out of every group, the
    # restored data requests still name theirs
    dis = prog.one(r"^router::routing::Router::handle_disconnection$")
    leaves = [b2.id for b2 in [dis] + prog.find(r"^router::routing::Router::handle_disconnection::\{closure#\d+\}$")
              for bb, t in b2.calls() if callee_path(t).endswith("SharedGroup::remove_client") and not b2.is_cleanup(bb)]
    if not leaves:
        raise AnchorMissing("handle_disconnection: SharedGroup::remove_client not found (group membership of a closed connection)")
    joined = False
    for b2 in [body] + prog.find(r"^router::routing::Router::handle_new_connection::\{closure#\d+\}$"):
        for bb, t in b2.calls():
            if b2.is_cleanup(bb) or not callee_path(t).endswith("SharedGroup::add_client"):
                continue
            recv = flatten_src(provenance(b2, t["args"][0], through_calls=[r"Entry::<'a, K, V(, A)?>::or_default$", r"Entry::<'a, K, V(, A)?>::or_insert(_with)?$", r"HashMap::<K, V, S(, A)?>::(entry|get_mut)$", r"Option::<T>::unwrap$"]))
            if any(getattr(x, "fields", None) and "shared_subscriptions" in x.fields[-1] for x in recv):
                joined = True
    if joined:
        ctx.ok(rule, body.id, "a resumed session is put back into the shared groups its restored requests name")
    else:
        ctx.violation(rule, body.id, "restored shared subscriptions not re-joined",
                      "handle_disconnection removes the client from every shared group (%s) and handle_new_connection restores the session's data requests, which still name their group, without SharedGroup::add_client: "
                      "the resumed client is never the group's current client again (its subscription is dead while other members exist) and, once the group is gone, reads from its own stale cursor what other members already received" % leaves[0],
                      site=body.fn_loc())
    # ConnAck.session_present
    found = False
    for bi, b in enumerate(body.blocks):
        for st in b["s"]:
            if "lhs" in st and st["rv"]["k"] == "agg" and st["rv"].get("adt") == "protocol::ConnAck":
                found = True
                i = st["rv"]["fields"].index("session_present")
                top = provenance(body, st["rv"]["ops"][i])
                leaves = flatten_src(top)

                def under_not(srcs, neg=False):
                    """yield (leaf, negated?)"""
                    for s in srcs:
                        if s.kind == "op":
                            n2 = (not neg) if s.name == "Not" else neg
                            for a in s.args:
                                yield from under_not(a, n2)
                        else:
                            yield s, neg
                items = list(under_not(top))
                has_not_clean = any(neg and s.kind in ("param", "field") and s.fields and s.fields[-1] == "clean" for s, neg in items)
                has_saved = any((not neg) and s.kind == "call" and re.search(r"Option::<T>::is_some_and$|Option::<T>::is_some$", s.path) for s, neg in items)
                is_and = any(s.kind == "op" and s.name in ("BitAnd",) for s in top)
                # `a && b` lowers to control flow: session_present = if !clean { previous } else { false }
                if not is_and:
                    consts = [s for s, neg in items if s.kind == "const"]
                    is_and = has_saved and any(c.v == 0 for c in consts)
                if (has_not_clean or is_and) and has_saved:
                    # with control-flow lowering the !clean test is a dominating switch: check it
                    okc = has_not_clean
                    if not okc:
                        for (sbb, t_true, t_false) in bool_switch_on_field_or_local(body, "clean"):
                            okc = True
                    if okc:
                        ctx.ok(rule, body.id, "session_present = !clean_session && saved session exists", site=body.loc(st.get("sp")))
                        continue
                ctx.violation(rule, body.id, "session_present",
                              "ConnAck.session_present is not `!clean_session && <saved session state exists>` (leaves: %s)" % [(s.kind, getattr(s, "fields", None) or getattr(s, "path", None) or getattr(s, "v", None), neg) for s, neg in items],
                              site=body.loc(st.get("sp")))
    if not found:
        raise AnchorMissing("handle_new_connection: ConnAck construction not found")
    # tracker handed to Scheduler::add
    adds = [(bb, t) for bb, t in body.calls() if callee_path(t).endswith("Scheduler::add") and not body.is_cleanup(bb)]
    if len(adds) != 1:
        raise AnchorMissing("handle_new_connection: expected one Scheduler::add")
    src = flatten_src(provenance(body, adds[0][1]["args"][1]))
    kinds = sorted({s.path.rsplit("::", 1)[-1] for s in src if s.kind == "call"})
    news = [s for s in src if s.kind == "call" and s.path.endswith("Tracker::new")]
    restores = [s for s in src if s.kind == "call" and s.path.endswith("map_or_else")]
    sws = bool_switch_on_field_or_local(body, "clean")
    if not sws or not news or not restores:
        ctx.violation(rule, body.id, "tracker source", "the tracker registered for a new connection is not {Tracker::new on clean, restored-or-new otherwise} (sources: %s)" % kinds, site=body.loc(adds[0][1].get("sp")))
    else:
        sbb, t_clean, t_persist = sws[0]
        dom = dominators(body)
        ok1 = all(t_clean in dom.get(s.bb, ()) for s in news)
        ok2 = all(t_persist in dom.get(s.bb, ()) for s in restores)
        if ok1 and ok2:
            ctx.ok(rule, body.id, "clean edge → Tracker::new; !clean edge → saved tracker (map_or_else)", site=body.loc(adds[0][1].get("sp")))
        else:
            ctx.violation(rule, body.id, "tracker edge", "a clean-session connect can receive the saved tracker, or a persistent one always a fresh tracker", site=body.loc(adds[0][1].get("sp")))
    # the restoring closure
    n = 0
    for cb in prog.find(r"^router::routing::Router::handle_new_connection::\{closure#\d+\}$"):
        if cb.argc >= 2 and "SessionState" in cb.local_ty(2):
            n += 1
            writes = {}
            for b in cb.blocks:
                for st in b["s"]:
                    if "lhs" in st:
                        # closure captures are precise paths: the field is named "^connection.subscriptions"
                        fs = [x.split(".")[-1] for x in place_fields(st["lhs"])]
                        if fs and fs[-1] in ("subscriptions", "unacked_pubrels") and st["lhs"]["l"] == 1:
                            s2 = flatten_src(provenance(cb, st["rv"]["a"])) if st["rv"]["k"] == "use" else []
                            if any(x.kind == "param" and x.l == 2 and x.fields and x.fields[-1] == fs[-1] for x in s2):
                                writes[fs[-1]] = True
            ret = []
            for b in cb.blocks:
                for st in b["s"]:
                    if "lhs" in st and st["lhs"]["l"] == 0 and st["rv"]["k"] == "use":
                        ret += flatten_src(provenance(cb, st["rv"]["a"]))
            ret_ok = any(x.kind == "param" and x.l == 2 and x.fields and x.fields[-1] == "tracker" for x in ret)
            if writes.get("subscriptions") and writes.get("unacked_pubrels") and ret_ok:
                ctx.ok(rule, cb.id, "restores subscriptions, unacked_pubrels and returns the saved tracker")
            else:
                ctx.violation(rule, cb.id, "restore closure", "the session-restoring closure no longer puts back %s" % [k for k in ("subscriptions", "unacked_pubrels") if not writes.get(k)] + ([] if ret_ok else ["tracker"]).__repr__(), site=cb.fn_loc())
    ctx.floor(rule, "session-restoring closures", n, 1)


def bool_switch_on_field_or_local(body, field):
    """like bool_switch_on_field but also through a local copy (`let clean_session = connection.clean`)"""
    out = bool_switch_on_field(body, field)
    if out:
        return out
    # locals that copy the field
    copies = set()
    for b in body.blocks:
        for st in b["s"]:
            if "lhs" in st and not st["lhs"].get("p") and st["rv"]["k"] == "use":
                pl = op_place(st["rv"]["a"])
                if pl is not None and place_fields(pl)[-1:] == [field]:
                    copies.add(st["lhs"]["l"])
    res = []
    for bi, b in enumerate(body.blocks):
        t = b["t"]
        if t["k"] != "switch" or b.get("cleanup"):
            continue
        l = op_local(t["on"])
        neg = False
        hops = 0
        while l is not None and hops < 5 and l not in copies:
            d = single_def(body, l)
            if not d or d[2] != "assign":
                l = None; break
            rv = d[3]["rv"]
            if rv["k"] == "un" and rv["op"] == "Not":
                neg = not neg; l = op_local(rv["a"])
            elif rv["k"] == "use":
                l = op_local(rv["a"])
            elif rv["k"] == "bin" and rv["op"] in ("Eq", "Ne") and _bool_const_side(rv) is not None:
                side, val = _bool_const_side(rv)
                if (rv["op"] == "Eq") != bool(val):
                    neg = not neg
                l = op_local(rv["b" if side == "a" else "a"])
            else:
                l = None
            hops += 1
        if l in copies:
            zero = [x for v, x in t["targets"] if v == 0]
            if zero:
                t_true, t_false = t["otherwise"], zero[0]
                if neg:
                    t_true, t_false = t_false, t_true
                res.append((bi, t_true, t_false))
    return res


def single_home(ctx, prog):
    rule = "R-C08-single-home"
    n = 0
    for body in prog.A.values():
        for bb, t in body.calls():
            if body.is_cleanup(bb):
                continue
            if "router::graveyard::SavedState" not in t["fn"].get("ga", ""):
                continue
            name = callee_path(t).rsplit("::", 1)[-1]
            if not callee_path(t).startswith("std::collections::HashMap::") or name not in ("insert", "remove", "clear", "retain", "drain", "entry", "get_mut", "iter_mut", "values_mut", "extend"):
                continue
            n += 1
            if re.search(r"router::graveyard::Graveyard::(save_state|save_metrics|retrieve|update_group_cursor)$", body.id):
                ctx.ok(rule, body.id, "graveyard.%s" % name, site=body.loc(t.get("sp")))
            else:
                ctx.violation(rule, body.id, "graveyard.%s" % name, "the saved-session map is modified outside save_state / save_metrics / retrieve / update_group_cursor", site=body.loc(t.get("sp")))
    ctx.floor(rule, "graveyard map mutations", n, 3)
    # retrieve() takes the session OUT of the graveyard: only the function that hands it to a new connection may call
    # it (a status query, a metrics tick, ... would silently end a persistent session)
    sites = 0
    for body, bb, t in call_sites(prog, r"router::graveyard::Graveyard::retrieve$"):
        sites += 1
        if re.search(r"^router::routing::Router::handle_new_connection$", body.id):
            ctx.ok(rule, body.id, "Graveyard::retrieve (consuming) called by the session restore", site=body.loc(t.get("sp")))
        else:
            ctx.violation(rule, body.id, "session taken out of the graveyard",
                          "%s calls Graveyard::retrieve, which REMOVES the saved state of a disconnected client, without handing it to a new connection: the persistent session (subscriptions, cursors, unacknowledged state) is gone, "
                          "the client's next connect with clean-session off gets session_present = false and nothing that was accepted while it was away" % body.id,
                          site=body.loc(t.get("sp")))
    ctx.floor(rule, "callers of Graveyard::retrieve", sites, 1)


def cursor_chain(ctx, prog):
    """The rewind on disconnect uses, per packet id, the log offset of the message that was forwarded under
    that id.  That offset travels  Segment/CommitLog::readv (R-C13-tags) -> DataLog::native_readv ->
    Forward.cursor -> Outgoing.inflight_buffer -> retransmission_map.  Each hop must pass on the item's own
    offset (the closure's item parameter / the loop item), never a captured or function-level value."""
    rule = "R-C08-cursor"
    # hop 1: native_readv's map closure keeps the item's offset
    nr = prog.one(r"^router::logs::DataLog::native_readv$")
    hop1 = 0
    for cb in prog.find(r"^router::logs::DataLog::native_readv::\{closure#\d+\}$"):
        if not cb.local_ty(0).startswith("(("):
            continue      # the retain_mut predicate returns bool
        for blk in cb.blocks:
            for st in blk["s"]:
                if "lhs" in st and st["lhs"]["l"] == 0 and not st["lhs"].get("p") and st["rv"]["k"] == "agg" and st["rv"].get("ak") == "tuple" and len(st["rv"]["ops"]) == 2:
                    hop1 += 1
                    src = flatten_src(provenance(cb, st["rv"]["ops"][1]))
                    if src and all(x.kind == "param" and x.l == 2 and x.fields[-1:] == ["1"] for x in src):
                        ctx.ok(rule, cb.id, "native_readv: each entry keeps the offset it was read with (item.1)", site=cb.loc(st.get("sp")))
                    else:
                        ctx.violation(rule, cb.id, "entry offset replaced",
                                      "DataLog::native_readv tags a publish with something other than its own log offset (%s): every message of a sweep gets the same cursor, so the rewind after a partial acknowledgement re-sends acknowledged messages"
                                      % [(x.kind, getattr(x, "l", None), getattr(x, "fields", None)) for x in src], site=cb.loc(st.get("sp")))
    ctx.floor(rule, "tuple-building map closure in native_readv", hop1, 1)
    # hop 2: Forward.cursor is the item's offset
    hop2 = 0
    for cb in prog.find(r"^router::routing::forward_device_data::\{closure#\d+\}$"):
        for blk in cb.blocks:
            for st in blk["s"]:
                if "lhs" in st and st["rv"]["k"] == "agg" and st["rv"].get("adt", "").endswith("router::Forward"):
                    hop2 += 1
                    i = st["rv"]["fields"].index("cursor")
                    src = flatten_src(provenance(cb, st["rv"]["ops"][i], through_calls=[r"Option::Some$"]))
                    if src and all(x.kind == "param" and x.l == 2 for x in src):
                        ctx.ok(rule, cb.id, "Forward.cursor is the forwarded item's own offset", site=cb.loc(st.get("sp")))
                    else:
                        ctx.violation(rule, cb.id, "Forward.cursor source", "Forward.cursor does not derive from the item being forwarded", site=cb.loc(st.get("sp")))
    ctx.floor(rule, "Forward constructions in forward_device_data closures", hop2, 1)
    # hop 2b: the forwards are pushed under the request's own filter index and QoS
    f = prog.one(r"^router::routing::forward_device_data$")
    pfc = [(bb, t) for bb, t in f.calls() if callee_path(t).endswith("Outgoing::push_forwards") and not f.is_cleanup(bb)]
    ctx.floor(rule, "push_forwards calls in forward_device_data", len(pfc), 1)
    for bb, t in pfc:
        for argi, fld in ((2, "qos"), (3, "filter_idx")):
            src = flatten_src(provenance(f, t["args"][argi]))
            if src and all(x.kind == "param" and x.l == 1 and x.fields[-1:] == [fld] for x in src):
                ctx.ok(rule, f.id, "push_forwards(.., %s) is the request's own %s" % (fld, fld), site=f.loc(t.get("sp")))
            else:
                ctx.violation(rule, f.id, "push_forwards %s" % fld, "forward_device_data pushes the forwards under a %s that is not request.%s: the per-filter rewind map is keyed wrongly" % (fld, fld), site=f.loc(t.get("sp")))
    # hop 3: inflight_buffer entry = (pkid just assigned, filter_idx parameter, p.cursor)
    pf = prog.one(r"^router::iobufs::Outgoing::push_forwards$")
    hop3 = 0
    for bb, t in pf.calls():
        if pf.is_cleanup(bb) or not callee_path(t).endswith("VecDeque::<T, A>::push_back"):
            continue
        if [x.split(".")[-1] for x in (receiver_fields(pf, t) or [])][-1:] != ["inflight_buffer"]:
            continue
        for s_ in flatten_src(provenance(pf, t["args"][1])):
            if s_.kind != "agg" or len(s_.rv.get("ops", [])) != 3:
                continue
            hop3 += 1
            o0 = flatten_src(provenance(pf, s_.rv["ops"][0]))
            o1 = flatten_src(provenance(pf, s_.rv["ops"][1]))
            o2 = flatten_src(provenance(pf, s_.rv["ops"][2]))
            ok0 = o0 and all(getattr(x, "fields", None) and x.fields[-1] == "last_pkid" for x in o0)
            ok1 = o1 and all(x.kind == "param" and x.l == 4 and not x.fields for x in o1)
            ok2 = o2 and all(x.kind == "call" and x.path.endswith("Iterator::next") and x.fields[-1:] == ["cursor"] for x in o2)
            if ok0 and ok1 and ok2:
                ctx.ok(rule, pf.id, "inflight entry = (assigned pkid, filter_idx, the forward's own cursor)", site=pf.loc(t.get("sp")))
            else:
                ctx.violation(rule, pf.id, "inflight entry fields", "the (pkid, filter, cursor) entry recorded for an outgoing QoS>0 publish is not (last_pkid, filter_idx, p.cursor): %s/%s/%s" % (ok0, ok1, ok2), site=pf.loc(t.get("sp")))
    ctx.floor(rule, "inflight_buffer.push_back in push_forwards", hop3, 1)
    # hop 4: retransmission_map keeps the FIRST (oldest) cursor per filter
    rm = prog.one(r"^router::iobufs::Outgoing::retransmission_map$")
    from .c15 import switch_on_call_result
    sw = switch_on_call_result(rm, r"HashMap::<K, V, S, A>::contains_key$")
    ins = [bb for bb, t in rm.calls() if callee_path(t).endswith("HashMap::<K, V, S, A>::insert") and not rm.is_cleanup(bb)]
    ent = [bb for bb, t in rm.calls() if re.search(r"Entry::<'a, K, V(, A)?>::or_insert(_with)?$", callee_path(t)) and not rm.is_cleanup(bb)]
    # entries without a log cursor (retained replays) must be skipped BEFORE a filter's slot is claimed
    def is_cursor_elem(srcs):
        # the third element of an inflight_buffer entry (pkid, filter_idx, cursor)
        return any("2" in [str(y) for y in (getattr(x, "fields", None) or [])] for x in srcs)
    somes = [s_ for s_ in discr_switches(rm, r"Option") if variant_target(s_, "Some") is not None and s_[4] and is_cursor_elem(flatten_src(place_provenance(rm, s_[4])))]
    iss = [i_ for i_ in switch_on_call_result(rm, r"Option::<T>::is_some$") if is_cursor_elem(flatten_src(provenance(rm, rm.blocks[i_[3]]["t"]["args"][0])))]
    claim = ins + ent
    cursor_known = bool(claim) and all(any(dominates(rm, variant_target(s_, "Some"), c) for s_ in somes) or any(dominates(rm, i_[1], c) for i_ in iss) for c in claim)
    first_wins = (sw and ins and all(dominates(rm, sw[0][2], i) for i in ins)) or (ent and not ins)
    if first_wins and cursor_known:
        ctx.ok(rule, rm.id, "a filter's entry is claimed only when it has none yet and only by a forward that has a log cursor (oldest unacknowledged log message wins)")
    elif first_wins:
        ctx.violation(rule, rm.id, "retained replay claims the filter's slot", "retransmission_map lets an entry without a log cursor (a retained replay) occupy a filter's slot: the unacknowledged log messages behind it are never re-sent after resume", site=rm.fn_loc())
    else:
        ctx.violation(rule, rm.id, "oldest cursor not kept", "retransmission_map no longer keeps the first (oldest) unacknowledged cursor per filter", site=rm.fn_loc())


def head_kept_on_mismatch(ctx, prog):
    """What the rewind relies on must survive the very event that triggers the disconnect: an out-of-order /
    unsolicited PUBACK, PUBREC or PUBCOMP closes the connection, and for a persistent session the entry at the head of
    inflight_buffer (oldest unacknowledged forward) / unacked_pubrels (oldest pending release) is still unacknowledged.
    It may leave the queue only on the edge where it IS the acknowledged id."""
    rule = "R-C08-cursor"
    for name, field in (("register_ack", "inflight_buffer"), ("register_pubcomp", "unacked_pubrels")):
        b = prog.one(r"^router::iobufs::Outgoing::%s$" % name)
        pops = [bb for bb, t in b.calls() if callee_path(t).endswith("VecDeque::<T, A>::pop_front") and (receiver_fields(b, t) or [None])[-1] == field and not b.is_cleanup(bb)]
        if not pops:
            raise AnchorMissing("%s: pop_front on %s not found" % (name, field))
        is_pkid = lambda ss: any(x.kind == "param" and x.l == 2 for x in ss)
        def is_head(ss, b=b):
            for x in ss:
                if x.kind != "call":
                    continue
                if re.search(r"VecDeque::<T, A>::(front|pop_front|get)$", x.path):
                    return True
                if x.path.endswith("ops::Try>::branch") and any(y.kind == "call" and re.search(r"VecDeque::<T, A>::(front|pop_front|get)$", y.path) for y in flatten_src(provenance(b, x.term["args"][0]))):
                    return True
            return False
        eqs = cmp_switches(b, ("Eq",), is_pkid, is_head) or []
        guarded = bool(eqs) and all(any(dominates(b, e[1], p_) for e in eqs) for p_ in pops)
        if guarded:
            ctx.ok(rule, b.id, "the head of %s is removed only on the edge where it equals the acknowledged id" % field, site=b.fn_loc())
        else:
            ctx.violation(rule, b.id, "head entry discarded by a mismatching ack",
                          "%s pops the head of %s BEFORE comparing it with the acknowledged id: an out-of-order / unsolicited ack (which closes the connection) also throws away the oldest unacknowledged entry, so a persistent session resumes one message (release) later and that one is never re-sent"
                          % (name, field), site=b.loc(b.blocks[pops[0]]["t"].get("sp")))
