"""Shared helpers for the rumqttc (client) properties C02, C07, C10, C11, C18."""
import re
from ..core import *
from ..panics import same_operand, operand_ty

VERSIONS = [("v4", "state::MqttState::", "eventloop::EventLoop::", "framed::Network::"),
            ("v5", "v5::state::MqttState::", "v5::eventloop::EventLoop::", "v5::framed::Network::")]


def state_fn(prog, ver, name):
    pre = dict((v[0], v[1]) for v in VERSIONS)[ver]
    return prog.one("^" + re.escape(pre + name) + "$")


def state_fns(prog, ver):
    pre = dict((v[0], v[1]) for v in VERSIONS)[ver]
    return [b for i, b in prog.A.items() if i.startswith(pre)]


def events_pushes(body):
    """[(bb, kind, variant)] for `self.events.push_back(Event::Incoming|Outgoing(..))` in body
    (including closures are handled by the caller)"""
    out = []
    for bb, t in body.calls():
        if body.is_cleanup(bb) or not callee_path(t).endswith("VecDeque::<T, A>::push_back"):
            continue
        fs = [x.split(".")[-1] for x in (receiver_fields(body, t) or [])]
        if not fs or fs[-1] != "events":
            continue
        kind = var = None
        for s in flatten_src(provenance(body, t["args"][1])):
            if s.kind == "agg" and s.adt.endswith("Event"):
                kind = s.var
                if s.rv["ops"]:
                    for s2 in flatten_src(provenance(s.body, s.rv["ops"][0])):
                        if s2.kind == "agg" and s2.adt.endswith("Outgoing"):
                            var = s2.var
        out.append((bb, kind, var))
    return out


def returned_packets(body):
    """[(bb, variant)] for blocks that build Packet::X wrapped in Some/Ok flowing to the return place"""
    out = []
    for bi, b in enumerate(body.blocks):
        if b.get("cleanup"):
            continue
        for st in b["s"]:
            if "lhs" in st and st["rv"]["k"] == "agg" and st["rv"].get("adt", "").endswith("Packet") and st["rv"].get("ak") == "adt":
                out.append((bi, st["rv"]["var"]))
    return out


def field_op_blocks(body, field, delta):
    """blocks with `self.<field> += 1` (delta=+1) or `-= 1` (delta=-1): checked Add/Sub on the field"""
    out = []
    for bi, b in enumerate(body.blocks):
        if b.get("cleanup"):
            continue
        for st in b["s"]:
            if "lhs" in st and st["rv"]["k"] == "bin" and st["rv"]["op"] in (("AddWithOverflow", "Add") if delta > 0 else ("SubWithOverflow", "Sub")):
                pl = op_place(st["rv"]["a"])
                if pl is not None and [x.split(".")[-1] for x in place_fields(pl)][-1:] == [field]:
                    out.append(bi)
    return out


def guard_index_discharger(prog):
    """C10/C07 discharges for the client state machine:
      * same-index guard: outgoing_pub[i] / outgoing_rel.insert(i) dominated by the Some edge of
        outgoing_pub.get(i)/get_mut(i) on the same index (both tables have max_inflight + 1 slots: R-C10-capacity)
      * contains guard: bitset.set(i, _) dominated by the true edge of bitset.contains(i) on the same set
      * u16 index into the 65536-bit incoming_pub set"""
    def discharge(site):
        if site.kind != "ext":
            return None
        body = site.body
        t = site.term
        name = site.callee.rsplit("::", 1)[-1]
        if name not in ("index_mut", "index", "insert", "set", "put"):
            return None
        fs = [x.split(".")[-1] for x in (receiver_fields(body, t) or [])]
        if not fs:
            return None
        field = fs[-1]
        if len(t["args"]) < 2:
            return None
        idx = t["args"][1]
        dom = dominators(body)
        if field == "incoming_pub" and name in ("insert", "set", "put"):
            # index is a widened u16
            l = op_local(idx)
            d = single_def(body, l) if l is not None else None
            if d and d[2] == "assign" and d[3]["rv"]["k"] == "cast" and (operand_ty(body, d[3]["rv"]["a"]) == "u16"):
                return "u16-index: incoming_pub has u16::MAX + 1 bits (R-C10-capacity) and the index is a u16"
        if field in ("outgoing_pub", "outgoing_rel"):
            for bb, t2 in body.calls():
                if body.is_cleanup(bb) or bb not in dom.get(site.bb, ()):
                    continue
                if not re.search(r"core::slice::<impl \[T\]>::(get|get_mut)$|Vec::<T, A>::(get|get_mut)$", callee_path(t2)):
                    continue
                fs2 = [x.split(".")[-1] for x in (receiver_fields(body, t2) or [])]
                # the receiver is a deref of the Vec
                if not fs2:
                    rsrc = flatten_src(provenance(body, t2["args"][0], through_calls=[r"Deref(Mut)?>::deref(_mut)?$"]))
                    fs2 = [x.split(".")[-1] for s in rsrc for x in (getattr(s, "fields", None) or [])]
                if "outgoing_pub" not in fs2:
                    continue
                if same_operand(body, t2["args"][1], idx):
                    return "same-index guard: dominated by outgoing_pub.get(i) on the same index at %s (tables have equal capacity)" % body.loc(t2.get("sp"))
        if name == "set":
            for bb, t2 in body.calls():
                if body.is_cleanup(bb) or bb not in dom.get(site.bb, ()):
                    continue
                if callee_path(t2).endswith("FixedBitSet::contains") and [x.split(".")[-1] for x in (receiver_fields(body, t2) or [])][-1:] == [field] \
                        and same_operand(body, t2["args"][1], idx):
                    return "contains guard: %s.contains(i) was tested on the same index at %s" % (field, body.loc(t2.get("sp")))
        return None
    return discharge


def clean_shape(prog, c):
    """How EventLoop::clean (body c) moves MqttState::clean()'s packets into `pending`:
    behind  = adders that put them behind the current contents of pending (pending.extend(state.clean()))
    merged  = adders that append the old pending to a queue built from state.clean()
    stores  = blocks storing such a queue back into the field
    channel = adders onto pending whose source is not the state (requests drained from the channel)"""
    CONV = [r"convert::Into<.*>>::into$", r"convert::From<.*>>::from$", r"IntoIterator>::into_iter$", r"Iterator::collect$"]

    def from_state(op):
        return any(s.kind == "call" and s.path.endswith("MqttState::clean") for s in flatten_src(provenance(c, op, through_calls=CONV)))

    def pending_field(op):
        for s in flatten_src(provenance(c, op, through_calls=[r"mem::take$", r"VecDeque::<T, A>::drain$"])):
            f = getattr(s, "fields", None)
            if f and f[-1].split(".")[-1] == "pending":
                return True
        return False
    adders = [(bb, t) for bb, t in c.calls() if not c.is_cleanup(bb) and re.search(r"Extend<T>>::extend$|VecDeque::<T, A>::(append|extend|push_back)$", callee_path(t)) and len(t["args"]) >= 2]
    recv_pending = lambda t: [x.split(".")[-1] for x in (receiver_fields(c, t) or [])][-1:] == ["pending"]
    behind = [(bb, t) for bb, t in adders if recv_pending(t) and from_state(t["args"][1])]
    merged = [(bb, t) for bb, t in adders if from_state(t["args"][0]) and pending_field(t["args"][1])]
    stores = [bi for b_, bi, st_ in field_writes(prog, "pending") if b_.id == c.id and st_["rv"]["k"] == "use" and from_state(st_["rv"]["a"]) and not c.is_cleanup(bi)]
    channel = [bb for bb, t in adders if recv_pending(t) and not from_state(t["args"][1])]
    return behind, merged, stores, channel
