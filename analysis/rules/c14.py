"""C14 — clients are isolated: one client's misbehaviour never disturbs another (DESIGN §4 C14)."""
import re
from ..core import *
from .c03 import slab_field

EXPLANATION = (
    "Static decision on the MIR of /repo's working tree: (R-C14-own-id) every call to handle_disconnection passes either the handler's own envelope id or the connection_map entry of the client id that is connecting (takeover); "
    "every access to the per-connection slabs in handle_device_payload / prepare_filter / consume uses the handler's own id, and Router::events hands its envelope id unchanged to the handlers; "
    "(R-C14-stale) every arm of Router::events that applies the envelope id to per-connection state must be dominated by an identity check that a recycled slab key cannot pass (comparison of a per-connection token carried by the event). "
    "On the pinned tree no arm has one: connection ids are slab keys that are reused immediately, so a late event of an ended link acts on the connection that now owns the key — recorded as known finding F10 per arm. "
    "(R-C14-cache) the router-wide spare packet buffer is emptied (unbounded drain / clear) on every path between Incoming::exchange and its store back into Router.cache, so no packet of one connection is processed under another's id. "
    "(R-C14-select) the four remove-by-key predicates of the router (parked requests by connection id x2, tracker requests by filter, group members by client id) compare with the polarity that acts on the given key only. "
    "(R-C14-purge) on disconnect every parked request of the connection id is removed from every filter's waiters (shared with R-C03-clean), so a recycled id inherits nothing. "
    "Shared premises checked under C03: R-C03-handle, R-C03-align. NOT decided: exactness of a well-behaved client's stream under others' misbehaviour.")
ASSUMPTIONS = ["rustc MIR construction is correct"]
TECHNIQUE = "static analysis: provenance of connection ids at every per-connection access, handler-table extraction of Router::events with a required dominating identity check"
LEVEL_TEXT = "Decides that handlers only touch the state of the id they were invoked for, and reports each event arm that cannot distinguish a recycled id (design-level finding). Stream exactness is not decided."
LEVEL_NOTE = "Trusted: rustc MIR. Known findings in /verif/known_findings.json (F10) are exact keys per event arm."

ID_ARMS = ["DeviceData", "Disconnect", "Ready", "Shadow"]


def run(ctx):
    prog = ctx.progs["rumqttd"]
    ctx.guarded("R-C14-own-id", own_id, ctx, prog)
    ctx.guarded("R-C14-stale", stale, ctx, prog)
    ctx.guarded("R-C14-cache", recycled_buffer, ctx, prog)
    ctx.guarded("R-C14-select", select_by_key, ctx, prog)
    ctx.guarded("R-C14-purge", purge, ctx, prog)


def purge(ctx, prog):
    """a departed connection leaves nothing behind that a later owner of its (recycled) id would inherit: every
    parked request of the id is removed on disconnect — shared with R-C03-clean"""
    from . import c03
    from .common import Relabel
    view = Relabel(ctx, "R-C14-purge", lambda fn, inst: True)
    c03.clean(view, prog)
    ctx.floor("R-C14-purge", "verdicts about the disconnect purge", view.kept, 1)


def recycled_buffer(ctx, prog):
    """The router keeps ONE spare packet buffer (`Router.cache`) that is swapped into whichever connection's
    incoming buffer is read next.  Whatever it still holds when it is stored back would be processed under
    another connection's id, so every path from the exchange to the store must empty it: an unbounded
    `VecDeque::drain(0..)`/`drain(..)` (its Drain guard removes the rest even when the loop breaks) or `clear()`."""
    rule = "R-C14-cache"
    writers = {}
    for body, bi, st in field_writes(prog, "cache"):
        if "Router" in body.local_ty(st["lhs"]["l"]) or body.id.startswith("router::routing::Router::"):
            writers.setdefault(body.id, (body, []))[1].append((bi, st))
    n = 0
    for bid, (body, ws) in sorted(writers.items()):
        if body.name == "new":
            ctx.ok(rule, bid, "constructor initialises the spare buffer", trivial=True)
            continue
        ex = [bb for bb, t in body.calls() if callee_path(t).endswith("Incoming::exchange") and not body.is_cleanup(bb)]
        empt = []
        for bb, t in body.calls():
            if body.is_cleanup(bb):
                continue
            cp = callee_path(t)
            if cp.endswith("VecDeque::<T, A>::clear"):
                empt.append(bb)
            elif cp.endswith("VecDeque::<T, A>::drain"):
                # range argument: RangeFull, or RangeFrom { start: 0 }
                full = False
                for s_ in flatten_src(provenance(body, t["args"][1])):
                    if s_.kind == "agg" and s_.rv.get("adt", "").endswith("RangeFull"):
                        full = True
                    if s_.kind == "agg" and s_.rv.get("adt", "").endswith("RangeFrom"):
                        k = op_const(s_.rv["ops"][0]) if s_.rv.get("ops") else None
                        full = k is not None and k.get("v") == 0
                    if s_.kind == "const" and s_.s and "RangeFull" in s_.s:
                        full = True
                if full:
                    empt.append(bb)
        stores = [bi for bi, st in ws if st["rv"]["k"] in ("agg", "use") and not body.is_cleanup(bi)]
        # the Some(..) stores (None stores come from Option::take, which is a call, not a field write)
        n += 1
        if not ex:
            ctx.violation(rule, bid, "spare buffer written outside the exchange protocol", "Router.cache is written in a function that does not obtain the buffer from Incoming::exchange", site=body.fn_loc())
            continue
        leak = reachable_after(body, ex, avoid_blocks=tuple(empt)) & set(stores)
        if leak:
            ctx.violation(rule, bid, "recycled buffer stored non-empty",
                          "a path from Incoming::exchange to `self.cache = Some(packets)` never empties the buffer (no unbounded drain / clear): packets left behind by an early `break` are swapped into the next connection's incoming buffer and processed under its id",
                          site=body.loc(ws[0][1].get("sp")))
        else:
            ctx.ok(rule, bid, "every path from the exchange to the store passes an unbounded drain()/clear()", site=body.loc(ws[0][1].get("sp")))
    ctx.floor(rule, "functions storing Router.cache (besides new)", n, 1)


def own_id(ctx, prog):
    rule = "R-C14-own-id"
    n = 0
    for body, bb, t in call_sites(prog, r"Router::handle_disconnection$"):
        n += 1
        src = flatten_src(provenance(body, t["args"][1]))
        if body.id.endswith("Router::handle_new_connection"):
            okc = False
            for s in src:
                if s.kind == "call" and s.path.endswith("HashMap::<K, V, S, A>::get") and (receiver_fields(body, s.term) or [None])[-1] == "connection_map":
                    ks = flatten_src(provenance(body, s.term["args"][1], through_calls=[r"Clone>::clone$"]))
                    if any(getattr(k, "fields", None) and k.fields[-1] == "client_id" for k in ks):
                        okc = True
            if okc:
                ctx.ok(rule, body.id, "takeover disconnects connection_map[client_id of the connecting client]", site=body.loc(t.get("sp")))
            else:
                ctx.violation(rule, body.id, "takeover target", "handle_new_connection disconnects an id that is not the connection_map entry of the connecting client's id", site=body.loc(t.get("sp")))
        else:
            idp = [l for l in range(1, body.argc + 1) if body.local_name(l) == "id" or body.local_ty(l) == "usize"]
            if src and all(s.kind == "param" and s.l in idp and not s.fields for s in src):
                ctx.ok(rule, body.id, "handle_disconnection(own envelope id)", site=body.loc(t.get("sp")))
            else:
                ctx.violation(rule, body.id, "disconnects another connection", "handle_disconnection is called with an id that is not the handler's own envelope id", site=body.loc(t.get("sp")))
    ctx.floor(rule, "handle_disconnection call sites", n, 3)
    # per-connection slab accesses use the own id
    for fn in ("Router::handle_device_payload", "Router::prepare_filter", "Router::handle_disconnection"):
        body = prog.one(r"^router::routing::%s$" % re.escape(fn))
        m = 0
        for bb, t in body.calls():
            if body.is_cleanup(bb) or not slab_field(body, t):
                continue
            name = callee_path(t).rsplit("::", 1)[-1]
            if name not in ("get", "get_mut", "index", "index_mut", "remove"):
                continue
            m += 1
            src = flatten_src(provenance(body, t["args"][1]))
            if src and all(s.kind == "param" and s.l == 2 and not s.fields for s in src):
                continue
            ctx.violation(rule, body.id, "%s.%s with foreign id" % (slab_field(body, t), name),
                          "a per-connection slab is accessed with a key that is not the handler's own connection id", site=body.loc(t.get("sp")))
        if m:
            ctx.ok(rule, body.id, "%d per-connection slab accesses all use the handler's own id" % m)
        ctx.floor(rule, "slab accesses in " + fn, m, 2)
    # events passes its envelope id through
    ev = prog.one(r"^router::routing::Router::events$")
    for bb, t in ev.calls():
        if ev.is_cleanup(bb) or not t["fn"].get("ws"):
            continue
        cp = callee_path(t)
        if re.search(r"Router::(handle_device_payload|handle_disconnection)$|Scheduler::reschedule$", cp):
            src = flatten_src(provenance(ev, t["args"][1]))
            if src and all(s.kind == "param" and s.l == 2 for s in src):
                ctx.ok(rule, ev.id, "%s(envelope id)" % cp.rsplit("::", 1)[-1], site=ev.loc(t.get("sp")))
            else:
                ctx.violation(rule, ev.id, "id rewritten for " + cp.rsplit("::", 1)[-1], "Router::events hands a handler an id other than the event's envelope id", site=ev.loc(t.get("sp")))


def stale(ctx, prog):
    rule = "R-C14-stale"
    ev = prog.one(r"^router::routing::Router::events$")
    sws = [s for s in discr_switches(ev, r"^router::Event$") if not s[4].get("p")]
    if len(sws) != 1:
        raise AnchorMissing("Router::events: expected one match on router::Event")
    sw = sws[0]
    dom = dominators(ev)
    for arm in ID_ARMS:
        tgt = variant_target(sw, arm)
        if tgt is None:
            ctx.violation(rule, ev.id, "no arm for Event::" + arm, "Event::%s is not handled" % arm)
            continue
        region = {b for b in reachable(ev, (tgt,)) if tgt in dom.get(b, ())}
        # an identity check: a comparison (Eq/Ne or PartialEq call) between a value carried by the event payload
        # and a field of the connection looked up by id, whose failing edge leaves the arm before the handler call
        has_check = False
        for b in region:
            blk = ev.blocks[b]
            for st in blk["s"]:
                if "lhs" in st and st["rv"]["k"] == "bin" and st["rv"]["op"] in ("Eq", "Ne"):
                    srcs = flatten_src(provenance(ev, st["rv"]["a"])) + flatten_src(provenance(ev, st["rv"]["b"]))
                    if any(s.kind == "param" and s.l == 3 for s in srcs) and any(s.kind == "call" and re.search(r"Slab::<T>::get", s.path) for s in srcs):
                        has_check = True
            t = blk["t"]
            if t["k"] == "call" and re.search(r"PartialEq.*::(eq|ne)$", callee_path(t)):
                srcs = [s for a in t["args"] for s in flatten_src(provenance(ev, a))]
                if any(s.kind == "param" and s.l == 3 for s in srcs) and any(s.kind == "call" and re.search(r"Slab::<T>::get", s.path) for s in srcs):
                    has_check = True
        if has_check:
            ctx.ok(rule, ev.id, "Event::%s arm checks a per-connection token before acting on the id" % arm)
        else:
            ctx.violation(rule, ev.id, "Event::" + arm,
                          "Event::%s applies its envelope id to per-connection state without an identity check a recycled slab key cannot pass: a late event of an ended link acts on the connection that now owns the id" % arm,
                          site=ev.loc(ev.blocks[tgt]["t"].get("sp")))


# (function holding the closure, adaptor the closure is passed to, polarity that selects/removes exactly the given key)
SELECT_SITES = [
    (r"^router::waiters::Waiters::<T>::remove$", r"Iterator::position$", "eq", "parked requests of the given connection id are taken out"),
    (r"^router::logs::DataLog::remove_waiters_for_id$", r"Iterator::position$", "eq", "the unsubscribing connection's own parked request is taken out"),
    (r"^router::scheduler::Tracker::unregister_data_request$", r"::retain(_mut)?$", "ne", "requests of other filters are kept"),
    (r"^router::shared_subs::SharedGroup::remove_client$", r"::retain(_mut)?$", "ne", "other members are kept"),
]


def select_by_key(ctx, prog):
    """Removal/selection by key acts on the key it was given: the predicate closures compare the item with the
    captured key with the polarity that fits the adaptor (position/find: ==, retain: !=).  A flipped comparison
    removes some OTHER connection's parked request / keeps only the leaver."""
    rule = "R-C14-select"
    for fn_re, adaptor_re, want, meaning in SELECT_SITES:
        parent = prog.one(fn_re)
        found = 0
        for bb, t in parent.calls():
            if parent.is_cleanup(bb) or not re.search(adaptor_re, callee_path(t)):
                continue
            for a in t["args"]:
                for s_ in flatten_src(provenance(parent, a)):
                    cb = prog.A.get(getattr(s_, "adt", None)) if s_.kind == "agg" else None
                    if cb is None or cb.kind != "Closure":
                        continue
                    pols = []
                    for blk in cb.blocks:
                        for st in blk["s"]:
                            if "lhs" in st and st["rv"]["k"] == "bin" and st["rv"]["op"] in ("Eq", "Ne"):
                                p_ = _item_vs_capture(cb, st["rv"]["a"], st["rv"]["b"], st["rv"]["op"].lower(), None)
                                if p_:
                                    pols.append(p_)
                    for cbb, ct in cb.calls():
                        m = re.search(r"PartialEq.*::(eq|ne)$", callee_path(ct))
                        if m and len(ct["args"]) == 2:
                            p_ = _item_vs_capture(cb, ct["args"][0], ct["args"][1], m.group(1), None)
                            if p_:
                                pols.append(p_)
                    if not pols:
                        continue
                    # every key comparison of the predicate (a conjunction for composite keys) has the wanted polarity
                    found += 1
                    pol = want if all(p_ == want for p_ in pols) else [p_ for p_ in pols if p_ != want][0]
                    if pol == want and want == "eq" and len(pols) > 1:
                        # a composite key is matched by a conjunction: `true` comes only from the last comparison,
                        # never from a short-circuit (`a == x || b == y` would select on either part of the key)
                        short_true = [blk for blk in cb.blocks if not blk.get("cleanup") for st in blk["s"]
                                      if "lhs" in st and st["lhs"]["l"] == 0 and not st["lhs"].get("p") and st["rv"]["k"] == "use" and (op_const(st["rv"]["a"]) or {}).get("v") == 1]
                        if short_true:
                            pol = "or"
                    if pol == want:
                        ctx.ok(rule, cb.id, "%s predicate compares item %s key: %s" % (callee_path(t).rsplit("::", 1)[-1], "==" if want == "eq" else "!=", meaning), site=cb.fn_loc())
                    else:
                        ctx.violation(rule, cb.id, "selection polarity",
                                      "the predicate given to %s compares the item with the key using %s where %s is needed (%s): the operation now acts on everything EXCEPT the given key"
                                      % (callee_path(t).rsplit("::", 1)[-1], pol, want, meaning), site=cb.fn_loc())
        ctx.floor(rule, "key-comparing predicate in %s" % parent.id, found, 1)


def _item_vs_capture(cb, a, b, op, prev):
    def cls(o):
        ss = flatten_src(provenance(cb, o))
        return set("cap" if (x.kind == "param" and x.l == 1) else "item" if (x.kind == "param" and x.l >= 2) else x.kind for x in ss)
    ca, cb_ = cls(a), cls(b)
    if ("item" in ca and "cap" in cb_) or ("cap" in ca and "item" in cb_):
        # is the boolean negated before it is returned?
        return op
    return prev
