"""C19 — broker admission: valid authenticated CONNECT only; one session per client id (DESIGN §4 C19)."""
import re
from ..core import *
from .c15 import switch_on_call_result
from .c03 import slab_field

EXPLANATION = (
    "Static decision on the MIR of /repo's working tree: (R-C19-gate) in link::remote::mqtt_connect every path to Ok(packet) passes the Packet::Connect arm of the first-packet match, the Ok edge of handle_auth, "
    "the false edge of `keep_alive == 0` and the empty-client-id/clean-session test; in server::broker::remote RemoteLink::new is dominated by mqtt_connect's Ok edge; "
    "(R-C19-who) Event::Connect is constructed only in LinkBuilder::build, whose callers are the frozen list of in-process links plus RemoteLink::new, which is called only from broker::remote; "
    "(R-C19-auth) in handle_auth every Ok(()) is dominated by an accepting edge (no auth configured / external callback true / stored password ct_eq true) and, when auth is configured, by the presence of login; "
    "(R-C19-router) in handle_new_connection validate_clientid's Ok edge, the takeover of an existing connection with the same client id (when not configured away) and the max_connections test all dominate the slab inserts, and connection_map is keyed by the same client id; "
    "(R-C19-version) connect::read of V4/V5 reaches Ok only past the `protocol_level == 4/5` and the \"MQTT\" name tests. "
    "NOT decided: 'at most one live connection per id' and the connection cap as invariants over connect/disconnect histories.")
ASSUMPTIONS = ["rustc MIR construction is correct (A-view of async bodies before coroutine lowering)", "in-process links (console, bridge, Broker::link, meters, alerts) are created by the embedding application, not by network peers"]
TECHNIQUE = "static analysis: must-pass (edge removal) rules on async-body MIR, who-may-construct / who-may-call with a frozen caller table, dominance of accepting edges"
LEVEL_TEXT = "Decides for every path of the admission code that no session is created without passing each gate; the global uniqueness/cap invariants over histories are not decided."
LEVEL_NOTE = "Trusted: rustc MIR; rules table of LinkBuilder::build callers below (each with a reason)."

BUILD_CALLERS = {
    "link::remote::RemoteLink::<P>::new::{closure#0}": "network connections, after mqtt_connect (R-C19-gate)",
    "link::bridge::start::{closure#0}": "bridge link configured by the operator",
    "link::console::ConsoleLink::new": "operator console",
    "server::broker::Broker::link": "embedding application's in-process link",
    "link::local::LinkBuilder::<'a>::build": "self",
}


def ok_blocks(body):
    out = []
    for bi, b in enumerate(body.blocks):
        if b.get("cleanup"):
            continue
        for st in b["s"]:
            if "lhs" in st and st["lhs"]["l"] == 0 and not st["lhs"].get("p") and st["rv"]["k"] == "agg" and st["rv"].get("var") == "Ok" and "Result" in st["rv"].get("adt", ""):
                out.append(bi)
    return out


def run(ctx):
    prog = ctx.progs["rumqttd"]
    ctx.guarded("R-C19-gate", gate, ctx, prog)
    ctx.guarded("R-C19-who", who, ctx, prog)
    ctx.guarded("R-C19-auth", auth, ctx, prog)
    ctx.guarded("R-C19-router", router, ctx, prog)
    ctx.guarded("R-C19-version", version, ctx, prog)


def try_edges_after(body, call_bb):
    """(switch_bb, continue_target) of the nearest `?` dominated by call_bb"""
    dom = dominators(body)
    best = None
    for bb, t in body.calls():
        if body.is_cleanup(bb) or not re.search(r"ops::Try>::branch$", callee_path(t)):
            continue
        if call_bb in dom.get(bb, ()) and bb != call_bb:
            if best is None or len(dom[bb]) < len(dom[best]):
                best = bb
    if best is None:
        return None
    sw = body.blocks[best]["t"].get("t")
    for s in discr_switches(body):
        if s[0] == sw and "ControlFlow" in s[1]:
            return sw, s[2].get("Continue")
    return None


def gate(ctx, prog):
    rule = "R-C19-gate"
    body = prog.one(r"^link::remote::mqtt_connect::\{closure#0\}$")
    oks = ok_blocks(body)
    if not oks:
        raise AnchorMissing("mqtt_connect: Ok(packet) not found")
    gates = []
    # (1) Connect arm
    psw = [s for s in discr_switches(body, r"^protocol::Packet$") if not s[4].get("p") or True]
    psw = [s for s in psw if "Connect" in s[2]]
    if psw:
        gates.append(("first packet is CONNECT", [(psw[0][0], psw[0][2]["Connect"])]))
    else:
        ctx.violation(rule, body.id, "no CONNECT match", "mqtt_connect no longer matches the first packet against Packet::Connect", site=body.fn_loc())
    # (2) handle_auth ok
    ha = [bb for bb, t in body.calls() if callee_path(t).endswith("link::remote::handle_auth") and not body.is_cleanup(bb)]
    if ha:
        e = try_edges_after(body, ha[0])
        if e and e[1] is not None:
            gates.append(("handle_auth succeeded", [e]))
        else:
            ctx.violation(rule, body.id, "auth result ignored", "the result of handle_auth is not propagated with `?`", site=body.fn_loc())
    else:
        ctx.violation(rule, body.id, "no handle_auth", "mqtt_connect no longer calls handle_auth", site=body.fn_loc())
    # (3) keep_alive == 0
    ka = None
    for bi, b in enumerate(body.blocks):
        t = b["t"]
        if t["k"] != "switch" or b.get("cleanup"):
            continue
        l = op_local(t["on"])
        d = single_def(body, l) if l is not None else None
        if d and d[2] == "assign" and d[3]["rv"]["k"] == "bin" and d[3]["rv"]["op"] == "Eq":
            sa = flatten_src(provenance(body, d[3]["rv"]["a"]))
            kb = op_const(d[3]["rv"]["b"])
            if kb is not None and kb.get("v") == 0 and any(getattr(s, "fields", None) and s.fields[-1] == "keep_alive" for s in sa):
                zero = [x for v, x in t["targets"] if v == 0]
                if zero:
                    ka = (bi, zero[0])
    if ka:
        gates.append(("keep_alive != 0", [ka]))
    else:
        ctx.violation(rule, body.id, "no keep-alive test", "mqtt_connect no longer rejects keep_alive == 0", site=body.fn_loc())
    # (4) empty client id only with clean session
    em = switch_on_call_result(body, r"String::is_empty$|str>::is_empty$")
    em = [e for e in em if any(getattr(s, "fields", None) and s.fields[-1] == "client_id" for s in flatten_src(provenance(body, body.blocks[e[3]]["t"]["args"][0])))]
    from .c08 import bool_switch_on_field_or_local
    cs = bool_switch_on_field_or_local(body, "clean_session")
    if em and cs:
        # allowed edges: client id non-empty, or clean_session true
        gates.append(("client id non-empty unless clean session", [(em[0][0], em[0][2])] + [(c[0], c[1]) for c in cs]))
    else:
        ctx.violation(rule, body.id, "no empty-client-id test", "mqtt_connect no longer tests `client_id.is_empty() && !clean_session`", site=body.fn_loc())
    for name, edges in gates:
        r = reachable(body, (0,), avoid_edges=edges)
        bad = [o for o in oks if o in r]
        if bad:
            p = find_path(body, (0,), bad, avoid_edges=edges, include_from=True)
            ctx.violation(rule, body.id, "Ok without: " + name, "a path reaches Ok(connect packet) without passing the gate '%s'" % name, site=body.fn_loc(),
                          path=path_lines(body, p) if p else None)
        else:
            ctx.ok(rule, body.id, "every path to Ok passes: " + name)
    ctx.floor(rule, "admission gates found in mqtt_connect", len(gates), 4)
    # broker::remote
    rb = prog.one(r"^server::broker::remote::\{closure#0\}$")
    mc = [bb for bb, t in rb.calls() if callee_path(t).endswith("link::remote::mqtt_connect") and not rb.is_cleanup(bb)]
    rn = [bb for bb, t in rb.calls() if callee_path(t).endswith("RemoteLink::<P>::new") and not rb.is_cleanup(bb)]
    okedge = None
    dom = dominators(rb)
    for s in discr_switches(rb, r"result::Result$"):
        if mc and mc[0] in dom.get(s[0], ()) and "Ok" in s[2] or (mc and mc[0] in dom.get(s[0], ()) and variant_target(s, "Ok") is not None):
            if okedge is None or len(dom[s[0]]) < len(dom[okedge[0]]):
                okedge = (s[0], variant_target(s, "Ok"))
    if mc and rn and okedge and all(okedge[1] in dom.get(r, ()) for r in rn):
        ctx.ok(rule, rb.id, "RemoteLink::new is dominated by mqtt_connect's Ok edge")
    else:
        ctx.violation(rule, rb.id, "link without admission", "RemoteLink::new can be reached without a successful mqtt_connect", site=rb.fn_loc())


def who(ctx, prog):
    rule = "R-C19-who"
    n = 0
    for body in prog.A.values():
        for bi, b in enumerate(body.blocks):
            if b.get("cleanup"):
                continue
            for st in b["s"]:
                if "lhs" in st and st["rv"]["k"] == "agg" and st["rv"].get("adt") == "router::Event" and st["rv"]["var"] == "Connect":
                    n += 1
                    if body.id.endswith("LinkBuilder::<'a>::build") or body.id == "<router::Event as std::clone::Clone>::clone":
                        ctx.ok(rule, body.id, "Event::Connect constructed in LinkBuilder::build", site=body.loc(st.get("sp")))
                    else:
                        ctx.violation(rule, body.id, "Event::Connect constructed", "a connection registration event is created outside LinkBuilder::build (bypasses admission)", site=body.loc(st.get("sp")))
    ctx.floor(rule, "Event::Connect constructions", n, 1)
    callers = sorted({b.id for b, bb, t in call_sites(prog, r"LinkBuilder::<'a>::build$")})
    for c in callers:
        if c in BUILD_CALLERS:
            ctx.ok(rule, c, "calls LinkBuilder::build — " + BUILD_CALLERS[c])
        else:
            ctx.violation(rule, c, "calls LinkBuilder::build", "new caller of LinkBuilder::build: it can register a connection with the router; not in the audited caller table")
    ctx.floor(rule, "LinkBuilder::build callers", len(callers), 2)
    rcallers = sorted({b.id for b, bb, t in call_sites(prog, r"RemoteLink::<P>::new$")})
    if rcallers == ["server::broker::remote::{closure#0}"]:
        ctx.ok(rule, "link::remote::RemoteLink::<P>::new", "only caller is server::broker::remote")
    else:
        ctx.violation(rule, "link::remote::RemoteLink::<P>::new", "callers", "RemoteLink::new is called from %s" % rcallers)


def auth(ctx, prog):
    rule = "R-C19-auth"
    body = prog.one(r"^link::remote::handle_auth::\{closure#0\}$")
    oks = ok_blocks(body)
    ctx.floor(rule, "Ok(()) returns in handle_auth", len(oks), 3)
    dom = dominators(body)
    accepting = []   # (edge_target, description)
    for bi, b in enumerate(body.blocks):
        t = b["t"]
        if t["k"] != "switch" or b.get("cleanup"):
            continue
        l = op_local(t["on"])
        neg = False
        hops = 0
        d = None
        while l is not None and hops < 6:
            d = single_def(body, l)
            if d and d[2] == "assign" and d[3]["rv"]["k"] == "un" and d[3]["rv"]["op"] == "Not":
                neg = not neg; l = op_local(d[3]["rv"]["a"]); hops += 1; continue
            if d and d[2] == "assign" and d[3]["rv"]["k"] == "use" and op_local(d[3]["rv"]["a"]) is not None:
                l = op_local(d[3]["rv"]["a"]); hops += 1; continue
            break
        zero = [x for v, x in t["targets"] if v == 0]
        tr, fa = t["otherwise"], (zero[0] if zero else None)
        if neg:
            tr, fa = fa, tr
        if d and d[2] == "call":
            cp = callee_path(d[3])
            if cp.endswith("Option::<T>::is_none"):
                fs = receiver_fields(body, d[3]) or []
                if fs and fs[-1] in ("auth", "external_auth"):
                    accepting.append((tr, "config.%s is None" % fs[-1], fs[-1]))
            elif re.search(r"Into<U>>::into$|subtle::Choice.*into|From<subtle::Choice>", cp):
                if any(s.kind == "call" and s.path.endswith("ct_eq") for s in flatten_src(provenance(body, d[3]["args"][0]))):
                    accepting.append((tr, "stored password ct_eq presented password", "ct_eq"))
        elif d and d[2] == "assign" and d[3]["rv"]["k"] == "use":
            # result of awaiting the external callback: (poll result as Ready).0
            pl = op_place(d[3]["rv"]["a"])
            if pl is not None and "Poll" in body.local_ty(pl["l"]):
                accepting.append((tr, "external auth callback returned true", "external"))
    kinds = {a[2] for a in accepting}
    for need in ("auth", "external_auth", "ct_eq", "external"):
        if need not in kinds:
            ctx.violation(rule, body.id, "missing accepting test: " + need, "handle_auth no longer contains the accepting test '%s'" % need, site=body.fn_loc())
    login_sw = [s for s in discr_switches(body, r"option::Option$") if "Login" in body.local_ty(s[4]["l"])]
    login_some = variant_target(login_sw[0], "Some") if login_sw else None
    # the stored password compared by ct_eq must be the table entry of *this* user name: the Some edge
    # of `pairs.get(username)`; an unknown user must not be compared against a default/empty password
    user_known = None
    for bb, t in body.calls():
        if callee_path(t).endswith("HashMap::<K, V, S, A>::get") and not body.is_cleanup(bb):
            ks = flatten_src(provenance(body, t["args"][1]))
            if any(getattr(s, "fields", None) and s.fields[-1] == "username" for s in ks):
                for s in discr_switches(body, r"option::Option$"):
                    if s[4]["l"] == t["dest"]["l"] and not s[4].get("p"):
                        user_known = variant_target(s, "Some")
    if user_known is None:
        ctx.violation(rule, body.id, "unknown user not rejected",
                      "the result of looking the user name up in the credentials table is not matched (Some/None): an unknown user is compared against a default instead of being rejected", site=body.fn_loc())
    for o in oks:
        doms = [a for a in accepting if a[0] is not None and a[0] in dom.get(o, ())]
        kinds_o = {a[2] for a in doms}
        if {"auth", "external_auth"} <= kinds_o:
            ctx.ok(rule, body.id, "Ok(()) when neither auth nor external_auth is configured", site=body.loc(body.blocks[o]["t"].get("sp")))
        elif "ct_eq" in kinds_o and "external" not in kinds_o and (user_known is None or user_known not in dom.get(o, ())):
            ctx.violation(rule, body.id, "password match without known user",
                          "Ok(()) after ct_eq is not dominated by the Some edge of the credentials-table lookup for this user name", site=body.loc(body.blocks[o]["t"].get("sp")))
        elif ("external" in kinds_o or "ct_eq" in kinds_o) and login_some is not None and login_some in dom.get(o, ()):
            ctx.ok(rule, body.id, "Ok(()) after %s with login present" % ("the external callback accepted" if "external" in kinds_o else "the stored password matched"), site=body.loc(body.blocks[o]["t"].get("sp")))
        else:
            ctx.violation(rule, body.id, "Ok(()) without accepting edge",
                          "handle_auth returns Ok(()) on a path that is not dominated by an accepting test (no auth configured / callback true / password match) with login present",
                          site=body.loc(body.blocks[o]["t"].get("sp")))
    credential_operands(ctx, prog, body)


def credential_operands(ctx, prog, body):
    """which values the accepting tests are applied to: the external callback gets (client_id, login.username,
    login.password) in that order; the table is looked up by login.username and its entry compared with login.password"""
    rule = "R-C19-auth"
    CONV = [r"Clone>::clone$", r"ToOwned>::to_owned$", r"ToOwned for str>::to_owned$", r"ToString>::to_string$", r"Into<.*>>::into$", r"String::as_bytes$", r"str>::as_bytes$", r"Deref>::deref$", r"String::as_str$"]

    def role(op):
        src = [x for x in flatten_src(provenance(body, op, through_calls=CONV)) if not (x.kind == "call" and any(re.search(c, x.path) for c in CONV))]
        roles = set()
        for x in src:
            f = [y.lstrip("^") for y in (getattr(x, "fields", None) or [])]
            if x.kind == "param" and f[:1] == ["client_id"]:
                roles.add("client_id")
            elif x.kind == "param" and f[:1] == ["login"] and f[-1:] in (["username"], ["password"]):
                roles.add(f[-1])
            elif x.kind == "call" and re.search(r"HashMap::<K, V, S(, A)?>::get$", x.path):
                roles.add("stored")
            else:
                roles.add("?%s:%s" % (x.kind, ".".join(f) or getattr(x, "path", "")))
        return roles
    calls = [(bb, t) for bb, t in body.calls() if re.search(r"ops::Fn::call$|ops::function::Fn::call$", callee_path(t)) and not body.is_cleanup(bb)]
    ctx.floor(rule, "calls of the external auth callback", len(calls), 1)
    for bb, t in calls:
        got = None
        for s_ in flatten_src(provenance(body, t["args"][1])):
            if s_.kind == "agg" and len(s_.rv.get("ops", [])) == 3:
                got = [role(o) for o in s_.rv["ops"]]
        want = [{"client_id"}, {"username"}, {"password"}]
        if got == want:
            ctx.ok(rule, body.id, "external callback is called with (client_id, login.username, login.password)", site=body.loc(t.get("sp")))
        else:
            ctx.violation(rule, body.id, "external callback arguments",
                          "the external authentication callback is called with %s instead of (client_id, username, password): it is asked about other credentials than the CONNECT carried" % (got,), site=body.loc(t.get("sp")))
    gets = [(bb, t) for bb, t in body.calls() if re.search(r"HashMap::<K, V, S(, A)?>::get$", callee_path(t)) and not body.is_cleanup(bb)]
    cts = [(bb, t) for bb, t in body.calls() if re.search(r"ConstantTimeEq>::ct_eq$", callee_path(t)) and not body.is_cleanup(bb)]
    ctx.floor(rule, "credential table lookups / constant-time comparisons", min(len(gets), len(cts)), 1)
    for bb, t in gets:
        r_ = role(t["args"][1])
        if r_ == {"username"}:
            ctx.ok(rule, body.id, "credential table is looked up by login.username", site=body.loc(t.get("sp")))
        else:
            ctx.violation(rule, body.id, "table lookup key", "the static credential table is looked up by %s instead of login.username" % sorted(r_), site=body.loc(t.get("sp")))
    for bb, t in cts:
        ra, rb = role(t["args"][0]), role(t["args"][1])
        if (ra == {"stored"} and rb == {"password"}) or (rb == {"stored"} and ra == {"password"}):
            ctx.ok(rule, body.id, "stored password is compared with login.password", site=body.loc(t.get("sp")))
        else:
            ctx.violation(rule, body.id, "password comparison operands", "ct_eq compares %s with %s instead of the stored password with login.password" % (sorted(ra), sorted(rb)), site=body.loc(t.get("sp")))


def router(ctx, prog):
    rule = "R-C19-router"
    body = prog.one(r"^router::routing::Router::handle_new_connection$")
    inserts = [bb for bb, t in body.calls() if re.search(r"^slab::Slab::<T>::insert$", callee_path(t)) and slab_field(body, t) and not body.is_cleanup(bb)]
    ctx.floor(rule, "slab inserts in handle_new_connection", len(inserts), 4)
    dom = dominators(body)
    # validate_clientid Ok edge
    vc = [bb for bb, t in body.calls() if callee_path(t).endswith("routing::validate_clientid") and not body.is_cleanup(bb)]
    ok_edge = None
    for s in discr_switches(body, r"result::Result$"):
        if vc and s[4]["l"] == body.blocks[vc[0]]["t"]["dest"]["l"]:
            ok_edge = variant_target(s, "Ok")
    if vc and ok_edge is not None and all(ok_edge in dom.get(i, ()) for i in inserts):
        ctx.ok(rule, body.id, "validate_clientid's Ok edge dominates the inserts")
    else:
        # `if let Err(err) = validate_clientid(..) { return }` : the non-Err edge
        okc = False
        for s in discr_switches(body, r"result::Result$"):
            if vc and s[4]["l"] == body.blocks[vc[0]]["t"]["dest"]["l"]:
                e = variant_target(s, "Err")
                if e is not None and not (reachable(body, (e,)) & set(inserts)):
                    okc = True
        if okc:
            ctx.ok(rule, body.id, "a client id rejected by validate_clientid never reaches the inserts")
        else:
            ctx.violation(rule, body.id, "client id not validated", "a connection can be registered without passing validate_clientid", site=body.fn_loc())
    # max_connections test
    mc = None
    for bi, b in enumerate(body.blocks):
        t = b["t"]
        if t["k"] != "switch" or b.get("cleanup"):
            continue
        l = op_local(t["on"])
        d = single_def(body, l) if l is not None else None
        if d and d[2] == "assign" and d[3]["rv"]["k"] == "bin" and d[3]["rv"]["op"] in ("Ge", "Gt"):
            sb = flatten_src(provenance(body, d[3]["rv"]["b"]))
            sa = flatten_src(provenance(body, d[3]["rv"]["a"]))
            if any(getattr(s, "fields", None) and s.fields[-1] == "max_connections" for s in sb) and any(s.kind == "call" and s.path.endswith("Slab::<T>::len") for s in sa):
                zero = [x for v, x in t["targets"] if v == 0]
                if zero:
                    mc = (bi, zero[0], d[3]["rv"]["op"])
    if mc and all(mc[1] in dom.get(i, ()) for i in inserts):
        ctx.ok(rule, body.id, "`connections.len() %s max_connections` → return dominates the inserts" % (">=" if mc[2] == "Ge" else ">"))
        if mc[2] != "Ge":
            ctx.violation(rule, body.id, "cap off by one", "the cap test is `>` instead of `>=`: max_connections + 1 connections are admitted", site=body.fn_loc())
    else:
        ctx.violation(rule, body.id, "no connection cap", "the slab inserts are not dominated by the max_connections test", site=body.fn_loc())
    # takeover
    hd = [bb for bb, t in body.calls() if callee_path(t).endswith("Router::handle_disconnection") and not body.is_cleanup(bb)]
    live = reachable(body, (0,))
    hd = [h for h in hd if h in live]
    if not hd and ctx.config == "features":
        ctx.vacuous(rule, "takeover of an existing connection with the same client id is configured away (allow-duplicate-clientid)")
    elif not hd:
        ctx.violation(rule, body.id, "no takeover", "without the allow-duplicate-clientid feature a connection with an already connected client id must replace the old one, but handle_new_connection no longer disconnects it", site=body.fn_loc())
    else:
        t = body.blocks[hd[0]]["t"]
        src = flatten_src(provenance(body, t["args"][1]))
        from_map = any(s.kind == "call" and s.path.endswith("HashMap::<K, V, S, A>::get") and (receiver_fields(body, s.term) or [None])[-1] == "connection_map" for s in src)
        before = all(i in reachable_after(body, [hd[0]]) for i in inserts)
        # on the Some edge of connection_map.get every path to the inserts passes the takeover
        get_calls = [bb for bb, t2 in body.calls() if callee_path(t2).endswith("HashMap::<K, V, S, A>::get") and (receiver_fields(body, t2) or [None])[-1] == "connection_map"]
        some_t = None
        for s in discr_switches(body, r"option::Option$"):
            if get_calls and s[4]["l"] == body.blocks[get_calls[0]]["t"]["dest"]["l"]:
                some_t = variant_target(s, "Some")
        forced = some_t is not None and not (reachable(body, (some_t,), avoid_blocks=hd) & set(inserts))
        if from_map and before and forced:
            ctx.ok(rule, body.id, "an existing connection with the same client id is disconnected before the new one is inserted", site=body.loc(t.get("sp")))
        else:
            ctx.violation(rule, body.id, "takeover", "a second connection with the same client id can be inserted without disconnecting the first", site=body.loc(t.get("sp")))
    # connection_map.insert keyed by the client id of this connection
    cm = [(bb, t) for bb, t in body.calls() if callee_path(t).endswith("HashMap::<K, V, S, A>::insert") and (receiver_fields(body, t) or [None])[-1] == "connection_map"]
    if cm:
        ks = flatten_src(provenance(body, cm[0][1]["args"][1], through_calls=[r"Clone>::clone$"]))
        vs = flatten_src(provenance(body, cm[0][1]["args"][2]))
        kok = any(getattr(s, "fields", None) and s.fields[-1] == "client_id" for s in ks)
        vok = any(s.kind == "call" and s.path.endswith("Slab::<T>::insert") for s in vs)
        if kok and vok:
            ctx.ok(rule, body.id, "connection_map[client_id] = id returned by connections.insert")
        else:
            ctx.violation(rule, body.id, "connection_map entry", "connection_map is not keyed by this connection's client id / does not store the id returned by connections.insert", site=body.loc(cm[0][1].get("sp")))
    else:
        ctx.violation(rule, body.id, "connection_map not updated", "handle_new_connection no longer records client_id → connection id", site=body.fn_loc())


def version(ctx, prog):
    rule = "R-C19-version"
    for ver, level in (("v4", 4), ("v5", 5)):
        body = prog.one(r"^protocol::%s::connect::read$" % ver)
        oks = ok_blocks(body)
        if not oks:
            raise AnchorMissing("%s connect::read: Ok not found" % ver)
        lvl = None
        name = None
        for bi, b in enumerate(body.blocks):
            t = b["t"]
            if t["k"] != "switch" or b.get("cleanup"):
                continue
            l = op_local(t["on"])
            d = single_def(body, l) if l is not None else None
            zero = [x for v, x in t["targets"] if v == 0]
            if d and d[2] == "assign" and d[3]["rv"]["k"] == "bin" and d[3]["rv"]["op"] in ("Ne", "Eq"):
                kb = op_const(d[3]["rv"]["b"])
                if kb is not None and kb.get("v") == level and zero:
                    lvl = (bi, zero[0] if d[3]["rv"]["op"] == "Ne" else t["otherwise"])
            if d and d[2] == "call" and re.search(r"PartialEq<.*>>::(ne|eq)$", callee_path(d[3])) and zero:
                # comparison with the promoted "MQTT"
                for a in d[3]["args"]:
                    for s in flatten_src(provenance(body, a)):
                        if s.kind == "const" and s.promoted is not None:
                            pb = prog.promoted.get((body.id, s.promoted))
                            if pb and "MQTT" in json_str(pb):
                                name = (bi, zero[0] if callee_path(d[3]).endswith("ne") else t["otherwise"])
        for what, g in (("protocol level == %d" % level, lvl), ('protocol name == "MQTT"', name)):
            if g is None:
                ctx.violation(rule, body.id, "missing test: " + what, "connect::read no longer tests %s" % what, site=body.fn_loc())
            elif reachable(body, (0,), avoid_edges=[g]) & set(oks):
                ctx.violation(rule, body.id, "Ok without: " + what, "a CONNECT can be accepted without %s" % what, site=body.fn_loc())
            else:
                ctx.ok(rule, body.id, "Ok only past " + what)


def json_str(pb):
    import json
    return json.dumps(pb.raw["blocks"])
