"""C01 — broker delivers each message to exactly the matching subscriptions, in order
(structural necessary conditions only, DESIGN §4 C01)."""
import re
from ..core import *
from . import matchroles
from .c06 import flag_guarding_call, const_assign_blocks

EXPLANATION = (
    "Static decision on the MIR of /repo's working tree of necessary conditions for 'nothing that should have been delivered is still undelivered' and 'no message for no subscription': "
    "(R-C01-wake) CommitLog::append is called only from Data::append; there every path from the append to return moves the parked waiters into notifications; in every handler that appends "
    "(handle_device_payload, handle_last_will) every flag-consistent path from a successful append to return drains notifications, and the drain loop tracks and reschedules (FreshData) each popped waiter; "
    "(R-C01-conserve) in Router::consume no DataRequest is dropped (drop-elaborated MIR), each ConsumeStatus arm moves the request into exactly one home (requests / skipped_requests / DataLog::park) and pauses with the paired reason; "
    "(R-C01-tryready) the decision table of Tracker::try_ready, enumerated exhaustively by abstract interpretation over its finite enum domain (5 reasons x 4 states), contains the wake-ups delivery depends on, and reschedule() queues the id exactly when try_ready returns Some; "
    "(R-C01-start) a new subscription's DataRequest starts at next_native_offset() of its own filter; (R-C01-cache) a new filter is added to the topic->filters cache for already cached topics, and DataLog::matches routes through protocol::matches; "
    "(R-C01-unsubscribe) UnsubAckReason::Success is pushed only after the connection left the filter's subscriber set, its own subscription set, its tracker and the filter's parked waiters; "
    "(R-C01-match) at the publish-side call sites of protocol::matches(topic, filter) the iterated map's key is passed in the position of its role. "
    "(R-C01-takeover) the stored session is looked up after the takeover saved it and is not consumed by a refused CONNECT (shared with R-C08-restore); R-C01-cache also demands that only protocol::matches()'s result decides whether a cached topic learns a new filter. "
    "NOT decided: acceptance order = delivery order, once-per-subscription, payload/topic integrity, granted QoS, retention proviso, cursor arithmetic (value/history dependent).")
ASSUMPTIONS = ["rustc MIR construction is correct", "the scheduler's ready queue is eventually polled (run_inner loop, not analysed for fairness)"]
TECHNIQUE = "static analysis: who-may-call, flag-sensitive must-pass over the MIR CFG, drop-elaborated-MIR conservation, exhaustive abstract interpretation of a finite-enum decision function, provenance"
LEVEL_TEXT = ("Decides on all paths the lost-wake-up, lost-request and start-cursor clauses named above; the try_ready table is enumerated completely (finite domain). "
              "Ordering / exactly-once / content integrity over histories are not statically decidable here and are not claimed.")
LEVEL_NOTE = "Trusted: rustc MIR (A-view for paths, optimized MIR for drops). Flags (new_data, disconnect) are identified structurally, not by name."

REQUIRED_WAKEUPS = [("FreshData", "Caughtup"), ("NewFilter", "Caughtup"), ("Ready", "Busy"), ("Init", "Busy"),
                    ("IncomingAck", "InflightFull"), ("IncomingAck", "Caughtup")]
PAUSE_TABLE = {"BufferFull": ("requests", "Busy"), "InflightFull": ("requests", "InflightFull"),
               "FilterCaughtup": ("park", None), "PartialRead": ("requests", None), "SkipRequest": ("skipped", None)}


def waiters(ctx, prog):
    """R-C01-waiters: the parking lot itself — take() hands out *all* parked requests whenever there is
    at least one, register() always parks, DataLog::park parks on the request's own filter"""
    rule = "R-C01-waiters"
    from .c15 import switch_on_call_result
    tk = prog.one(r"^router::waiters::Waiters::<T>::take$")
    sw = switch_on_call_result(tk, r"VecDeque::<T, A>::is_empty$", "current")
    nones, somes = [], []
    for bi, b in enumerate(tk.blocks):
        for st in b["s"]:
            if "lhs" in st and st["lhs"]["l"] == 0 and st["rv"]["k"] == "agg" and st["rv"].get("adt") == "std::option::Option":
                (nones if st["rv"]["var"] == "None" else somes).append(bi)
    repl = [bb for bb, t in tk.calls() if re.search(r"mem::(replace|take|swap)$", callee_path(t))]
    if sw and nones and somes and repl and all(dominates(tk, sw[0][1], n) for n in nones) and all(dominates(tk, sw[0][2], s) for s in somes):
        ctx.ok(rule, tk.id, "returns None only when nothing is parked, otherwise the whole queue (mem::replace)")
    else:
        ctx.violation(rule, tk.id, "take shape", "Waiters::take can return None although requests are parked (or no longer hands out the whole queue): those subscribers are never woken", site=tk.fn_loc())
    rg = prog.one(r"^router::waiters::Waiters::<T>::register$")
    pushes = [bb for bb, t in rg.calls() if callee_path(t).endswith("VecDeque::<T, A>::push_back") and not rg.is_cleanup(bb)]
    if pushes and must_pass(rg, [], return_blocks(rg), via_blocks=pushes, include_from=False) is not None and not (reachable(rg, (0,), avoid_blocks=pushes) & set(return_blocks(rg))):
        ctx.ok(rule, rg.id, "every path parks the request (push_back)")
    else:
        ctx.violation(rule, rg.id, "register drops", "Waiters::register can return without parking the request", site=rg.fn_loc())
    pk = prog.one(r"^router::logs::DataLog::park$")
    regs = [(bb, t) for bb, t in pk.calls() if callee_path(t).endswith("Waiters::<T>::register") and not pk.is_cleanup(bb)]
    okp = False
    for bb, t in regs:
        src = flatten_src(provenance(pk, t["args"][0], through_calls=[r"Option::<T>::unwrap$", r"Slab::<T>::get_mut$"]))
        for s in src:
            if s.kind == "call" and s.path.endswith("Slab::<T>::get_mut"):
                ks = flatten_src(provenance(pk, s.term["args"][1]))
                if any(x.kind == "param" and x.l == 3 and x.fields[-1:] == ["filter_idx"] for x in ks):
                    okp = True
    if okp and not (reachable(pk, (0,), avoid_blocks=[r[0] for r in regs]) & set(return_blocks(pk))):
        ctx.ok(rule, pk.id, "parks the request in the waiters of native[request.filter_idx]")
    else:
        ctx.violation(rule, pk.id, "parked on the wrong filter", "DataLog::park does not register the request with the waiters of its own filter on every path", site=pk.fn_loc())


def advance(ctx, prog):
    """R-C01-advance: what was read is not read again — after a successful native_readv the request's
    cursor is set from the read's continuation before the publishes are pushed, on every path"""
    rule = "R-C01-advance"
    f = prog.one(r"^router::routing::forward_device_data$")
    reads = [bb for bb, t in f.calls() if callee_path(t).endswith("DataLog::native_readv") and not f.is_cleanup(bb)]
    pushes = [bb for bb, t in f.calls() if callee_path(t).endswith("Outgoing::push_forwards") and not f.is_cleanup(bb)]
    writes = []
    for bi, b in enumerate(f.blocks):
        if b.get("cleanup"):
            continue
        for st in b["s"]:
            if "lhs" in st and place_fields(st["lhs"])[-1:] == ["cursor"] and st["lhs"]["l"] == 1 and st["rv"]["k"] == "use":
                src = flatten_src(provenance(f, st["rv"]["a"], through_calls=[r"ops::Try>::branch$"]))
                if any(s.kind == "call" and s.path.endswith("DataLog::native_readv") for s in src):
                    writes.append(bi)
    if not reads or not pushes:
        raise AnchorMissing("forward_device_data: native_readv / push_forwards not found")
    # the read addresses the request's own filter log at the request's own cursor
    for rb in reads:
        t = f.blocks[rb]["t"]
        for argi, fld in ((1, "filter_idx"), (2, "cursor")):
            src = flatten_src(provenance(f, t["args"][argi]))
            if src and all(x.kind == "param" and x.l == 1 and x.fields[-1:] == [fld] for x in src):
                ctx.ok(rule, f.id, "native_readv reads at request.%s" % fld, site=f.loc(t.get("sp")))
            else:
                ctx.violation(rule, f.id, "native_readv %s" % fld, "the log is read with a %s that is not the request's own" % fld, site=f.loc(t.get("sp")))
    if writes and not (reachable_after(f, reads, avoid_blocks=writes) & set(pushes)):
        ctx.ok(rule, f.id, "request.cursor = <continuation of native_readv> on every path from the read to push_forwards", site=f.loc(f.blocks[writes[0]]["t"].get("sp")))
    else:
        ctx.violation(rule, f.id, "cursor not advanced", "publishes read from the log can be pushed without moving the request's cursor to the read's continuation: they would be delivered again", site=f.loc(f.blocks[pushes[0]]["t"].get("sp")))
    # the continuation is the `end` of the returned Position, not its `start`
    for wb in writes[:1]:
        for st in f.blocks[wb]["s"]:
            if "lhs" in st and place_fields(st["lhs"])[-1:] == ["cursor"] and st["lhs"]["l"] == 1:
                src = flatten_src(provenance(f, st["rv"]["a"], through_calls=[r"ops::Try>::branch$"]))
                ends = [s for s in src if s.kind == "call" and "end" in (s.fields or [])]
                starts = [s for s in src if s.kind == "call" and "start" in (s.fields or [])]
                if ends and not starts:
                    ctx.ok(rule, f.id, "the new cursor is Position::{Next,Done}.end")
                else:
                    ctx.violation(rule, f.id, "cursor from Position.start", "the request's cursor is set from the read's start, not its end (fields: %s)" % [s.fields for s in src if s.kind == "call"], site=f.loc(st.get("sp")))


def run(ctx):
    prog = ctx.progs["rumqttd"]
    ctx.guarded("R-C01-waiters", waiters, ctx, prog)
    ctx.guarded("R-C01-takeover", takeover_keeps_subscriptions, ctx, prog)
    ctx.guarded("R-C01-advance", advance, ctx, prog)
    ctx.guarded("R-C01-advance", parked_only_when_done, ctx, prog)
    ctx.guarded("R-C01-wake", wake, ctx, prog)
    ctx.guarded("R-C01-conserve", conserve, ctx, prog)
    ctx.guarded("R-C01-tryready", tryready, ctx, prog)
    ctx.guarded("R-C01-start", start, ctx, prog)
    ctx.guarded("R-C01-cache", cache, ctx, prog)
    ctx.guarded("R-C01-unsubscribe", unsubscribe, ctx, prog)
    ctx.guarded("R-C01-unsubscribe", unsubscribe_keyspace, ctx, prog)
    ctx.guarded("R-C01-match", matchroles.check, ctx, "R-C01-match", prog, r"^router::logs::DataLog::matches$", "topic -> subscribed filters on publish")
    ctx.guarded("R-C01-match", matchroles.check, ctx, "R-C01-match", prog, r"^router::logs::DataLog::next_native_offset$", "new filter -> cached topics")


def unsubscribe(ctx, prog):
    """'no message reaches a connection without a matching subscription': a filter is reported as unsubscribed
    (UnsubAckReason::Success) only after the connection was taken out of every place delivery is driven from —
    the filter's subscriber set, the connection's subscription set, its tracker (Scheduler::untrack), the
    filter's parked waiters (DataLog::remove_waiters_for_id) and the requests a publish earlier in the same read has
    woken (Router.notifications) — each addressed with the handler's own id / the filter being processed."""
    rule = "R-C01-unsubscribe"
    body = prog.one(r"^router::routing::Router::handle_device_payload$")
    succ = []
    for bb, t in body.calls():
        if body.is_cleanup(bb) or not callee_path(t).endswith("Vec::<T, A>::push"):
            continue
        src = flatten_src(provenance(body, t["args"][1]))
        if any(s_.kind == "agg" and getattr(s_, "adt", "").endswith("UnsubAckReason") and s_.var == "Success" for s_ in src):
            succ.append(bb)
    if len(succ) != 1:
        raise AnchorMissing("handle_device_payload: expected one reasons.push(UnsubAckReason::Success), found %d" % len(succ))
    sb = succ[0]
    dom = dominators(body)
    need = [
        ("subscriber set of the filter", r"HashSet::<T, S, A>::remove$|HashSet::<T, S>::remove$", None),
        ("connection.subscriptions", r"HashSet::<T, S, A>::remove$|HashSet::<T, S>::remove$", "subscriptions"),
        ("tracker (Scheduler::untrack)", r"Scheduler::untrack$", None),
        ("parked waiters (DataLog::remove_waiters_for_id)", r"DataLog::remove_waiters_for_id$", None),
        # a publish earlier in the same read has moved the parked request into Router.notifications already; the
        # end of the handler puts everything in there back on the tracker
        ("requests woken earlier in this read (Router.notifications)", r"VecDeque::<T, A>::(retain|retain_mut|drain)$", "notifications"),
    ]
    for what, cre, recv in need:
        hits = []
        for bb, t in body.calls():
            if body.is_cleanup(bb) or not re.search(cre, callee_path(t)) or bb not in dom.get(sb, ()):
                continue
            fs = [x.split(".")[-1] for x in (receiver_fields(body, t) or [])]
            if recv is not None and fs[-1:] != [recv]:
                continue
            if recv is None and "HashSet" in cre and fs[-1:] == ["subscriptions"]:
                continue
            hits.append((bb, t))
        if not hits:
            ctx.violation(rule, body.id, "Success without: " + what,
                          "an UNSUBSCRIBE is acknowledged as successful on a path that did not remove the connection from the %s: it keeps receiving (or keeps a stale request) for a filter it no longer subscribes to" % what,
                          site=body.loc(body.blocks[sb]["t"].get("sp")))
            continue
        # id-taking calls are addressed with the handler's own id
        okid = True
        for bb, t in hits:
            if re.search(r"untrack$|remove_waiters_for_id$", callee_path(t)):
                ids = flatten_src(provenance(body, t["args"][1]))
                okid = okid and bool(ids) and all(x.kind == "param" and x.l == 2 for x in ids)
        if okid:
            ctx.ok(rule, body.id, "Success only after removal from the " + what, site=body.loc(hits[0][1].get("sp")))
        else:
            ctx.violation(rule, body.id, "removal with a foreign id: " + what, "the removal from the %s is not addressed with the handler's own connection id" % what, site=body.loc(hits[0][1].get("sp")))


def parked_only_when_done(ctx, prog):
    """A request is parked (ConsumeStatus::FilterCaughtup -> DataLog::park, woken only by the next append) although the
    log read did NOT report Done when every entry of the batch was filtered out (expired): what lies behind the batch is
    stranded until somebody publishes again — and a shared group, whose cursor is written back only after a forward,
    re-reads the same expired entry for ever.  FilterCaughtup may be returned only on the read's Done edge (or when the
    read itself failed)."""
    rule = "R-C01-advance"
    f = prog.one(r"^router::routing::forward_device_data$")
    psw = discr_switches(f, r"segments::Position$")
    if len(psw) != 1:
        raise AnchorMissing("forward_device_data: match on Position not found")
    # the tuple local built in both arms, whose last element is the caught-up flag
    tup = None
    for v in ("Next", "Done"):
        tgt = variant_target(psw[0], v)
        for b in reachable(f, (tgt,)):
            for st in f.blocks[b]["s"]:
                if "lhs" in st and st["rv"]["k"] == "agg" and st["rv"].get("ak") == "tuple" and len(st["rv"]["ops"]) == 3 and (op_const(st["rv"]["ops"][2]) or {}).get("v") in (0, 1):
                    tup = st["lhs"]["l"]
    if tup is None:
        raise AnchorMissing("forward_device_data: (start, end, caughtup) tuple not found")
    flags = set()
    for blk in f.blocks:
        for st in blk["s"]:
            if "lhs" in st and not st["lhs"].get("p") and st["rv"]["k"] == "use":
                pl = op_place(st["rv"]["a"])
                if pl is not None and pl["l"] == tup and [p_.get("f") for p_ in (pl.get("p") or []) if isinstance(p_, dict)] == ["2"]:
                    flags.add(st["lhs"]["l"])
    changed = True
    while changed:
        changed = False
        for blk in f.blocks:
            for st in blk["s"]:
                if "lhs" in st and not st["lhs"].get("p") and st["rv"]["k"] == "use" and op_local(st["rv"]["a"]) in flags and not (op_place(st["rv"]["a"]) or {}).get("p") and st["lhs"]["l"] not in flags:
                    flags.add(st["lhs"]["l"]); changed = True
    done_edges = []
    for bi, blk in enumerate(f.blocks):
        t = blk["t"]
        if t["k"] == "switch" and not blk.get("cleanup") and op_local(t["on"]) in flags:
            done_edges.append(t["otherwise"])
    reads = [bb for bb, t in f.calls() if callee_path(t).endswith("DataLog::native_readv") and not f.is_cleanup(bb)]
    err_t = None
    for s_ in discr_switches(f, r"result::Result$"):
        if reads and s_[4] and s_[4]["l"] == f.blocks[reads[0]]["t"]["dest"]["l"]:
            err_t = variant_target(s_, "Err")
    n = 0
    for bi, blk in enumerate(f.blocks):
        for st in blk["s"]:
            if "lhs" in st and st["rv"]["k"] == "agg" and st["rv"].get("adt", "").endswith("ConsumeStatus") and st["rv"].get("var") == "FilterCaughtup":
                n += 1
                if err_t is not None and dominates(f, err_t, bi):
                    ctx.ok(rule, f.id, "FilterCaughtup on the failed-read edge", site=f.loc(st.get("sp")), trivial=True)
                elif any(dominates(f, e, bi) for e in done_edges):
                    ctx.ok(rule, f.id, "FilterCaughtup only behind the read's Done edge", site=f.loc(st.get("sp")))
                else:
                    ctx.violation(rule, f.id, "parked although the read was not Done",
                                  "forward_device_data returns FilterCaughtup (the request is parked until the next append) on a path where the log read did not report Done: when every entry of a batch is filtered out as expired, the entries behind it are stranded, and a round-robin shared group re-reads the same expired entry for ever",
                                  site=f.loc(st.get("sp")))
    ctx.floor(rule, "FilterCaughtup returns in forward_device_data", n, 3)


def unsubscribe_keyspace(ctx, prog):
    """filter_indexes (filter -> log) is keyed by TOPIC filters: a shared subscription `$share/<group>/<filter>` lives in
    the log of `<filter>` (the Subscribe arm strips the prefix before next_native_offset).  The removal of its parked
    request must strip it too — in DataLog::remove_waiters_for_id or at its call site — or the lookup misses and
    the request stays parked after a successful UNSUBSCRIBE."""
    rule = "R-C01-unsubscribe"
    STRIP = r"str>::strip_prefix$|::strip_prefix$|str>::split_once$|::split_once$|routing::extract_group$"
    THROUGH = [r"Option::<T>::(and_then|map_or|map|unwrap_or|unwrap_or_else|as_deref|as_ref|unwrap_or_default)$", r"String::as_str$", r"Deref>::deref$", r"Borrow<.*>>::borrow$"]

    def stripped(body, op):
        return any(x.kind == "call" and re.search(STRIP, x.path) for x in flatten_src(provenance(body, op, through_calls=THROUGH)))
    rw = prog.one(r"^router::logs::DataLog::remove_waiters_for_id$")
    gets = [(bb, t) for bb, t in rw.calls() if re.search(r"HashMap::<K, V, S(, A)?>::get$", callee_path(t)) and (receiver_fields(rw, t) or [None])[-1] == "filter_indexes" and not rw.is_cleanup(bb)]
    if not gets:
        raise AnchorMissing("remove_waiters_for_id: lookup in filter_indexes not found")
    inside = all(stripped(rw, t["args"][1]) for bb, t in gets)
    hd = prog.one(r"^router::routing::Router::handle_device_payload$")
    sites = [(bb, t) for bb, t in hd.calls() if callee_path(t).endswith("DataLog::remove_waiters_for_id") and not hd.is_cleanup(bb)]
    outside = bool(sites) and all(stripped(hd, t["args"][2]) for bb, t in sites)
    # reference: the Subscribe arm strips before creating / finding the log
    nn = [(bb, t) for bb, t in hd.calls() if callee_path(t).endswith("DataLog::next_native_offset") and not hd.is_cleanup(bb)]
    sub_strips = bool(nn) and all(stripped(hd, t["args"][1]) for bb, t in nn)
    if not sub_strips:
        ctx.ok(rule, hd.id, "the Subscribe arm does not strip a share prefix: logs are keyed by the full path (nothing to agree with)", trivial=True)
        return
    if inside or outside:
        ctx.ok(rule, rw.id, "parked requests of a shared subscription are looked up under the stripped topic filter, like the Subscribe arm does (%s)" % ("in remove_waiters_for_id" if inside else "at the call site"), site=rw.fn_loc())
    else:
        ctx.violation(rule, rw.id, "shared filter looked up unstripped",
                      "the Subscribe arm files a `$share/<group>/<filter>` subscription under the log of `<filter>`, but the UNSUBSCRIBE path looks the parked request up under the full `$share/...` path: the lookup misses, the request stays parked, and the client keeps receiving after a successful UNSUBACK",
                      site=rw.loc(gets[0][1].get("sp")))


# ------------------------------------------------------------------------------------------
# flag-sensitive reachability (P4)

def flag_reach(body, start_blocks, flags, init=None, avoid_blocks=()):
    """states (block, flag values) reachable from start_blocks; flag values: None unknown / 0 / 1.
    A block that assigns `flag = const v` updates the value; a SwitchInt on (a copy of) a flag
    with a known value follows only the matching edge."""
    avoid_blocks = set(avoid_blocks)
    flags = list(flags)

    def assigns(b):
        out = {}
        for st in body.blocks[b]["s"]:
            if "lhs" in st and not st["lhs"].get("p") and st["lhs"]["l"] in flags and st["rv"]["k"] == "use":
                k = op_const(st["rv"]["a"])
                out[st["lhs"]["l"]] = k.get("v") if k is not None else None
        return out

    def switch_flag(b):
        t = body.blocks[b]["t"]
        if t["k"] != "switch":
            return None
        l = op_local(t["on"])
        hops = 0
        while l is not None and hops < 4:
            if l in flags:
                return l
            # copy made in this block?
            src = None
            for st in body.blocks[b]["s"]:
                if "lhs" in st and st["lhs"]["l"] == l and not st["lhs"].get("p") and st["rv"]["k"] == "use":
                    src = op_local(st["rv"]["a"])
            l = src
            hops += 1
        return None

    init = init or {}
    start = tuple(init.get(f) for f in flags)
    seen = set()
    work = [(b, start) for b in start_blocks]
    while work:
        b, vals = work.pop()
        if (b, vals) in seen or b in avoid_blocks:
            continue
        seen.add((b, vals))
        a = assigns(b)
        nv = tuple(a.get(f, v) if f in a else v for f, v in zip(flags, vals))
        f = switch_flag(b)
        t = body.blocks[b]["t"]
        succs = live_succ(body, b)
        if f is not None:
            # value at the switch: assignments in the same block come first
            v = nv[flags.index(f)]
            if v is not None:
                tg = None
                for val, x in t["targets"]:
                    if val == v:
                        tg = x
                succs = [tg if tg is not None else t["otherwise"]]
        for s_ in succs:
            work.append((s_, nv))
    return seen


def wake(ctx, prog):
    rule = "R-C01-wake"
    # (a) who may call CommitLog::append
    callers = sorted({b.id for b, bb, t in call_sites(prog, r"^segments::CommitLog::<T>::append$")})
    if callers == ["router::logs::Data::<T>::append"]:
        ctx.ok(rule, "segments::CommitLog::<T>::append", "only caller is Data::append")
    else:
        ctx.violation(rule, "segments::CommitLog::<T>::append", "callers", "the commit log is appended to from %s: an append outside Data::append wakes no waiter" % callers)
    # (b) Data::append moves the waiters
    da = prog.one(r"^router::logs::Data::<T>::append$")
    apps = [bb for bb, t in da.calls() if callee_path(t).endswith("CommitLog::<T>::append")]
    takes = [bb for bb, t in da.calls() if callee_path(t).endswith("Waiters::<T>::take")]
    moves = [bb for bb, t in da.calls() if callee_path(t).endswith("VecDeque::<T, A>::append") and any(
        s.kind == "param" and s.l == 3 for s in flatten_src(provenance(da, t["args"][0])))]
    rets = return_blocks(da)
    if apps and takes and must_pass(da, apps, rets, via_blocks=takes):
        ctx.ok(rule, da.id, "every path from log.append to return calls Waiters::take")
    else:
        ctx.violation(rule, da.id, "append without take", "Data::append can return after appending without looking at the parked waiters", site=da.fn_loc())
    okm = False
    for s in discr_switches(da, r"option::Option$"):
        some_t = variant_target(s, "Some")
        if some_t is not None and takes and dominates(da, takes[0], s[0]) and moves and must_pass(da, [], rets, via_blocks=moves, include_from=False) is not None:
            if not (reachable(da, (some_t,), avoid_blocks=moves) & set(rets)):
                okm = True
    if okm:
        ctx.ok(rule, da.id, "parked waiters (Some) are appended to the caller's notifications on every path")
    else:
        ctx.violation(rule, da.id, "waiters not moved", "the waiters taken on append are not moved into the notifications queue on every path", site=da.fn_loc())
    # (c) handlers that append must drain notifications
    appenders = [("router::routing::Router::handle_device_payload", r"routing::append_to_commitlog$", 2),
                 ("router::routing::Router::handle_last_will", r"routing::append_will_message$", 1)]
    from .c05 import try_ok_edge
    for fn, callee_re, floor in appenders:
        body = prog.one("^" + re.escape(fn) + "$")
        sites = [(bb, t) for bb, t in body.calls() if re.search(callee_re, callee_path(t)) and not body.is_cleanup(bb)]
        ctx.floor(rule, "append sites in " + fn, len(sites), floor)
        pops = [bb for bb, t in body.calls() if callee_path(t).endswith("VecDeque::<T, A>::pop_front") and (receiver_fields(body, t) or [None])[-1] == "notifications"]
        if not pops:
            ctx.violation(rule, fn, "no drain", "the handler appends to the commit log but never drains self.notifications", site=body.fn_loc())
            continue
        # flags: every bool local assigned a constant in this function (new_data, force_ack, disconnect)
        flags = sorted({st["lhs"]["l"] for b in body.blocks for st in b["s"]
                        if "lhs" in st and not st["lhs"].get("p") and body.local_ty(st["lhs"]["l"]) == "bool"
                        and st["rv"]["k"] == "use" and op_const(st["rv"]["a"]) is not None and body.local_name(st["lhs"]["l"])})
        rets = set(return_blocks(body))
        for bb, t in sites:
            # Ok edge of the match on the call result
            dest = t["dest"]["l"]
            ok_t = None
            for s in discr_switches(body, r"result::Result$"):
                if s[4]["l"] == dest and not s[4].get("p"):
                    ok_t = variant_target(s, "Ok")
            if ok_t is None:
                ctx.anchor_missing(rule, "%s: result of the append at %s is not matched" % (fn, body.loc(t.get("sp"))))
                continue
            states = flag_reach(body, [ok_t], flags, avoid_blocks=pops)
            bad = [b for (b, v) in states if b in rets]
            if bad:
                ctx.violation(rule, fn, "append at %s without drain" % body.loc(t.get("sp")).rsplit(":", 1)[-1] if False else "successful append can skip the notification drain",
                              "a flag-consistent path from the Ok edge of the append reaches return without popping self.notifications: woken waiters would stay parked",
                              site=body.loc(t.get("sp")))
            else:
                ctx.ok(rule, fn, "append at line %s: every flag-consistent path drains notifications" % body.loc(t.get("sp")).rsplit(":", 1)[-1],
                       site=body.loc(t.get("sp")))
        # loop shape: Some edge of pop_front -> track and reschedule(FreshData) before the next pop
        for pb in pops:
            pt = body.blocks[pb]["t"]
            some_t = none_t = None
            for s in discr_switches(body, r"option::Option$"):
                if s[4]["l"] == pt["dest"]["l"]:
                    some_t, none_t = variant_target(s, "Some"), variant_target(s, "None")
            tracks = [b for b, t2 in body.calls() if callee_path(t2).endswith("Scheduler::track")]
            rescheds = []
            for b, t2 in body.calls():
                if callee_path(t2).endswith("Scheduler::reschedule"):
                    if any(s.kind == "agg" and s.var == "FreshData" for s in flatten_src(provenance(body, t2["args"][2]))):
                        # id comes from the popped element
                        if any(s.kind == "call" and s.path.endswith("pop_front") for s in flatten_src(provenance(body, t2["args"][1]))):
                            rescheds.append(b)
            if some_t is None:
                ctx.anchor_missing(rule, "%s: pop_front result not matched" % fn)
                continue
            r1 = reachable(body, (some_t,), avoid_blocks=tracks)
            r2 = reachable(body, (some_t,), avoid_blocks=rescheds)
            if pb in r1 or (r1 & rets):
                ctx.violation(rule, fn, "drain loop without track", "a popped waiter can be dropped without Scheduler::track", site=body.loc(pt.get("sp")))
            elif pb in r2 or (r2 & rets):
                ctx.violation(rule, fn, "drain loop without reschedule", "a popped waiter is tracked but its connection is not rescheduled with FreshData (for the popped id)", site=body.loc(pt.get("sp")))
            else:
                ctx.ok(rule, fn, "drain loop tracks and reschedules (FreshData) every popped waiter", site=body.loc(pt.get("sp")))
            # the drain empties the queue: after a popped waiter was handled control returns to the pop (a loop);
            # the only way past the drain is the None edge
            past = reachable(body, (some_t,), avoid_blocks=(pb,)) & rets
            if pb not in reachable(body, (some_t,)) or past:
                ctx.violation(rule, fn, "drain stops after the first waiter",
                              "after handling one popped waiter the handler can go on without popping again: the other connections parked on the log are not woken for the data just appended",
                              site=body.loc(pt.get("sp")))
            else:
                ctx.ok(rule, fn, "the drain loops until notifications.pop_front() returns None", site=body.loc(pt.get("sp")))


# ------------------------------------------------------------------------------------------

def conserve(ctx, prog):
    rule = "R-C01-conserve"
    a = prog.one(r"^router::routing::Router::consume$")
    r = prog.one(r"^router::routing::Router::consume$", view="R")
    # R-view: no non-cleanup drop of a DataRequest
    n = 0
    for bi, b in enumerate(r.blocks):
        t = b["t"]
        if t["k"] == "drop":
            ty = r.ty(t["ty"])
            if ty == "router::DataRequest":
                n += 1
                if b.get("cleanup"):
                    ctx.ok(rule, r.id, "drop(DataRequest) only on unwind", site=r.loc(t.get("sp")), trivial=True)
                else:
                    ctx.violation(rule, r.id, "DataRequest dropped", "a DataRequest is dropped on a normal path of consume(): that subscription stops being served", site=r.loc(t.get("sp")))
    # forward_device_data takes &mut DataRequest: it cannot consume it
    f = prog.one(r"^router::routing::forward_device_data$")
    if f.local_ty(1).startswith("&mut router::DataRequest"):
        ctx.ok(rule, f.id, "takes the request by &mut (cannot drop it)")
    else:
        ctx.violation(rule, f.id, "request by value", "forward_device_data now takes the DataRequest by value", site=f.fn_loc())
    # A-view table
    sws = [s for s in discr_switches(a, r"routing::ConsumeStatus$")]
    if len(sws) != 1:
        raise AnchorMissing("consume: expected one match on ConsumeStatus, found %d" % len(sws))
    sw = sws[0]
    dom = dominators(a)
    after = reachable_after(a, [sw[0]])
    heads = [d for d in dom[sw[0]] if d in after]
    loop_head = max(heads, key=lambda x: len(dom[x])) if heads else None
    for variant in sorted(sw[5]):
        exp = PAUSE_TABLE.get(variant)
        if exp is None:
            ctx.violation(rule, a.id, "ConsumeStatus::%s has no row" % variant, "new ConsumeStatus variant without a rule row")
            continue
        tgt = variant_target(sw, variant)
        region = {b for b in reachable(a, (tgt,), avoid_blocks=(loop_head,) if loop_head is not None else ()) if tgt in dom.get(b, ())}
        homes = []
        pauses = []
        for b in region:
            t = a.blocks[b]["t"]
            if t["k"] != "call":
                continue
            cp = callee_path(t)
            if cp.endswith("VecDeque::<T, A>::push_back"):
                rsrc = flatten_src(provenance(a, t["args"][0]))
                if any(s.kind == "call" and s.path.endswith("VecDeque::<T>::new") for s in rsrc):
                    homes.append("skipped")
                elif any(s.kind == "call" and s.path.endswith("Scheduler::poll") for s in flatten_src(provenance(a, t["args"][0], through_calls=[r"ops::Try>::branch$"]))):
                    homes.append("requests")
                else:
                    homes.append("other")
            elif cp.endswith("DataLog::park"):
                homes.append("park")
            elif cp.endswith("Scheduler::pause"):
                rs = [s.var for s in flatten_src(provenance(a, t["args"][2])) if s.kind == "agg"]
                pauses.append(rs[0] if rs else "?")
        if homes == [exp[0]] and pauses == ([exp[1]] if exp[1] else []):
            ctx.ok(rule, a.id, "ConsumeStatus::%s → %s%s" % (variant, exp[0], (" + pause(%s)" % exp[1]) if exp[1] else ""))
        else:
            ctx.violation(rule, a.id, "ConsumeStatus::%s arm" % variant,
                          "arm moves the request to %s and pauses %s; required: exactly [%s] and pause %s" % (homes, pauses, exp[0], exp[1]),
                          site=a.loc(a.blocks[tgt]["t"].get("sp")))
    # every exit after the liveness check passes trackv or pause... the tail: requests.extend(skipped) then trackv
    tv = [bb for bb, t in a.calls() if callee_path(t).endswith("Scheduler::trackv") and not a.is_cleanup(bb)]
    ctx.floor(rule, "Scheduler::trackv calls in consume", len(tv), 2)
    fwd = [bb for bb, t in a.calls() if callee_path(t).endswith("routing::forward_device_data") and not a.is_cleanup(bb)]
    rets = return_blocks(a)
    if fwd and must_pass(a, fwd, rets, via_blocks=tv):
        ctx.ok(rule, a.id, "every path from forward_device_data to return hands the remaining requests back with trackv")
    else:
        ctx.violation(rule, a.id, "requests not handed back", "a path from forward_device_data to return skips Scheduler::trackv: polled requests are lost", site=a.fn_loc())
    # the pop_front == None exit also returns the skipped requests
    pops = [bb for bb, t in a.calls() if callee_path(t).endswith("VecDeque::<T, A>::pop_front") and not a.is_cleanup(bb)]
    if pops and must_pass(a, pops, rets, via_blocks=tv):
        ctx.ok(rule, a.id, "every path from requests.pop_front to return passes trackv")
    else:
        ctx.violation(rule, a.id, "pop without trackv", "after popping a request a path returns without Scheduler::trackv", site=a.fn_loc())
    container_drops(ctx, rule, r)


def container_drops(ctx, rule, r):
    """R-view (drop-elaborated): a VecDeque<DataRequest> that may still hold requests must be moved on
    (trackv / extend), never dropped on a normal path.  The queue created locally (skipped requests) has
    no normal-path drop at all; the polled queue may be dropped only where it is known empty or untouched:
    on paths that reach the drop from forward_device_data only through pop_front() == None."""
    local_new = set()
    for bb, t in r.calls():
        if callee_path(t).endswith("VecDeque::<T>::new") and "VecDeque<router::DataRequest>" in r.local_ty(t["dest"]["l"]):
            local_new.add(t["dest"]["l"])
    # follow plain moves of the fresh queue into its named local
    changed = True
    while changed:
        changed = False
        for b in r.blocks:
            for st in b["s"]:
                if "lhs" in st and not st["lhs"].get("p") and st["rv"]["k"] == "use" and op_local(st["rv"]["a"]) in local_new and st["lhs"]["l"] not in local_new:
                    local_new.add(st["lhs"]["l"])
                    changed = True
    fwd = [bb for bb, t in r.calls() if callee_path(t).endswith("routing::forward_device_data") and not r.is_cleanup(bb)]
    none_targets = []
    for sw in discr_switches(r, r"Option$|Option<"):
        src = flatten_src(place_provenance(r, sw[4])) if sw[4] else []
        if any(s.kind == "call" and s.path.endswith("VecDeque::<T, A>::pop_front") for s in src):
            nt = variant_target(sw, "None")
            if nt is not None:
                none_targets.append(nt)
    if not fwd or not none_targets:
        ctx.anchor_missing(rule, "consume (R view): forward_device_data call / pop_front None edge not found (%d/%d)" % (len(fwd), len(none_targets)))
        return
    live_after_fwd = reachable(r, fwd, avoid_blocks=tuple(none_targets))

    def on_fresh(t):
        return any(s.kind == "call" and s.path.endswith("VecDeque::<T>::new") for s in flatten_src(provenance(r, t["args"][0])))
    fresh_pushes = [bb for bb, t in r.calls() if re.search(r"VecDeque::<T, A>::(push_back|push_front|extend|append)$|Extend<T>>::extend$", callee_path(t)) and not r.is_cleanup(bb) and on_fresh(t)]
    fresh_none = []
    for sw in discr_switches(r, r"Option$|Option<"):
        src = flatten_src(place_provenance(r, sw[4])) if sw[4] else []
        for s_ in src:
            if s_.kind == "call" and s_.path.endswith("VecDeque::<T, A>::pop_front") and on_fresh(s_.term):
                nt = variant_target(sw, "None")
                if nt is not None:
                    fresh_none.append(nt)
    maybe_filled = reachable_after(r, fresh_pushes, avoid_blocks=tuple(fresh_none)) if fresh_pushes else set()
    n = 0
    for bi, b in enumerate(r.blocks):
        t = b["t"]
        if t["k"] != "drop" or b.get("cleanup") or "VecDeque<router::DataRequest>" not in r.ty(t["ty"]) or t["pl"].get("p"):
            continue
        n += 1
        l = t["pl"]["l"]
        if l in local_new:
            if bi in maybe_filled:
                ctx.violation(rule, r.id, "skipped requests dropped",
                              "the locally built queue of skipped DataRequests is dropped on a normal path where it may hold requests, instead of being handed back to the tracker: a shared-subscription member that was skipped never reads its group again",
                              site=r.loc(t.get("sp")))
            else:
                ctx.ok(rule, r.id, "fresh queue dropped only where nothing was pushed to it or it was drained (pop_front()==None)", site=r.loc(t.get("sp")))
        elif bi in live_after_fwd:
            ctx.violation(rule, r.id, "polled requests dropped",
                          "the polled request queue is dropped on a path where it may still hold requests", site=r.loc(t.get("sp")))
        else:
            ctx.ok(rule, r.id, "polled queue dropped only where it is empty (pop_front()==None) or before any request was taken", site=r.loc(t.get("sp")))
    ctx.ok(rule, r.id, "%d normal-path drop(s) of VecDeque<DataRequest> examined; fresh queue locals %s have none" % (n, sorted(local_new)), trivial=True)


# ------------------------------------------------------------------------------------------
# P9: exhaustive interpretation of Tracker::try_ready

class Stop(Exception):
    pass


def interp_try_ready(prog, body, status, reason):
    """concrete interpretation of the A-view body on enum values.
    status: ("Ready",) or ("Paused", (reason,)) ; reason: (variant,)
    returns (result, new_status, asserted_false)"""
    env = {}
    selfv = {"status": status}
    env[2] = reason
    asserted = []

    def read_place(pl):
        l = pl["l"]
        projs = pl.get("p") or []
        if l == 1:
            v = ("ref", "self")
        else:
            v = env.get(l, ("undef",))
        for p in projs:
            if p == "*":
                if v == ("ref", "self"):
                    v = ("selfobj",)
                elif isinstance(v, tuple) and v and v[0] == "ref":
                    v = v[1]
                continue
            if isinstance(p, dict) and "f" in p:
                if v == ("selfobj",):
                    v = selfv[p["f"]]
                elif isinstance(v, tuple) and len(v) > 1 and p["f"].isdigit():
                    v = v[1][int(p["f"])]
                else:
                    raise Stop("field of %r" % (v,))
                continue
            if isinstance(p, dict) and "d" in p:
                continue
            raise Stop("projection")
        return v

    def operand(op):
        k = op_const(op)
        if k is not None:
            if "v" in k:
                return ("int", k["v"])
            if "promoted" in k:
                pb = prog.promoted[(body.id, k["promoted"])]
                # promoted body: _1 = aggregate; _0 = &_1
                val = None
                penv = {}
                for st in pb.blocks[0]["s"]:
                    if "lhs" in st:
                        rv = st["rv"]
                        if rv["k"] == "agg":
                            penv[st["lhs"]["l"]] = (rv["var"], tuple(penv.get(op_local(o), operand_p(o, penv)) for o in rv["ops"]))
                        elif rv["k"] == "ref":
                            penv[st["lhs"]["l"]] = ("ref", penv[rv["pl"]["l"]])
                return penv[0]
            return ("const", k.get("s"))
        pl = op_place(op)
        return read_place(pl)

    def operand_p(o, penv):
        l = op_local(o)
        if l is not None:
            return penv[l]
        return None

    def deref(v):
        while isinstance(v, tuple) and v and v[0] == "ref":
            v = v[1] if v[1] != "self" else ("selfobj",)
        return v

    variants = {a["id"]: [v["n"] for v in a["variants"]] for a in prog.adts.values()}

    def discr_of(v, adt):
        v = deref(v)
        names = variants.get(adt)
        if names and v[0] in names:
            return names.index(v[0])
        if adt == "std::option::Option":
            return ["None", "Some"].index(v[0])
        raise Stop("discr of %r in %s" % (v, adt))

    bb = 0
    steps = 0
    while True:
        steps += 1
        if steps > 500:
            raise Stop("loop")
        blk = body.blocks[bb]
        for st in blk["s"]:
            if "lhs" not in st:
                continue
            rv = st["rv"]
            k = rv["k"]
            if k == "use":
                val = operand(rv["a"])
            elif k == "ref":
                pl = rv["pl"]
                if pl["l"] == 1 and pl.get("p") == ["*"]:
                    val = ("ref", "self")
                else:
                    val = ("ref", read_place(pl))
            elif k == "discr":
                val = ("int", discr_of(read_place(rv["pl"]), rv.get("adt")))
            elif k == "agg":
                val = (rv.get("var") or rv["ak"], tuple(operand(o) for o in rv["ops"]))
            elif k == "un" and rv["op"] == "Not":
                x = operand(rv["a"])
                val = ("int", 0 if x[1] else 1)
            else:
                raise Stop("rvalue " + k)
            lhs = st["lhs"]
            if lhs["l"] == 1 and lhs.get("p"):
                fs = place_fields(lhs)
                selfv[fs[-1]] = val
            elif not lhs.get("p"):
                env[lhs["l"]] = val
            else:
                raise Stop("store to projection")
        t = blk["t"]
        k = t["k"]
        if k in ("goto", "falseedge", "falseunwind", "drop"):
            bb = t["t"]
        elif k == "switch":
            v = operand(t["on"])
            tgt = None
            for val, x in t["targets"]:
                if val == v[1]:
                    tgt = x
            bb = tgt if tgt is not None else t["otherwise"]
        elif k == "return":
            return env.get(0), selfv["status"], asserted
        elif k == "call":
            cp = callee_path(t)
            if re.search(r"PartialEq(<[^>]*>)?>?::(eq|ne)$", cp):
                a_, b_ = deref(operand(t["args"][0])), deref(operand(t["args"][1]))
                eq = a_ == b_
                res = eq if cp.endswith("eq") else not eq
                env[t["dest"]["l"]] = ("int", 1 if res else 0)
                bb = t["t"]
            elif t["fn"].get("never"):
                asserted.append(body.loc(t.get("sp")))
                return ("panic",), selfv["status"], asserted
            else:
                raise Stop("call " + cp)
        elif k == "unreachable":
            raise Stop("unreachable")
        else:
            raise Stop("terminator " + k)


def try_ready_table(prog):
    """exhaustive decision table of Tracker::try_ready: {(reason, state): 'Ready' | '-' | ...}"""
    body = prog.one(r"^router::scheduler::Tracker::try_ready$")
    reasons = prog.enum_variants("router::scheduler::ScheduleReason")
    pauses = prog.enum_variants("router::scheduler::PauseReason")
    if not reasons or not pauses:
        raise AnchorMissing("ScheduleReason / PauseReason enums not found")
    table = {}
    states = [("Ready", ())] + [("Paused", ((p, ()),)) for p in pauses]
    for rsn in reasons:
        for stt in states:
            try:
                res, new_status, asserted = interp_try_ready(prog, body, stt, (rsn, ()))
            except Stop as e:
                raise AnchorMissing("try_ready is no longer a pure finite-enum function the interpreter can evaluate (%s)" % e)
            key = (rsn, "Ready" if stt[0] == "Ready" else stt[1][0][0])
            if res and res[0] == "panic":
                table[key] = "debug-assert"
            elif res and res[0] == "Some":
                table[key] = "Ready" if new_status[0] == "Ready" else "Some-but-not-ready"
            else:
                table[key] = "-" if new_status == stt else "changed-without-signal"
    return body, table


def tryready(ctx, prog):
    rule = "R-C01-tryready"
    body, table = try_ready_table(prog)
    ctx.stats["try_ready_table"] = {"%s,%s" % k: v for k, v in sorted(table.items())}
    for key in REQUIRED_WAKEUPS:
        got = table.get(key)
        if got == "Ready":
            ctx.ok(rule, body.id, "(%s, Paused(%s)) → Ready" % key)
        else:
            ctx.violation(rule, body.id, "(%s, Paused(%s))" % key,
                          "try_ready(%s) on a tracker paused for %s yields %r: the wake-up delivery depends on is missing" % (key[0], key[1], got), site=body.fn_loc())
    for key, v in sorted(table.items()):
        if v in ("Some-but-not-ready", "changed-without-signal"):
            ctx.violation(rule, body.id, "(%s, %s) inconsistent" % key, "try_ready returns %s" % v, site=body.fn_loc())
        elif key not in REQUIRED_WAKEUPS:
            ctx.ok(rule, body.id, "(%s, %s) → %s" % (key[0], key[1], v), trivial=(v == "-"))
    # reschedule pushes exactly when Some
    rs = prog.one(r"^router::scheduler::Scheduler::reschedule$")
    tr = [bb for bb, t in rs.calls() if callee_path(t).endswith("Tracker::try_ready")]
    pushes = [bb for bb, t in rs.calls() if callee_path(t).endswith("VecDeque::<T, A>::push_back") and (receiver_fields(rs, t) or [None])[-1] == "readyqueue"]
    some_t = none_t = None
    for s in discr_switches(rs, r"option::Option$"):
        if tr and s[4]["l"] == rs.blocks[tr[0]]["t"]["dest"]["l"]:
            some_t, none_t = variant_target(s, "Some"), variant_target(s, "None")
    rets = set(return_blocks(rs))
    if some_t is None or not pushes:
        ctx.violation(rule, rs.id, "queue on Some", "reschedule() no longer queues the id on the Some result of try_ready", site=rs.fn_loc())
    elif (reachable(rs, (some_t,), avoid_blocks=pushes) & rets):
        ctx.violation(rule, rs.id, "Some without push", "try_ready returned Some but a path returns without pushing the id onto readyqueue", site=rs.fn_loc())
    elif none_t is not None and (reachable(rs, (none_t,)) & set(pushes)):
        ctx.violation(rule, rs.id, "push on None", "the id is queued although try_ready returned None (duplicate ready-queue entries)", site=rs.fn_loc())
    else:
        ctx.ok(rule, rs.id, "readyqueue.push_back(id) exactly on the Some edge of try_ready")


# ------------------------------------------------------------------------------------------

def start(ctx, prog):
    rule = "R-C01-start"
    body = prog.one(r"^router::routing::Router::handle_device_payload$")
    pf = [(bb, t) for bb, t in body.calls() if callee_path(t).endswith("Router::prepare_filter") and not body.is_cleanup(bb)]
    ctx.floor(rule, "prepare_filter calls", len(pf), 1)
    for bb, t in pf:
        cur = flatten_src(provenance(body, t["args"][2]))
        idx = flatten_src(provenance(body, t["args"][3]))
        c_ok = cur and all(s.kind == "call" and s.path.endswith("DataLog::next_native_offset") and s.fields[-1:] == ["1"] for s in cur)
        i_ok = idx and all(s.kind == "call" and s.path.endswith("DataLog::next_native_offset") and s.fields[-1:] == ["0"] for s in idx)
        same = c_ok and i_ok and cur[0].bb == idx[0].bb
        if same:
            ctx.ok(rule, body.id, "prepare_filter(cursor, idx) = next_native_offset(filter).{1,0} of one call", site=body.loc(t.get("sp")))
        else:
            ctx.violation(rule, body.id, "start cursor", "the cursor/filter index handed to prepare_filter do not both come from one next_native_offset() call (cursor=%s idx=%s)" % (cur, idx), site=body.loc(t.get("sp")))
    p = prog.one(r"^router::routing::Router::prepare_filter$")
    n = 0
    for bi, b in enumerate(p.blocks):
        for st in b["s"]:
            if "lhs" in st and st["rv"]["k"] == "agg" and st["rv"].get("adt") == "router::DataRequest":
                n += 1
                f = st["rv"]["fields"]
                cs = flatten_src(provenance(p, st["rv"]["ops"][f.index("cursor")]))
                fs = flatten_src(provenance(p, st["rv"]["ops"][f.index("filter_idx")]))
                if cs and all(s.kind == "param" and s.l == 3 for s in cs) and fs and all(s.kind == "param" and s.l == 4 for s in fs):
                    ctx.ok(rule, p.id, "DataRequest{cursor, filter_idx} = the cursor/filter_idx parameters", site=p.loc(st.get("sp")))
                else:
                    ctx.violation(rule, p.id, "DataRequest fields", "a new DataRequest does not start at the cursor / filter index it was given", site=p.loc(st.get("sp")))
                # the remaining fields: filter path and granted QoS of the subscribed filter, the group it was given, a positive batch size
                qs = flatten_src(provenance(p, st["rv"]["ops"][f.index("qos")]))
                ps = flatten_src(provenance(p, st["rv"]["ops"][f.index("filter")], through_calls=[r"Clone>::clone$"]))
                gs = flatten_src(provenance(p, st["rv"]["ops"][f.index("group")]))
                mc = op_const(st["rv"]["ops"][f.index("max_count")])
                problems = []
                def is_filter_qos(s):
                    if s.kind == "discr":     # `filter.qos as u8`: discriminant of the field
                        src = flatten_src(place_provenance(p, s.pl))
                        return bool(src) and all(x.kind == "param" and x.l == 5 and x.fields[-1:] == ["qos"] for x in src)
                    return s.kind == "param" and s.l == 5 and s.fields[-1:] == ["qos"]
                if not (qs and all(is_filter_qos(s) for s in qs)):
                    problems.append("qos is not filter.qos")
                ps = [s for s in ps if not (s.kind == "call" and s.path.endswith("Clone>::clone"))]
                if not (ps and all(s.kind == "param" and s.l == 5 and s.fields[-1:] == ["path"] for s in ps)):
                    problems.append("filter is not filter.path")
                if not (gs and all(s.kind == "param" and s.l == 6 for s in gs)):
                    problems.append("group is not the group parameter")
                if mc is None or not mc.get("v"):
                    problems.append("max_count is not a positive constant")
                if problems:
                    ctx.violation(rule, p.id, "DataRequest subscription fields", "a new DataRequest is built with the wrong subscription data: %s" % "; ".join(problems), site=p.loc(st.get("sp")))
                else:
                    ctx.ok(rule, p.id, "DataRequest{filter, qos, group, max_count} = filter.path, filter.qos, the group parameter, a positive batch size", site=p.loc(st.get("sp")))
    ctx.floor(rule, "DataRequest constructions in prepare_filter", n, 1)
    # 'with the subscription's granted QoS': the Subscribe arm grants filter.qos in the SUBACK for EVERY filter, so on the
    # path where the filter was already subscribed (subscriptions.insert() == false) the existing request must take
    # the new QoS as well
    from .c15 import switch_on_call_result
    ins = [w for w in switch_on_call_result(p, r"HashSet::<T, S(, A)?>::insert$") if [x.split(".")[-1] for x in (receiver_fields(p, p.blocks[w[3]]["t"]) or [])][-1:] == ["subscriptions"]]
    if not ins:
        ctx.anchor_missing(rule, "prepare_filter: branch on connection.subscriptions.insert() not found")
    else:
        t_old = ins[0][2]      # insert() returned false: re-subscription
        region = reachable(p, (t_old,), avoid_blocks=(ins[0][1],))
        updates = False
        for b in region:
            for st in p.blocks[b]["s"]:
                if "lhs" in st and place_fields(st["lhs"])[-1:] == ["qos"]:
                    updates = True
            t = p.blocks[b]["t"]
            if t["k"] == "call" and re.search(r"(update|set|change).*qos|resubscribe|replace", callee_path(t), re.I):
                updates = True
        # the existing request lives in one of three places: the tracker, the log's waiters, or — when a publish
        # earlier in the same read has woken it — Router.notifications (put back on the tracker at the end of the read)
        homes = {"tracker": False, "waiters": False, "notifications": False}
        for b in region:
            t = p.blocks[b]["t"]
            if t["k"] == "call":
                cp = callee_path(t)
                if re.search(r"Scheduler::\w*qos\w*$", cp, re.I):
                    homes["tracker"] = True
                if re.search(r"DataLog::\w*qos\w*$", cp, re.I):
                    homes["waiters"] = True
                fs = [x.split(".")[-1] for x in (receiver_fields(p, t) or [])]
                if fs[-1:] == ["notifications"] and re.search(r"VecDeque::<T, A>::(iter_mut|retain_mut|make_contiguous|as_mut_slices|get_mut|range_mut)$|IntoIterator>::into_iter$", cp):
                    homes["notifications"] = True
            for st in p.blocks[b]["s"]:
                if "lhs" in st and st["rv"]["k"] == "ref" and st["rv"].get("bk") == "mut" and place_fields(st["rv"]["pl"])[-1:] == ["notifications"]:
                    homes["notifications"] = True
        if updates and all(homes.values()):
            ctx.ok(rule, p.id, "a re-subscription updates the QoS its existing request is served with, wherever that request waits (tracker, waiters, notifications)")
        elif updates:
            ctx.violation(rule, p.id, "re-subscription misses the request in: " + ", ".join(k for k, v in homes.items() if not v),
                          "a re-subscription updates the QoS of the existing request in %s only, but the request may wait in %s — a publish earlier in the same read moves a parked request into Router.notifications, from where it goes back to the tracker with the OLD QoS: granted at the new QoS, served at the old one"
                          % (", ".join(k for k, v in homes.items() if v) or "no place", ", ".join(k for k, v in homes.items() if not v)),
                          site=p.loc(p.blocks[ins[0][3]]["t"].get("sp")))
        else:
            ctx.violation(rule, p.id, "re-subscription keeps the old QoS",
                          "when the filter is already subscribed prepare_filter changes nothing, but the Subscribe arm grants the newly requested QoS in the SUBACK: after re-subscribing at another QoS the client is served at the old one, not at the granted one",
                          site=p.loc(p.blocks[ins[0][3]]["t"].get("sp")))
    # next_native_offset returns the log's next offset (tail)
    nn = prog.one(r"^router::logs::DataLog::next_native_offset$")
    if [bb for bb, t in nn.calls() if callee_path(t).endswith("CommitLog::<T>::next_offset")]:
        ctx.ok(rule, nn.id, "returns CommitLog::next_offset() (log tail)")
    else:
        ctx.violation(rule, nn.id, "tail", "next_native_offset no longer reads CommitLog::next_offset", site=nn.fn_loc())


def cache(ctx, prog):
    rule = "R-C01-cache"
    n = 0
    for body, bb, t in call_sites(prog, r"HashMap::<K, V, S, A>::insert$"):
        fs = receiver_fields(body, t)
        if not fs or fs[-1] != "filter_indexes":
            # `filter_indexes` local inside DataLog::new
            if not (body.id.endswith("DataLog::new") and body.local_name(receiver_place(body, t)["l"] if receiver_place(body, t) else -1) == "filter_indexes"):
                continue
        n += 1
        if body.id.endswith("DataLog::new"):
            ctx.ok(rule, body.id, "constructor: topic cache is empty by construction", site=body.loc(t.get("sp")))
            continue
        its = [b for b, t2 in body.calls() if callee_path(t2).endswith("HashMap::<K, V, S, A>::iter_mut") and any(
            getattr(s, "fields", None) and "publish_filters" in s.fields for s in flatten_src(provenance(body, t2["args"][0])))]
        ms = [b for b, t2 in body.calls() if callee_path(t2).endswith("protocol::matches")]
        rets = return_blocks(body)
        # the new index is pushed for *every* matching cached topic: the push sits inside the
        # iteration (on a cycle with the map iterator's next()), not after a find()/next()
        nexts = [b for b, t2 in body.calls() if re.search(r"hash_map::IterMut<.*> as std::iter::Iterator>::next$", callee_path(t2))]
        pushes = [b for b, t2 in body.calls() if callee_path(t2).endswith("Vec::<T, A>::push") and not body.is_cleanup(b)]
        in_loop = any(n in reachable_after(body, [p]) and p in reachable_after(body, [n]) for p in pushes for n in nexts)
        if not in_loop:
            ctx.violation(rule, body.id, "cache extended for one topic only",
                          "the new filter index is not pushed inside the loop over all cached topics (publish_filters): only some already-cached topics learn about the new subscription", site=body.loc(t.get("sp")))
            continue
        # the match decides alone: between the iterator's next() and the push, every branch that can skip the push
        # is a branch on the result of protocol::matches (or the iterator's own Some/None). A cheaper pre-test
        # (prefix / length / wildcard shortcut) disagrees with matches() somewhere - `sport/#` matches `sport`.
        foreign = []
        for p_ in pushes:
            for n_ in nexts:
                if not (n_ in reachable_after(body, [p_]) and p_ in reachable_after(body, [n_])):
                    continue
                region = reachable_after(body, [n_], avoid_blocks=[p_, n_])
                for b_ in sorted(region):
                    blk = body.blocks[b_]
                    if blk.get("cleanup") or blk["t"]["k"] != "switch":
                        continue
                    if any(b_ in live_succ(body, nn) for nn in nexts):
                        continue  # the iterator's own Some/None switch
                    succs = live_succ(body, b_)
                    can = [s_ for s_ in succs if s_ == p_ or p_ in reachable(body, [s_], avoid_blocks=[n_])]
                    if not can or len(can) == len(succs):
                        continue  # does not decide whether the push is reached
                    srcs = provenance(body, blk["t"]["on"])
                    if srcs and all(s_.kind == "call" and s_.path.endswith("protocol::matches") for s_ in srcs):
                        continue
                    foreign.append(b_)
        if foreign:
            ctx.violation(rule, body.id, "cache extension decided by more than the match",
                          "in the loop over the cached topics a branch that is not on protocol::matches()'s result can skip the push of the new filter's index: wherever that pre-test and matches() disagree a cached topic never learns about the new subscription",
                          site=body.loc(body.blocks[foreign[0]]["t"].get("sp")))
            continue
        if its and ms and must_pass(body, [bb], rets, via_blocks=its):
            ctx.ok(rule, body.id, "new filter is matched against every cached topic (publish_filters.iter_mut + matches)", site=body.loc(t.get("sp")))
        else:
            ctx.violation(rule, body.id, "cache not extended", "a filter is added to filter_indexes without updating publish_filters for already cached topics: publishes on those topics would miss the new subscription", site=body.loc(t.get("sp")))
    ctx.floor(rule, "filter_indexes.insert sites", n, 1)
    m = prog.one(r"^router::logs::DataLog::matches$")
    cg_callees = set()
    for b in [m] + prog.find(r"^router::logs::DataLog::matches::\{closure#\d+\}$"):
        for bb, t in b.calls():
            cg_callees.add(callee_path(t))
    if "protocol::matches" in cg_callees:
        ctx.ok(rule, m.id, "routes through protocol::matches")
    else:
        ctx.violation(rule, m.id, "matcher", "DataLog::matches no longer uses protocol::matches", site=m.fn_loc())


def takeover_keeps_subscriptions(ctx, prog):
    """A persistent subscriber that reconnects while its previous connection is still registered (takeover) keeps its
    subscriptions only if the stored session is looked up AFTER the takeover saved it and is not consumed by a refused
    CONNECT: otherwise the new connection starts with no subscriptions and matching messages are never delivered to
    it. The ordering obligations are R-C08-restore's; their verdicts are re-filed here (recomputed on every run)."""
    from . import c08
    from .common import Relabel
    view = Relabel(ctx, "R-C01-takeover", lambda fn, inst: True)
    c08.restore(view, prog)
    ctx.floor("R-C01-takeover", "verdicts about session lookup at admission", view.kept, 2)
