"""C06 — broker answers every request packet with exactly one matching ack (DESIGN §4 C06)."""
import re
from ..core import *

EXPLANATION = (
    "Static decision on the MIR of /repo's working tree of four structural clauses of C06 in Router::handle_device_payload / consume / AckLog: "
    "(R-C06-table) the arm of each incoming packet type registers exactly the acks of the MQTT table (Publish→puback|pubrec by QoS, Subscribe→suback, Unsubscribe→unsuback, PubRec→pubrel, PubRel→pubcomp, PingReq→pingresp, others none), "
    "each ack's packet id derives from the request's packet id, and the AckLog is the one of the handler's own connection id; "
    "(R-C06-once) on every path through an arm that does not flag a disconnect the ack is registered exactly once (a registration inside a per-filter loop, or a path with none, is a violation), "
    "and every shape of a request packet (with or without MQTT 5 properties) enters its arm; "
    "(R-C06-flush) every registration is followed by force_ack = true or reschedule(id, IncomingAck), force_ack leads to a reschedule of the handler's id whose reason wakes the tracker from Caughtup and InflightFull (per the exhaustive try_ready table), and consume() flushes the AckLog before forwarding; AckLog::readv has no other caller; "
    "(R-C06-qos2) a QoS 2 publish is never appended in the iteration that records it; `recorded` is pushed only by pubrec and popped only by pubcomp; the PubRel arm appends what pubcomp returned. "
    "(R-C06-suback) the SUBACK return code mirrors the filter's QoS and is pushed only after prepare_filter; (R-C06-batch) the router-wide spare batch buffer is emptied before it is stored back, so one connection's leftover requests are never answered to another (shared with R-C14-cache). "
    "NOT decided: ordering of replies across batches and schedules; 'eventually'.")
ASSUMPTIONS = ["rustc MIR construction is correct", "the link writes every Notification::DeviceAck it drains (C20 / link code not covered here)"]
TECHNIQUE = "static analysis: handler-table extraction from the packet match (MIR switch arms), min/max call counts per arm with loop detection, provenance of packet ids, must-pass rules"
LEVEL_TEXT = ("For every packet and batch shape: the ack table, exactly-once registration per request on all non-disconnect paths, packet-id provenance, flush pairing and the QoS 2 hold/release structure are decided on the code shape. "
              "Delivery of the registered acks in order over schedules is not decided.")
LEVEL_NOTE = "Trusted: rustc MIR. The disconnect flag is identified structurally (the bool guarding the final handle_disconnection call)."

TABLE = {
    "Publish": {"puback", "pubrec"},
    "Subscribe": {"suback"},
    "Unsubscribe": {"unsuback"},
    "PubRec": {"pubrel"},
    "PubRel": {"pubcomp"},
    "PingReq": {"pingresp"},
    "PubAck": set(), "PubComp": set(), "Disconnect": set(), "Connect": set(), "ConnAck": set(),
    "SubAck": set(), "UnsubAck": set(), "PingResp": set(),
}
ACK_METHOD = re.compile(r"^router::logs::AckLog::(puback|pubrec|pubrel|pubcomp|suback|unsuback|pingresp|connack)$")


def packet_switch(body):
    sws = [s for s in discr_switches(body, r"^protocol::Packet$") if not s[4].get("p")]
    if len(sws) != 1:
        raise AnchorMissing("expected exactly one top-level match on protocol::Packet in %s, found %d" % (body.id, len(sws)))
    return sws[0]


def flag_guarding_call(body, callee_regex):
    """the bool local whose true edge guards the (last) call matching callee_regex"""
    dom = dominators(body)
    for bb, t in reversed(list(body.calls())):
        if body.is_cleanup(bb) or not re.search(callee_regex, callee_path(t)):
            continue
        for d in sorted(dom.get(bb, ()), reverse=True):
            bt = body.blocks[d]["t"]
            if bt["k"] == "switch" and dominates(body, bt["otherwise"], bb) and bt["otherwise"] != d:
                l = op_local(bt["on"])
                hops = 0
                while l is not None and hops < 4:
                    dd = single_def(body, l)
                    if dd and dd[2] == "assign" and dd[3]["rv"]["k"] == "use" and op_local(dd[3]["rv"]["a"]) is not None:
                        l = op_local(dd[3]["rv"]["a"]); hops += 1
                    else:
                        break
                if l is not None and body.local_ty(l) == "bool":
                    return l
    return None


def const_assign_blocks(body, local, value):
    out = set()
    for bi, b in enumerate(body.blocks):
        if b.get("cleanup"):
            continue
        for st in b["s"]:
            if "lhs" in st and st["lhs"]["l"] == local and not st["lhs"].get("p") and st["rv"]["k"] == "use":
                k = op_const(st["rv"]["a"])
                if k is not None and k.get("v") == value:
                    out.add(bi)
    return out


def region_of_arm(body, entry, loop_head):
    """blocks of one match arm: reachable from the arm entry without going back through the
    loop head and dominated by the arm entry"""
    dom = dominators(body)
    r = reachable(body, (entry,), avoid_blocks=(loop_head,))
    return {b for b in r if b in dom and entry in dom[b]}


def sccs(nodes, succ):
    index = {}
    low = {}
    on = set()
    stack = []
    out = []
    counter = [0]
    import sys
    sys.setrecursionlimit(10000)

    def strong(v):
        index[v] = low[v] = counter[0]; counter[0] += 1
        stack.append(v); on.add(v)
        for w in succ(v):
            if w not in nodes:
                continue
            if w not in index:
                strong(w); low[v] = min(low[v], low[w])
            elif w in on:
                low[v] = min(low[v], index[w])
        if low[v] == index[v]:
            comp = []
            while True:
                w = stack.pop(); on.discard(w); comp.append(w)
                if w == v:
                    break
            out.append(comp)
    for v in nodes:
        if v not in index:
            strong(v)
    return out


def run(ctx):
    prog = ctx.progs["rumqttd"]
    body = prog.one(r"^router::routing::Router::handle_device_payload$")
    ctx.guarded("R-C06-table", table_and_once, ctx, prog, body)
    ctx.guarded("R-C06-flush", flush, ctx, prog, body)
    ctx.guarded("R-C06-qos2", qos2, ctx, prog, body)
    ctx.guarded("R-C06-suback", suback_codes, ctx, prog, body)
    ctx.guarded("R-C06-batch", batch_buffer, ctx, prog)


def batch_buffer(ctx, prog):
    """requests are answered to the connection that sent them: the router-wide spare batch buffer is emptied
    before it is handed to the next connection (shared with R-C14-cache)"""
    from . import c14
    from .common import Relabel
    view = Relabel(ctx, "R-C06-batch", lambda fn, inst: True)
    c14.recycled_buffer(view, prog)
    ctx.floor("R-C06-batch", "verdicts about the recycled batch buffer", view.kept, 1)


def suback_codes(ctx, prog, body):
    """the SUBACK return code of a filter is the granted QoS of that filter (AtMostOnce -> QoS0, ...), and it is
    reported only after the subscription was registered (prepare_filter)"""
    from .c04 import arm_aggregate
    rule = "R-C06-suback"
    want = {"AtMostOnce": "QoS0", "AtLeastOnce": "QoS1", "ExactlyOnce": "QoS2"}
    tables = 0
    for sw in discr_switches(body, r"protocol::QoS$"):
        pl = sw[4] or {}
        fs = [p_["f"] for p_ in (pl.get("p") or []) if isinstance(p_, dict) and "f" in p_]
        if fs[-1:] != ["qos"]:
            continue
        got = {}
        for v in want:
            tgt = variant_target(sw, v)
            rv = arm_aggregate(body, tgt, lambda r: r.get("adt", "").endswith("SubscribeReasonCode")) if tgt is not None else None
            got[v] = rv["var"] if rv else None
        if not any(got.values()):
            continue
        tables += 1
        if got == want:
            ctx.ok(rule, body.id, "filter.qos -> SubscribeReasonCode: %s" % got, site=body.loc(body.blocks[sw[0]]["t"].get("sp")))
        else:
            ctx.violation(rule, body.id, "granted QoS table", "the SUBACK return code does not mirror the filter's QoS: %s (expected %s)" % (got, want), site=body.loc(body.blocks[sw[0]]["t"].get("sp")))
    ctx.floor(rule, "QoS -> return code tables in the Subscribe arm", tables, 1)
    pushes = []
    for bb, t in body.calls():
        if body.is_cleanup(bb) or not callee_path(t).endswith("Vec::<T, A>::push"):
            continue
        if "SubscribeReasonCode" in body.local_ty(op_local(t["args"][1]) if op_local(t["args"][1]) is not None else 0):
            pushes.append(bb)
    pf = [bb for bb, t in body.calls() if callee_path(t).endswith("Router::prepare_filter") and not body.is_cleanup(bb)]
    ctx.floor(rule, "return_codes.push sites", len(pushes), 1)
    if pf and pushes and all(any(dominates(body, p_, x) for p_ in pf) for x in pushes):
        ctx.ok(rule, body.id, "a return code is reported only after prepare_filter registered the subscription")
    else:
        ctx.violation(rule, body.id, "return code without registration", "a SUBACK return code is pushed on a path that did not call prepare_filter: the client is told it is subscribed but nothing is registered", site=body.fn_loc())


def table_and_once(ctx, prog, body):
    sw = packet_switch(body)
    sbb, adt, m, otherwise, pl, allv = sw
    dom = dominators(body)
    # loop head: the block of the `for packet in packets.drain(..)` next() call — the packet switch's
    # dominator that is on a cycle with it
    disconnect = flag_guarding_call(body, r"Router::handle_disconnection$")
    if disconnect is None:
        raise AnchorMissing("disconnect flag (bool guarding the final handle_disconnection call) not found")
    disc_blocks = const_assign_blocks(body, disconnect, 1)
    ctx.floor("R-C06-once", "assignments disconnect = true", len(disc_blocks), 4)
    # loop head = nearest dominator of the switch block that is reachable from the switch block
    after = reachable_after(body, [sbb])
    heads = [d for d in dom[sbb] if d in after]
    if not heads:
        raise AnchorMissing("packet loop head not found")
    rpo_index = {b: i for i, b in enumerate(sorted(dom[sbb], key=lambda x: len(dom[x])))}
    loop_head = max(heads, key=lambda x: len(dom[x]))
    exits_of_loop = set()

    # ---- rows
    id_param = 2
    n_rows = 0
    for variant in sorted(allv):
        expected = TABLE.get(variant)
        if expected is None:
            ctx.violation("R-C06-table", body.id, "unknown packet variant " + variant, "Packet::%s has no row in the ack table (rules)" % variant)
            continue
        entry = m.get(variant, otherwise)
        if variant not in m:
            # falls into the catch-all arm: must expect no ack
            region = region_of_arm(body, otherwise, loop_head)
        else:
            region = region_of_arm(body, entry, loop_head)
        calls = {}
        for b in region:
            t = body.blocks[b]["t"]
            if t["k"] == "call":
                mm = ACK_METHOD.search(callee_path(t))
                if mm:
                    calls.setdefault(mm.group(1), []).append(b)
        got = set(calls)
        n_rows += 1
        if got == expected:
            ctx.ok("R-C06-table", body.id, "Packet::%s → {%s}" % (variant, ",".join(sorted(got)) or "no ack"), site=body.loc(body.blocks[entry]["t"].get("sp")))
        else:
            ctx.violation("R-C06-table", body.id, "Packet::%s acks" % variant,
                          "arm of Packet::%s registers {%s}, the MQTT table requires {%s}" % (variant, ",".join(sorted(got)), ",".join(sorted(expected))),
                          site=body.loc(body.blocks[entry]["t"].get("sp")))
        if not expected or variant not in m:
            continue
        # ---- shapes: nested patterns that divert a request packet to the catch-all arm
        for s2 in discr_switches(body):
            b2, adt2, m2, oth2, pl2, all2 = s2
            if b2 in region or b2 == entry:
                pass
            ds = [p for p in (pl2.get("p") or []) if isinstance(p, dict)]
            if pl2["l"] == pl["l"] and ds and ds[0].get("d") == variant and oth2 == otherwise and b2 != sbb:
                missing = sorted(all2 - set(m2))
                ctx.violation("R-C06-once", body.id, "Packet::%s shape %s ignored" % (variant, "/".join(missing)),
                              "a Packet::%s whose field %s is %s falls into the catch-all arm and gets no %s" % (variant, ds[-1].get("f"), "/".join(missing), "/".join(sorted(expected))),
                              site=body.loc(body.blocks[b2]["t"].get("sp")))
        # ---- pkid provenance and AckLog identity
        for meth, blocks in calls.items():
            for b in blocks:
                t = body.blocks[b]["t"]
                # receiver: ackslog.get_mut(id).unwrap()
                rsrc = flatten_src(provenance(body, t["args"][0], through_calls=[r"Option::<T>::unwrap$"]))
                okid = False
                for s in rsrc:
                    if s.kind == "call" and re.search(r"slab::Slab::<T>::get_mut$", s.path):
                        ksrc = flatten_src(provenance(body, s.term["args"][1]))
                        if ksrc and all(x.kind == "param" and x.l == id_param for x in ksrc):
                            okid = True
                if okid:
                    ctx.ok("R-C06-table", body.id, "%s registered on the AckLog of the handler's own id" % meth, site=body.loc(t.get("sp")))
                else:
                    ctx.violation("R-C06-table", body.id, "%s AckLog identity" % meth, "the ack is registered on an AckLog not looked up with the handler's own connection id", site=body.loc(t.get("sp")))
                if meth == "pingresp":
                    continue
                # the ack struct argument: its pkid field derives from the request's pkid
                ack_arg = t["args"][-1]
                asrc = flatten_src(provenance(body, ack_arg))
                good = False
                for s in asrc:
                    if s.kind == "agg" and s.rv.get("fields") and "pkid" in s.rv["fields"]:
                        i = s.rv["fields"].index("pkid")
                        psrc = flatten_src(provenance(s.body, s.rv["ops"][i]))
                        if psrc and all(getattr(x, "fields", None) and x.fields[-1] == "pkid" for x in psrc):
                            good = True
                if good:
                    ctx.ok("R-C06-table", body.id, "%s.pkid derives from the request's pkid" % meth, site=body.loc(t.get("sp")))
                else:
                    ctx.violation("R-C06-table", body.id, "%s pkid provenance" % meth, "the ack's packet id does not derive from the request packet's pkid", site=body.loc(t.get("sp")))
        # ---- exactly once per request on non-disconnect paths
        succ = lambda v: [x for x in live_succ(body, v) if x in region]
        comps = sccs(region, succ)
        in_cycle = set()
        for comp in comps:
            if len(comp) > 1 or (len(comp) == 1 and comp[0] in succ(comp[0])):
                in_cycle.update(comp)
        all_call_blocks = {b: meth for meth, bl in calls.items() for b in bl}
        # QoS 0 publishes have no acknowledgement: the AtMostOnce edge of the QoS match counts as satisfied
        virtual_ack = set()
        if variant == "Publish":
            for s3 in discr_switches(body, r"^protocol::QoS$"):
                if s3[0] in region and variant_target(s3, "AtMostOnce") is not None:
                    virtual_ack.add(variant_target(s3, "AtMostOnce"))
            if not virtual_ack:
                ctx.anchor_missing("R-C06-once", "Publish arm: match on QoS not found")
        for b, meth in all_call_blocks.items():
            if b in in_cycle:
                ctx.violation("R-C06-once", body.id, "%s inside a loop of the Packet::%s arm" % (meth, variant),
                              "the ack is registered once per loop iteration (per filter) instead of once per request packet",
                              site=body.loc(body.blocks[b]["t"].get("sp")))
        # min count on paths entry -> leaving the region, avoiding blocks that set disconnect
        import heapq
        dist = {entry: 1 if entry in all_call_blocks else 0}
        pq = [(dist[entry], entry)]
        best_exit = None
        while pq:
            dcur, v = heapq.heappop(pq)
            if dcur > dist.get(v, 1 << 30):
                continue
            if v in disc_blocks and v != entry:
                continue
            for w in live_succ(body, v):
                if w not in region:
                    if w in disc_blocks or w == otherwise:
                        continue    # (a shape diverted to the catch-all arm is reported separately)
                    if best_exit is None or dcur < best_exit[0]:
                        best_exit = (dcur, v, w)
                    continue
                if w in disc_blocks:
                    continue
                nd = dcur + (1 if (w in all_call_blocks or w in virtual_ack) else 0)
                if nd < dist.get(w, 1 << 30):
                    dist[w] = nd
                    heapq.heappush(pq, (nd, w))
        if best_exit is None:
            ctx.anchor_missing("R-C06-once", "arm of Packet::%s has no non-disconnect exit" % variant)
        elif best_exit[0] == 0:
            ctx.violation("R-C06-once", body.id, "Packet::%s path without ack" % variant,
                          "a path through the arm leaves without registering %s and without flagging a disconnect" % "/".join(sorted(expected)),
                          site=body.loc(body.blocks[best_exit[1]]["t"].get("sp")))
        else:
            ctx.ok("R-C06-once", body.id, "Packet::%s: every non-disconnect path registers an ack" % variant)
        # max count on acyclic part: two different ack calls on one path (beyond the QoS alternatives)
        for b1 in all_call_blocks:
            for b2 in all_call_blocks:
                if b1 != b2 and b1 not in in_cycle and b2 not in in_cycle and b2 in reachable_after(body, [b1], avoid_blocks=(loop_head,)) and b2 in region:
                    ctx.violation("R-C06-once", body.id, "Packet::%s two acks on one path" % variant,
                                  "%s and %s can both be registered for one request" % (all_call_blocks[b1], all_call_blocks[b2]),
                                  site=body.loc(body.blocks[b2]["t"].get("sp")))
    ctx.floor("R-C06-table", "packet variants with a row", n_rows, 14)


def wake_points(prog, body, state="InflightFull"):
    """blocks of handle_device_payload that guarantee the handler's own connection is rescheduled with a reason that
    wakes a tracker paused as `state`: direct reschedule calls inside the packet loop, and assignments `flag = true` of a
    bool flag that guards such a reschedule after the loop"""
    from .c01 import try_ready_table
    _, table = try_ready_table(prog)
    dom = dominators(body)
    sw0 = packet_switch(body)
    direct, flagged = set(), set()
    for bb, t in body.calls():
        if body.is_cleanup(bb) or not re.search(r"Scheduler::reschedule$", callee_path(t)):
            continue
        ks = flatten_src(provenance(body, t["args"][1]))
        if not (ks and all(x.kind == "param" and x.l == 2 for x in ks)):
            continue
        rsn = None
        for s_ in flatten_src(provenance(body, t["args"][2])):
            if s_.kind == "agg":
                rsn = s_.var
        if table.get((rsn, state)) != "Ready":
            continue
        if dominates(body, sw0[0], bb) and bb in reachable_after(body, [sw0[0]]) and sw0[0] in reachable_after(body, [bb]):
            direct.add(bb)        # inside the per-packet loop
            continue
        for d in sorted(dom.get(bb, ()), reverse=True):
            bt = body.blocks[d]["t"]
            if bt["k"] == "switch" and bt["otherwise"] != d and dominates(body, bt["otherwise"], bb):
                l = op_local(bt["on"])
                dd = single_def(body, l) if l is not None else None
                if dd and dd[2] == "assign" and dd[3]["rv"]["k"] == "use" and op_local(dd[3]["rv"]["a"]) is not None:
                    l = op_local(dd[3]["rv"]["a"])
                if l is not None and body.local_ty(l) == "bool":
                    flagged |= set(const_assign_blocks(body, l, 1))
                break
    return direct, flagged


def flush(ctx, prog, body):
    rule = "R-C06-flush"
    force = None
    # force_ack: the bool guarding reschedule(id, FreshData) right after the loop
    dom = dominators(body)
    resched = [(bb, t) for bb, t in body.calls() if re.search(r"Scheduler::reschedule$", callee_path(t)) and not body.is_cleanup(bb)]

    def reason_of(t):
        for s in flatten_src(provenance(body, t["args"][2])):
            if s.kind == "agg":
                return s.var
        return None
    fresh = [(bb, t) for bb, t in resched if reason_of(t) == "FreshData"]
    incoming_ack = {bb for bb, t in resched if reason_of(t) == "IncomingAck"}
    ctx.floor(rule, "reschedule(.., FreshData) calls", len(fresh), 1)
    ctx.floor(rule, "reschedule(.., IncomingAck) calls", len(incoming_ack), 3)
    sw0 = packet_switch(body)
    after_loop = [(bb, t) for bb, t in resched if sw0[0] not in dom.get(bb, ()) or bb not in reachable_after(body, [sw0[0]])]
    force_call = None
    for bb, t in [x for x in resched if not dominates(body, sw0[0], x[0])] or after_loop:
        for d in sorted(dom.get(bb, ()), reverse=True):
            bt = body.blocks[d]["t"]
            if bt["k"] == "switch" and bt["otherwise"] != d and dominates(body, bt["otherwise"], bb):
                l = op_local(bt["on"])
                dd = single_def(body, l) if l is not None else None
                if dd and dd[2] == "assign" and dd[3]["rv"]["k"] == "use" and op_local(dd[3]["rv"]["a"]) is not None:
                    l = op_local(dd[3]["rv"]["a"])
                if l is not None and body.local_ty(l) == "bool" and const_assign_blocks(body, l, 1):
                    # force_ack is the flag whose key matches the handler id reschedule
                    ksrc = flatten_src(provenance(body, t["args"][1]))
                    if ksrc and all(x.kind == "param" and x.l == 2 for x in ksrc):
                        force = l
                        force_call = (bb, t)
                break
        if force is not None:
            break
    if force is None:
        raise AnchorMissing("force_ack flag (bool guarding the reschedule of the handler's own id after the packet loop) not found")
    # the reason used there must wake the connection from every pause it can be in while it waits for acks of its own
    # (Caughtup, InflightFull); a Busy connection is woken by the link's Ready and flushes its AckLog then
    from .c01 import try_ready_table
    _, table = try_ready_table(prog)
    rsn = reason_of(force_call[1])
    asleep = [st_ for st_ in ("Caughtup", "InflightFull") if table.get((rsn, st_)) != "Ready"]
    if asleep:
        ctx.violation(rule, body.id, "replies wait while the connection is paused",
                      "after registering replies the handler reschedules its connection with ScheduleReason::%s, which does not wake a tracker paused as %s (try_ready table): a client whose outbound window is full gets no PINGRESP / SUBACK / PUBACK until it acknowledges a publish"
                      % (rsn, "/".join(asleep)), site=body.loc(force_call[1].get("sp")))
    else:
        ctx.ok(rule, body.id, "force_ack reschedules with %s, which wakes the tracker from Caughtup and InflightFull" % rsn, site=body.loc(force_call[1].get("sp")))
    force_blocks = const_assign_blocks(body, force, 1)
    disconnect = flag_guarding_call(body, r"Router::handle_disconnection$")
    disc_blocks = const_assign_blocks(body, disconnect, 1) if disconnect is not None else set()
    sw = packet_switch(body)
    after = reachable_after(body, [sw[0]])
    heads = [d for d in dom[sw[0]] if d in after]
    loop_head = max(heads, key=lambda x: len(dom[x]))
    n = 0
    for bb, t in body.calls():
        mm = ACK_METHOD.search(callee_path(t))
        if not mm or body.is_cleanup(bb):
            continue
        n += 1
        # every path from the registration back to the loop head / out of the loop passes force_ack = true,
        # reschedule(IncomingAck) or disconnect = true (the connection is being closed)
        targets = {loop_head} | {b for b in return_blocks(body)}
        via = force_blocks | incoming_ack | disc_blocks
        if must_pass(body, [bb], targets, via_blocks=via):
            ctx.ok(rule, body.id, "%s is followed by force_ack/reschedule on every path" % mm.group(1), site=body.loc(t.get("sp")))
        else:
            p = find_path(body, [bb], targets, avoid_blocks=via)
            ctx.violation(rule, body.id, "%s not flushed" % mm.group(1),
                          "an ack is registered and the iteration ends without force_ack = true or reschedule(id, IncomingAck): it stays in the AckLog until unrelated traffic schedules the connection",
                          site=body.loc(t.get("sp")), path=path_lines(body, p) if p else None)
    ctx.floor(rule, "AckLog registrations in handle_device_payload", n, 7)
    # consume: ack_device_data before any forward
    cons = prog.one(r"^router::routing::Router::consume$")
    acks = [bb for bb, t in cons.calls() if re.search(r"routing::ack_device_data$", callee_path(t)) and not cons.is_cleanup(bb)]
    fwd = [bb for bb, t in cons.calls() if re.search(r"routing::forward_device_data$", callee_path(t)) and not cons.is_cleanup(bb)]
    if acks and fwd and all(dominates(cons, acks[0], f) for f in fwd):
        ctx.ok(rule, cons.id, "ack_device_data dominates forward_device_data")
    else:
        ctx.violation(rule, cons.id, "ack flush order", "consume() can forward publishes without first flushing the AckLog", site=cons.fn_loc())
    # AckLog::readv callers
    callers = sorted({b.id for b, bb, t in call_sites(prog, r"router::logs::AckLog::readv$")})
    if callers == ["router::routing::ack_device_data"]:
        ctx.ok(rule, "router::logs::AckLog::readv", "only caller is ack_device_data")
    else:
        ctx.violation(rule, "router::logs::AckLog::readv", "callers", "AckLog::readv (which hands out the committed queue) is called from %s" % callers)
    ad = prog.one(r"^router::routing::ack_device_data$")
    drains = [bb for bb, t in ad.calls() if re.search(r"VecDeque::<T, A>::drain$", callee_path(t))]
    pushes = [bb for bb, t in ad.calls() if re.search(r"VecDeque::<T, A>::push_back$", callee_path(t))]
    if drains and pushes:
        ctx.ok(rule, ad.id, "drains the committed acks into the outgoing buffer")
    else:
        ctx.violation(rule, ad.id, "drain", "ack_device_data no longer moves the committed acks to the outgoing buffer", site=ad.fn_loc())


def qos2(ctx, prog, body):
    rule = "R-C06-qos2"
    # recorded: pushed only by pubrec, popped only by pubcomp, first in first out (whatever the container type)
    nmut = 0
    ends = {}
    for b, bb, t in call_sites(prog, r"(VecDeque::<T, A>|Vec::<T, A>)::(push|push_back|push_front|pop|pop_front|pop_back|clear|drain|remove|swap_remove|retain|truncate|append|extend|insert)$"):
        fs = receiver_fields(b, t)
        if not fs or fs[-1] != "recorded" or b.is_cleanup(bb):
            continue
        name = callee_path(t).rsplit("::", 1)[-1]
        nmut += 1
        is_add = name in ("push", "push_back", "push_front", "insert")
        is_take = name in ("pop", "pop_front", "pop_back", "remove", "swap_remove")
        okc = (b.id.endswith("AckLog::pubrec") and is_add) or (b.id.endswith("AckLog::pubcomp") and is_take)
        if okc:
            ends["add" if is_add else "take"] = name
            ctx.ok(rule, b.id, "recorded.%s" % name, site=b.loc(t.get("sp")), trivial=True)
        else:
            ctx.violation(rule, b.id, "recorded.%s" % name, "the QoS 2 hold queue is mutated outside pubrec(push)/pubcomp(pop)", site=b.loc(t.get("sp")))
    ctx.floor(rule, "mutations of AckLog.recorded", nmut, 2)
    fifo = (ends.get("add"), ends.get("take")) in (("push_back", "pop_front"), ("push_front", "pop_back"))
    if fifo:
        ctx.ok(rule, "router::logs::AckLog", "recorded is first-in-first-out (%s / %s): a release takes the oldest unreleased QoS 2 publish" % (ends["add"], ends["take"]))
    else:
        ctx.violation(rule, "router::logs::AckLog", "recorded is not first-in-first-out",
                      "AckLog.recorded is filled with %s and emptied with %s: with two unreleased QoS 2 publishes a PUBREL forwards the wrong (newest) one" % (ends.get("add"), ends.get("take")))
    # no path from the pubrec registration to append_to_commitlog within the same iteration
    sw = packet_switch(body)
    dom = dominators(body)
    after = reachable_after(body, [sw[0]])
    heads = [d for d in dom[sw[0]] if d in after]
    loop_head = max(heads, key=lambda x: len(dom[x]))
    pubrecs = [bb for bb, t in body.calls() if callee_path(t).endswith("AckLog::pubrec") and not body.is_cleanup(bb)]
    appends = [bb for bb, t in body.calls() if callee_path(t).endswith("routing::append_to_commitlog") and not body.is_cleanup(bb)]
    ctx.floor(rule, "append_to_commitlog calls", len(appends), 2)
    ctx.floor(rule, "AckLog::pubrec calls", len(pubrecs), 1)
    for pb in pubrecs:
        r = reachable_after(body, [pb], avoid_blocks=(loop_head,))
        hit = [a for a in appends if a in r]
        if hit:
            ctx.violation(rule, body.id, "QoS 2 publish appended before release",
                          "after AckLog::pubrec the same iteration can reach append_to_commitlog: the message would be forwarded before PUBREL (and again on PUBREL)",
                          site=body.loc(body.blocks[hit[0]]["t"].get("sp")))
        else:
            ctx.ok(rule, body.id, "pubrec arm leaves the iteration without appending", site=body.loc(body.blocks[pb]["t"].get("sp")))
    # PubRel arm appends what pubcomp returned
    pubcomps = [bb for bb, t in body.calls() if callee_path(t).endswith("AckLog::pubcomp") and not body.is_cleanup(bb)]
    okc = False
    for a in appends:
        t = body.blocks[a]["t"]
        srcs = flatten_src(provenance(body, t["args"][1]))
        if any(s.kind == "call" and s.path.endswith("AckLog::pubcomp") for s in srcs):
            okc = True
            ctx.ok(rule, body.id, "PubRel arm appends the publish returned by AckLog::pubcomp", site=body.loc(t.get("sp")))
    if not okc:
        ctx.violation(rule, body.id, "release source", "no append_to_commitlog takes its publish from AckLog::pubcomp: a released QoS 2 message would not be the recorded one", site=body.fn_loc())
