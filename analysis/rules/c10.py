"""C10 — client answers inbound QoS flows correctly and reports packets in order (DESIGN §4 C10)."""
import re
from ..core import *
from ..panics import panic_scope
from .client import *

CRATES = ("rumqttc",)
EXPLANATION = (
    "Static decision on the MIR of /repo's working tree (rumqttc, MQTT 3.1.1 and 5 state machines): "
    "(R-C10-panic) no undischarged may-panic construct is reachable from MqttState::handle_incoming_packet / handle_outgoing_packet and Network::readb "
    "(same-index guard, contains guard and u16-index discharges for the packet-id tables; audited residue; R-C10-capacity checks the table sizes the discharges rely on); "
    "(R-C10-incoming-first) Event::Incoming is queued before the packet is dispatched and `events` is only push_back'ed / pop_front'ed; "
    "(R-C10-acks) in handle_incoming_publish the PUBACK/PUBREC is produced exactly on the `!manual_acks` edge of the matching QoS arm and carries the publish's packet id; PUBCOMP only past the incoming_pub.contains check with the PUBREL's id, and on every Ok path past it; "
    "(R-C10-announce) every function of MqttState that returns a packet announces it with exactly one Event::Outgoing of the matching kind on that path, nothing but AwaitAck is announced without a packet, "
    "and a packet returned by a callee inside MqttState always flows into the caller's own return value; "
    "(R-C10-unsolicited) each of the four ack handlers has an Err(Unsolicited) exit taken when its table lookup fails. "
    "(R-C10-readb) in Network::readb every frame result stored from the framed stream is matched before the function returns (no frame pulled with now_or_never is abandoned by a later break) and the Some arm reaches handle_incoming_packet; "
    "NOT decided: wire order of surfaced events under arbitrary batching; v5 topic-alias values.")
ASSUMPTIONS = ["rustc MIR construction is correct; rules/ext_api.json", "Request values other than the ones the Client API builds are not enqueued by the application (unimplemented!() arm audited)"]
TECHNIQUE = "static analysis: MIR may-panic inventory with index-guard discharges, dominance rules, per-path effect enumeration (announcement/packet pairing), provenance of packet ids"
LEVEL_TEXT = ("For every broker packet sequence at once: no reachable panic construct without a discharge in the inbound path, announcement/packet pairing on every path of every handler, "
              "ack generation tied to manual_acks and to the request's id. Ordering of surfaced events is not decided.")
LEVEL_NOTE = "Trusted: rustc MIR; rules/ext_api.json; audit entries scope C10."

OUT_KIND = {"Publish": "Publish", "PubAck": "PubAck", "PubRec": "PubRec", "PubRel": "PubRel", "PubComp": "PubComp",
            "Subscribe": "Subscribe", "Unsubscribe": "Unsubscribe", "PingReq": "PingReq", "Disconnect": "Disconnect", "Auth": "Auth"}


def run(ctx):
    prog = ctx.progs["rumqttc"]
    entries = [r"^state::MqttState::handle_incoming_packet$", r"^v5::state::MqttState::handle_incoming_packet$",
               r"^state::MqttState::handle_outgoing_packet$", r"^v5::state::MqttState::handle_outgoing_packet$",
               r"^framed::Network::readb$", r"^v5::framed::Network::readb$"]
    panic_scope(ctx, "R-C10-panic", "rumqttc", entries, "C10", "client state machine entry points", extra=[guard_index_discharger(prog)])
    for ver in ("v4", "v5"):
        ctx.guarded("R-C10-capacity", capacity, ctx, prog, ver)
        ctx.guarded("R-C10-incoming-first", incoming_first, ctx, prog, ver)
        ctx.guarded("R-C10-acks", acks, ctx, prog, ver)
        ctx.guarded("R-C10-announce", announce, ctx, prog, ver)
        ctx.guarded("R-C10-unsolicited", unsolicited, ctx, prog, ver)
        ctx.guarded("R-C10-readb", readb_no_frame_dropped, ctx, prog, ver)
        ctx.guarded("R-C10-announce", answered_means_flushed, ctx, prog, ver)
        ctx.guarded("R-C10-incoming-first", connack_in_queue_order, ctx, prog, ver)


def capacity(ctx, prog, ver):
    rule = "R-C10-capacity"
    new = state_fn(prog, ver, "new")
    sizes = {}
    for bb, t in new.calls():
        cp = callee_path(t)
        if cp.endswith("FixedBitSet::with_capacity") or cp.endswith("vec::from_elem"):
            arg = t["args"][-1] if cp.endswith("vec::from_elem") else t["args"][0]
            src = provenance(new, arg)
            desc = describe(src)
            # which field does it initialise? follow the dest into the aggregate
            sizes.setdefault(desc, []).append(cp.rsplit("::", 1)[-1])
    want = {"(param1 as usize) + 1": 2, "(65535) + 1": 1}
    got_inflight = [k for k in sizes if "param" in k and "+ 1" in k]
    got_u16 = [k for k in sizes if "65535" in k and "+ 1" in k]
    if got_inflight and len(sizes[got_inflight[0]]) >= 2:
        ctx.ok(rule, new.id, "outgoing_pub and outgoing_rel both have max_inflight + 1 slots (%s)" % sizes[got_inflight[0]])
    else:
        ctx.violation(rule, new.id, "table sizes", "outgoing_pub / outgoing_rel are no longer both sized max_inflight + 1 (found %s)" % sizes, site=new.fn_loc())
    if got_u16:
        ctx.ok(rule, new.id, "incoming_pub has u16::MAX + 1 bits")
    else:
        ctx.violation(rule, new.id, "incoming_pub size", "incoming_pub is no longer sized u16::MAX + 1 (found %s)" % sizes, site=new.fn_loc())
    # nobody else replaces the tables
    for f in ("outgoing_pub", "outgoing_rel", "incoming_pub"):
        for body, bi, st in field_writes(prog, f):
            if not body.id.startswith(dict((v[0], v[1]) for v in VERSIONS)[ver]):
                continue
            if st["lhs"].get("p") and place_fields(st["lhs"])[-1] == f and not any(isinstance(p, dict) and "ix" in p for p in st["lhs"]["p"]) and not body.id.endswith("::new"):
                # whole-field assignment
                if st["rv"]["k"] in ("agg", "use") and [p for p in st["lhs"]["p"] if p == "*"]:
                    ctx.violation(rule, body.id, "replaces " + f, "the %s table is replaced outside MqttState::new (its capacity may differ)" % f, site=body.loc(st.get("sp")))


def describe(src):
    out = []
    for s in src:
        if s.kind == "op":
            out.append("(" + (" %s " % {"Add": "+", "AddWithOverflow": "+"}.get(s.name, s.name)).join(describe(a) for a in s.args) + ")")
        elif s.kind == "param":
            out.append("param%d as usize" % s.l if not s.fields else "param%d.%s" % (s.l, ".".join(s.fields)))
        elif s.kind == "const":
            out.append(str(s.v))
        else:
            out.append(s.kind)
    d = " | ".join(out)
    d = d.replace("((param1 as usize) + (1))", "(param1 as usize) + 1").replace("(param1 as usize + 1)", "(param1 as usize) + 1")
    return d


def incoming_first(ctx, prog, ver):
    rule = "R-C10-incoming-first"
    h = state_fn(prog, ver, "handle_incoming_packet")
    pushes = [p for p in events_pushes(h) if p[1] == "Incoming"]
    sws = [s for s in discr_switches(h, r"Packet$") if len(s[2]) >= 6]
    if len(pushes) == 1 and sws and all(dominates(h, pushes[0][0], s[0]) for s in sws):
        ctx.ok(rule, h.id, "events.push_back(Event::Incoming) dominates the dispatch match")
    else:
        ctx.violation(rule, h.id, "Incoming not first", "the received packet is not queued for the user before it is dispatched (found %d Incoming pushes)" % len(pushes), site=h.fn_loc())
    # events only push_back / pop_front
    pre = dict((v[0], v[1]) for v in VERSIONS)[ver]
    evpre = dict((v[0], v[2]) for v in VERSIONS)[ver]
    n = 0
    for body in prog.A.values():
        if not (body.id.startswith(pre) or body.id.startswith(evpre)):
            continue
        for bb, t in body.calls():
            if body.is_cleanup(bb):
                continue
            fs = [x.split(".")[-1] for x in (receiver_fields(body, t) or [])]
            if not fs or fs[-1] != "events" or not callee_path(t).startswith("std::collections::VecDeque::<T, A>::"):
                continue
            name = callee_path(t).rsplit("::", 1)[-1]
            n += 1
            if name in ("push_back", "pop_front", "len", "is_empty", "iter", "front", "with_capacity", "capacity", "clear"):
                if name == "clear":
                    ctx.violation(rule, body.id, "events.clear", "surfaced events are discarded", site=body.loc(t.get("sp")))
                continue
            ctx.violation(rule, body.id, "events." + name, "the event queue is reordered or truncated (%s): packets would be surfaced out of wire order or lost" % name, site=body.loc(t.get("sp")))
    ctx.floor(rule, "uses of the events queue (%s)" % ver, n, 10)
    ctx.ok(rule, pre + "*", "%d uses of the events queue are push_back / pop_front only" % n)


def acks(ctx, prog, ver):
    rule = "R-C10-acks"
    from .c08 import bool_switch_on_field
    h = state_fn(prog, ver, "handle_incoming_publish")
    qsw = [s for s in discr_switches(h, r"QoS$")]
    if not qsw:
        raise AnchorMissing("handle_incoming_publish (%s): match on QoS not found" % ver)
    qsw = qsw[0]
    dom = dominators(h)
    msw = bool_switch_on_field(h, "manual_acks")
    table = {"AtLeastOnce": "outgoing_puback", "ExactlyOnce": "outgoing_pubrec"}
    for q, fn in table.items():
        tgt = variant_target(qsw, q)
        region = {b for b in reachable(h, (tgt,)) if tgt in dom.get(b, ())}
        calls = [(bb, t) for bb, t in h.calls() if callee_path(t).endswith("MqttState::" + fn) and bb in region]
        other = [(bb, t) for bb, t in h.calls() if re.search(r"MqttState::outgoing_(puback|pubrec)$", callee_path(t)) and bb in region and not callee_path(t).endswith(fn)]
        ms = [m for m in msw if m[0] in region]
        if len(calls) != 1 or other or len(ms) != 1:
            ctx.violation(rule, h.id, "QoS %s arm" % q, "expected exactly one %s under one manual_acks test in the %s arm (found %d calls, %d other acks, %d tests)" % (fn, q, len(calls), len(other), len(ms)), site=h.fn_loc())
            continue
        bb, t = calls[0]
        sbb, t_manual, t_auto = ms[0]
        if dominates(h, t_auto, bb) and bb not in reachable(h, (t_manual,)) and not (reachable(h, (t_auto,), avoid_blocks=(bb,)) & set(return_blocks(h))):
            ctx.ok(rule, h.id, "%s: %s exactly on the !manual_acks edge" % (q, fn), site=h.loc(t.get("sp")))
        else:
            ctx.violation(rule, h.id, "%s ack not tied to manual_acks" % q, "%s is not issued exactly when manual_acks is false (sent with manual acks on, or skipped with them off)" % fn, site=h.loc(t.get("sp")))
        # pkid provenance: the ack struct built by PubAck::new(publish.pkid, ..)
        src = flatten_src(provenance(h, t["args"][1]))
        okp = False
        for s in src:
            if s.kind == "call" and re.search(r"(PubAck|PubRec)::new$", s.path):
                ps = flatten_src(provenance(h, s.term["args"][0]))
                if ps and all(x.kind == "param" and x.l == 2 and x.fields and x.fields[-1] == "pkid" for x in ps):
                    okp = True
        if okp:
            ctx.ok(rule, h.id, "%s: ack carries publish.pkid" % q, site=h.loc(t.get("sp")))
        else:
            ctx.violation(rule, h.id, "%s ack pkid" % q, "the ack's packet id is not the received publish's pkid", site=h.loc(t.get("sp")))
    # QoS 0: no ack
    tgt0 = variant_target(qsw, "AtMostOnce")
    r0 = {b for b in reachable(h, (tgt0,)) if tgt0 in dom.get(b, ())}
    if any(re.search(r"MqttState::outgoing_(puback|pubrec)$", callee_path(t)) and bb in r0 for bb, t in h.calls()):
        ctx.violation(rule, h.id, "QoS 0 acked", "a QoS 0 publish is acknowledged", site=h.fn_loc())
    else:
        ctx.ok(rule, h.id, "AtMostOnce: no ack")
    # pubrel → pubcomp
    r = state_fn(prog, ver, "handle_incoming_pubrel")
    cont = [(bb, t) for bb, t in r.calls() if callee_path(t).endswith("FixedBitSet::contains") and [x.split(".")[-1] for x in (receiver_fields(r, t) or [])][-1:] == ["incoming_pub"]]
    pk = [p for p in returned_packets(r) if p[1] == "PubComp"]
    from .c15 import switch_on_call_result
    sw = switch_on_call_result(r, r"FixedBitSet::contains$", None)
    if cont and pk and sw and all(dominates(r, sw[0][1], p[0]) for p in pk):
        ctx.ok(rule, r.id, "PUBCOMP only past incoming_pub.contains(pubrel.pkid)")
    else:
        ctx.violation(rule, r.id, "PUBCOMP unguarded", "a PUBCOMP can be produced for a release whose id was never recorded", site=r.fn_loc())
    # ... and a release of a KNOWN id is always answered: past the contains-true edge no Ok path returns without a PUBCOMP
    if sw and pk:
        known = sw[0][1]
        rets = set(return_blocks(r))
        errs = set()
        for bi, blk in enumerate(r.blocks):
            for st in blk["s"]:
                if "lhs" in st and st["lhs"]["l"] == 0 and not st["lhs"].get("p") and st["rv"]["k"] == "agg" and st["rv"].get("var") == "Err":
                    errs.add(bi)
        silent = reachable(r, (known,), avoid_blocks=tuple(p[0] for p in pk) + tuple(errs)) & rets
        if silent:
            ctx.violation(rule, r.id, "known release not answered",
                          "handle_incoming_pubrel can return Ok without a PUBCOMP after it found (and cleared) the PUBREL's id in incoming_pub: the release of a known id goes unanswered (e.g. a PUBREL carrying a reason code other than Success)",
                          site=r.fn_loc())
        else:
            ctx.ok(rule, r.id, "every Ok path for a known id returns PUBCOMP")


def announce(ctx, prog, ver):
    rule = "R-C10-announce"
    pre = dict((v[0], v[1]) for v in VERSIONS)[ver]
    n = 0
    returning = {}
    for body in state_fns(prog, ver):
        if body.kind != "AssocFn":
            continue
        # closures of this function (Option::map(|publish| ..)) are optional segments on the path
        subs = [body] + [b for b in prog.A.values() if b.root == body.id or (b.parent or "").startswith(body.id + "::")]
        pk = [(b, p) for b in subs for p in returned_packets(b)]
        pushes = [(b, p) for b in subs for p in events_pushes(b) if p[1] == "Outgoing"]
        if not pk and not pushes:
            continue
        if body.name in ("handle_incoming_packet", "handle_outgoing_packet", "clean", "new"):
            continue
        n += 1
        if pk:
            returning[body.id] = sorted({p[1] for _, p in pk})
        for b, (bb, var) in pk:
            want = OUT_KIND.get(var)
            if want is None:
                continue
            same = [(b2, p) for b2, p in pushes if b2 is b and p[2] == want]
            # the announcement lies on every path entry → packet construction (dominates it), or the packet block reaches it before return
            okc = any(dominates(b, p[0], bb) or (not (reachable_after(b, [bb], avoid_blocks=(p[0],)) & set(return_blocks(b))) and p[0] in reachable_after(b, [bb])) for _, p in same)
            if okc and len(same) >= 1:
                ctx.ok(rule, b.id, "Packet::%s is announced by Outgoing::%s on its path" % (var, want), site=b.loc(b.blocks[bb]["t"].get("sp")))
            else:
                ctx.violation(rule, b.id, "Packet::%s unannounced" % var, "a path returns Packet::%s without Event::Outgoing(Outgoing::%s)" % (var, want), site=b.loc(b.blocks[bb]["t"].get("sp")))
        for b, (bb, kind, var) in pushes:
            if var in (None, "AwaitAck"):
                continue
            want = [k for k, v in OUT_KIND.items() if v == var]
            if not any(p[1] in want for b2, p in pk if b2 is b):
                ctx.violation(rule, b.id, "Outgoing::%s without packet" % var, "Outgoing::%s is announced in a function that never returns that packet" % var, site=b.loc(b.blocks[bb]["t"].get("sp")))
            else:
                # every path from the announcement to return builds the packet
                pks = [p[0] for b2, p in pk if b2 is b and p[1] in want]
                rets = return_blocks(b)
                before = any(dominates(b, p, bb) for p in pks)
                if before or must_pass(b, [bb], rets, via_blocks=pks):
                    continue
                # a later Err exit (v5 alias check) is fine only if it does not follow the announcement
                ctx.violation(rule, b.id, "Outgoing::%s announced, packet may not be returned" % var,
                              "after announcing Outgoing::%s a path returns without the packet (a write is announced that does not happen)" % var,
                              site=b.loc(b.blocks[bb]["t"].get("sp")))
    ctx.floor(rule, "packet-producing functions of MqttState (%s)" % ver, n, 10)
    # callers inside MqttState: the returned packet flows to the caller's return
    def flows_to_return(body, bb, t):
        dest = t["dest"]["l"]
        if dest == 0:
            return True
        for bi in reachable_after(body, [bb]):
            for st in body.blocks[bi]["s"]:
                if "lhs" in st and st["lhs"]["l"] == 0:
                    ops = [st["rv"].get("a")] if st["rv"]["k"] == "use" else st["rv"].get("ops", [])
                    for o in ops:
                        if o is None:
                            continue
                        for s in flatten_src(provenance(body, o, through_calls=[r"ops::Try>::branch$"])):
                            if s.kind == "call" and s.bb == bb:
                                return True
        return False
    # wrappers (handle_protocol_error → outgoing_disconnect) return packets too
    changed = True
    while changed:
        changed = False
        for body in state_fns(prog, ver):
            if body.id in returning or body.kind != "AssocFn" or body.name in ("handle_incoming_packet", "handle_outgoing_packet"):
                continue
            for bb, t in body.calls():
                if callee_path(t) in returning and not body.is_cleanup(bb) and flows_to_return(body, bb, t):
                    returning[body.id] = returning[callee_path(t)]
                    changed = True
                    break
    for body in state_fns(prog, ver):
        for bb, t in body.calls():
            cp = callee_path(t)
            if cp not in returning or body.is_cleanup(bb) or body.id == cp:
                continue
            dest = t["dest"]["l"]
            flows = False
            if dest == 0:
                flows = True
            else:
                # result bound and later stored into _0 (directly, via `?` Continue, or via match)
                for bi in reachable_after(body, [bb]):
                    for st in body.blocks[bi]["s"]:
                        if "lhs" in st and st["lhs"]["l"] == 0:
                            ops = [st["rv"].get("a")] if st["rv"]["k"] == "use" else st["rv"].get("ops", [])
                            for o in ops:
                                if o is None:
                                    continue
                                for s in flatten_src(provenance(body, o, through_calls=[r"ops::Try>::branch$"])):
                                    if s.kind == "call" and s.bb == bb:
                                        flows = True
                    tt = body.blocks[bi]["t"]
                    if tt["k"] == "call" and tt["dest"]["l"] == 0 and not re.search(r"from_residual$", callee_path(tt)):
                        for a in tt["args"]:
                            for s in flatten_src(provenance(body, a, through_calls=[r"ops::Try>::branch$"])):
                                if s.kind == "call" and s.bb == bb:
                                    flows = True
            if flows:
                ctx.ok(rule, body.id, "packet returned by %s flows into the caller's return value" % cp.rsplit("::", 1)[-1], site=body.loc(t.get("sp")))
            else:
                ctx.violation(rule, body.id, "packet of %s discarded" % cp.rsplit("::", 1)[-1],
                              "%s announces and returns a packet, but the caller drops it (announced, never written)" % cp.rsplit("::", 1)[-1], site=body.loc(t.get("sp")))


def unsolicited(ctx, prog, ver):
    rule = "R-C10-unsolicited"
    for name in ("handle_incoming_puback", "handle_incoming_pubrec", "handle_incoming_pubrel", "handle_incoming_pubcomp"):
        b = state_fn(prog, ver, name)
        errs = []
        for bi, blk in enumerate(b.blocks):
            if blk.get("cleanup"):
                continue
            for st in blk["s"]:
                if "lhs" in st and st["rv"]["k"] == "agg" and st["rv"].get("var") == "Unsolicited":
                    errs.append(bi)
        if errs:
            ctx.ok(rule, b.id, "has an Err(StateError::Unsolicited) exit (%d sites)" % len(errs))
            # "... rather than corrupting its bookkeeping": nothing has been booked yet when the error is raised —
            # no bit set or cleared in outgoing_rel / incoming_pub, no change of the inflight count
            effects = []
            for bb, t in b.calls():
                if b.is_cleanup(bb):
                    continue
                fs = [x.split(".")[-1] for x in (receiver_fields(b, t) or [])]
                if re.search(r"FixedBitSet::(insert|set|put|toggle|clear|set_range|insert_range)$", callee_path(t)) and fs[-1:] and fs[-1] in ("outgoing_rel", "incoming_pub"):
                    effects.append((bb, "%s.%s" % (fs[-1], callee_path(t).rsplit("::", 1)[-1]), t.get("sp")))
            for bi, blk in enumerate(b.blocks):
                if blk.get("cleanup"):
                    continue
                for st in blk["s"]:
                    if "lhs" in st and st["lhs"]["l"] == 1 and [x.split(".")[-1] for x in place_fields(st["lhs"])][-1:] == ["inflight"]:
                        effects.append((bi, "inflight", st.get("sp")))
            bad = [(eb, what, sp) for eb, what, sp in effects if reachable_after(b, [eb]) & set(errs)]
            if not bad:
                ctx.ok(rule, b.id, "no bookkeeping write (%d sites) precedes an Unsolicited exit" % len(effects))
            for eb, what, sp in bad:
                ctx.violation(rule, b.id, "booked before rejected: " + what,
                              "%s updates %s and can still reject the packet as StateError::Unsolicited afterwards: the error leaves the bookkeeping changed (a release the client never owed is retransmitted after clean(), a later ack for that id is accepted and decrements the window)" % (name, what),
                              site=b.loc(sp))
        else:
            ctx.violation(rule, b.id, "no Unsolicited exit", "%s no longer reports an ack it did not solicit as StateError::Unsolicited" % name, site=b.fn_loc())


def readb_no_frame_dropped(ctx, prog, ver):
    """'surfaces each received packet exactly once': in Network::readb every frame result taken from the
    framed stream is examined (the `match res`) before the function returns — a frame pulled with
    next().now_or_never() must not be abandoned by a later `break`; and the Some(Ok(packet)) arm hands the packet
    to MqttState::handle_incoming_packet."""
    rule = "R-C10-readb"
    pre = dict((v[0], v[3]) for v in VERSIONS)[ver]
    b = prog.one("^" + re.escape(pre) + r"readb::\{closure#0\}$")
    cands = [i for i in range(len(b.locals)) if re.search(r"^std::option::Option<std::result::Result<.*Packet, .*Error>>$", b.local_ty(i))]
    best = None
    for L in cands:
        sws = [sw for sw in discr_switches(b) if sw[4] and sw[4]["l"] == L and not sw[4].get("p")]
        ass = [bi for bi, blk in enumerate(b.blocks) if not blk.get("cleanup") for st in blk["s"] if "lhs" in st and st["lhs"]["l"] == L and not st["lhs"].get("p")]
        if sws and len(ass) >= 2:
            best = (L, sws, ass)
    if best is None:
        raise AnchorMissing("readb (%s): the frame-result local (assigned from framed.next() and matched) was not found" % ver)
    L, sws, ass = best
    rets = set(return_blocks(b))
    leak = reachable_after(b, ass, avoid_blocks=tuple(sw[0] for sw in sws)) & rets
    # an assignment block that itself returns? (not possible: assignments are followed by gotos)
    if leak:
        ctx.violation(rule, b.id, "frame pulled but not processed",
                      "readb can return after it has stored a frame taken from the stream without examining it: that packet is neither surfaced to the user nor acknowledged (it is dropped with the local)",
                      site=b.loc(b.blocks[ass[-1]]["t"].get("sp")))
    else:
        ctx.ok(rule, b.id, "every frame result stored from the stream is matched before readb returns", site=b.fn_loc())
    hip = [bb for bb, t in b.calls() if callee_path(t).endswith("MqttState::handle_incoming_packet") and not b.is_cleanup(bb)]
    some_ok = None
    for sw in sws:
        st_ = variant_target(sw, "Some")
        if st_ is not None:
            some_ok = st_
    if hip and some_ok is not None and all(hb in reachable(b, (some_ok,)) for hb in hip):
        ctx.ok(rule, b.id, "the Some(..) arm of the frame match reaches handle_incoming_packet", site=b.loc(b.blocks[hip[0]]["t"].get("sp")))
    else:
        ctx.violation(rule, b.id, "decoded packet not handled", "readb no longer passes decoded packets to MqttState::handle_incoming_packet", site=b.fn_loc())


def select_arm(body, fut_callee_regex):
    """entry block of the tokio::select! arm whose future is created by a call matching fut_callee_regex"""
    futs = [t["dest"]["l"] for bb, t in body.calls() if re.search(fut_callee_regex, callee_path(t)) and not body.is_cleanup(bb)]
    if len(futs) != 1:
        raise AnchorMissing("%s: expected one future created by %s, found %d" % (body.id, fut_callee_regex, len(futs)))
    idx = None
    for b in body.blocks:
        for st in b["s"]:
            if "lhs" in st and st["rv"]["k"] == "agg" and st["rv"].get("ak") == "tuple":
                for i, o in enumerate(st["rv"]["ops"]):
                    l = op_local(o)
                    hops = 0
                    while l is not None and l != futs[0] and hops < 3:
                        d = single_def(body, l)
                        l = op_local(d[3]["rv"]["a"]) if d and d[2] == "assign" and d[3]["rv"]["k"] == "use" else None
                        hops += 1
                    if l == futs[0]:
                        idx = i
    if idx is None:
        raise AnchorMissing("%s: the select! futures tuple holding the %s future was not found" % (body.id, fut_callee_regex))
    for sw in discr_switches(body, r"__tokio_select_util::Out$"):
        tgt = sw[2].get("_%d" % idx)
        if tgt is not None:
            return tgt
    raise AnchorMissing("%s: the match on the select! output (variant _%d) was not found" % (body.id, idx))


def answered_means_flushed(ctx, prog, ver):
    """'never announcing a write that did not happen': readb feeds its replies (PUBACK, PUBREC, PUBCOMP ...) into the
    write buffer and announces each; when a LATER packet of the same batch fails, select() must still flush what was
    answered before it gives up — otherwise the announcements are handed to the user for packets that never left."""
    rule = "R-C10-announce"
    pre = dict((v[0], v[2]) for v in VERSIONS)[ver]
    body = prog.one("^" + re.escape(pre) + r"select::\{closure#0\}$")
    entry = select_arm(body, r"framed::Network::readb$")
    dom = dominators(body)
    region = [bi for bi in range(len(body.blocks)) if entry in dom.get(bi, ()) and not body.blocks[bi].get("cleanup")]
    flushes = [bb for bb, t in body.calls() if bb in region and callee_path(t).endswith("framed::Network::flush")]
    exits = [bi for bi in region if body.blocks[bi]["t"]["k"] == "call" and callee_path(body.blocks[bi]["t"]).endswith("from_residual") and body.blocks[bi]["t"]["dest"]["l"] == 0]
    exits += [bi for bi in region for st in body.blocks[bi]["s"] if "lhs" in st and st["lhs"]["l"] == 0 and not st["lhs"].get("p") and st["rv"]["k"] == "agg" and st["rv"].get("var") == "Err"]
    if not flushes or not exits:
        raise AnchorMissing("select() (%s): flush (%d) / error exits (%d) of the readb arm not found" % (ver, len(flushes), len(exits)))
    bad = [e for e in exits if not must_pass(body, [entry], [e], via_blocks=set(flushes), include_from=True)]
    if not bad:
        ctx.ok(rule, body.id, "every error exit of the readb arm (%d) lies behind the flush of what was answered" % len(exits), site=body.loc(body.blocks[flushes[0]]["t"].get("sp")))
    for e in bad:
        sp = body.blocks[e]["t"].get("sp")
        ctx.violation(rule, body.id, "replies announced but not flushed on readb's error",
                      "the readb arm of select() returns readb's error (a later packet of the batch was unsolicited / malformed / the stream ended) before flushing: replies readb had already fed into the write buffer for earlier packets of the batch are dropped with the connection, "
                      "but their Outgoing::PubAck/PubRec/PubComp notifications stay queued and are handed to the user — and whether the broker gets those acks depends on how its packets were chunked",
                      site=body.loc(sp))


def connack_in_queue_order(ctx, prog, ver):
    """'in wire order': after a batch that ended in an error the notifications of the packets handled before it are still
    queued in state.events. The CONNACK of the next connection was received after them, so poll() must hand it out
    through that queue (push_back, then pop_front) — not return it directly, overtaking what is queued."""
    rule = "R-C10-incoming-first"
    pre = dict((v[0], v[2]) for v in VERSIONS)[ver]
    body = prog.one("^" + re.escape(pre) + r"poll::\{closure#0\}$")
    direct = []
    for bi, b in enumerate(body.blocks):
        if b.get("cleanup"):
            continue
        for st in b["s"]:
            if "lhs" in st and st["lhs"]["l"] == 0 and not st["lhs"].get("p") and st["rv"]["k"] == "agg" and st["rv"].get("var") == "Ok":
                def has_connack(op, d=0):
                    for x in flatten_src(provenance(body, op)):
                        if x.kind == "agg":
                            if x.var == "ConnAck":
                                return True
                            if d < 4 and any(has_connack(o, d + 1) for o in x.rv.get("ops", [])):
                                return True
                    return False
                if has_connack(st["rv"]["ops"][0]):
                    direct.append((bi, st))
    if direct:
        for bi, st in direct:
            ctx.violation(rule, body.id, "CONNACK returned ahead of queued notifications",
                          "poll() returns Event::Incoming(ConnAck) of the new connection directly, while notifications of packets received on the previous connection can still be queued in state.events (a batch that ended in an error): "
                          "the user learns of the new connection before the packets that were received earlier — the %s sibling routes the CONNACK through the queue" % ("v5" if ver == "v4" else "v4"),
                          site=body.loc(st.get("sp")))
    else:
        ctx.ok(rule, body.id, "poll() never returns a CONNACK event built on the spot: it goes through the event queue, behind what is already queued", site=body.fn_loc())
