"""helpers shared by rule modules"""


class Relabel:
    """View of a Ctx that re-files another property's rule verdicts under a new rule name, keeping those
    selected by `keep(fn, instance)`.  Lets two properties that depend on the same structural fact share
    one implementation of the rule (the verdict is recomputed on every run, nothing is cached)."""
    def __init__(self, ctx, rule, keep):
        self.ctx, self.rule, self.keep, self.kept = ctx, rule, keep, 0
        self.progs = ctx.progs

    def cg(self, crate):
        return self.ctx.cg(crate)

    def ok(self, rule, fn, instance, **kw):
        if self.keep(fn, instance):
            self.kept += 1
            self.ctx.ok(self.rule, fn, instance, **kw)

    def violation(self, rule, fn, instance, what, **kw):
        if self.keep(fn, instance):
            self.kept += 1
            self.ctx.violation(self.rule, fn, instance, what, **kw)

    def floor(self, rule, what, count, minimum):
        self.ctx.floor(self.rule, what, count, minimum)

    def anchor_missing(self, rule, what):
        self.ctx.anchor_missing(self.rule, what)

    def guarded(self, rule, fn, *a, **kw):
        return self.ctx.guarded(self.rule, fn, *a, **kw)

    def note(self, s):
        self.ctx.note(s)

    def vacuous(self, rule, why):
        self.ctx.vacuous(self.rule, why)
