"""C09 — broker outbound QoS>0 window: bounded, uniquely numbered, resumes on ack (DESIGN §4 C09)."""
import re
from ..core import *
from .c06 import flag_guarding_call, const_assign_blocks, packet_switch, region_of_arm
from .c01 import flag_reach, interp_try_ready, Stop

EXPLANATION = (
    "Static decision on the MIR of /repo's working tree: (R-C09-bound) in forward_device_data the number of entries read for a QoS>0 request (native_readv length, retained truncate) derives only from "
    "Outgoing::free_slots() (minus what was already taken, or the constant 1 of round-robin), free_slots()==0 returns InflightFull before any read, MAX_PKID == MAX_INFLIGHT, and push_forwards is the only function "
    "that grows inflight_buffer / advances last_pkid while register_ack is the only one that shrinks it; "
    "(R-C09-fifo) register_ack/register_pubcomp pop the front and compare; every None result in the router sets the disconnect flag before the iteration ends and the final handle_disconnection gets the handler's own id; "
    "(R-C09-resume) the PubAck and PubRec arms lead, on every non-disconnect path, to a reschedule of the connection whose reason wakes it from InflightFull per the exhaustive try_ready table (called in the arm, or after the loop under a flag the arm sets), (IncomingAck, InflightFull) wakes the tracker (exhaustive table), every BufferFull return is preceded by "
    "push_notification(Unschedule), and RemoteLink::start calls LinkRx::wake after writing a batch that contained an Unschedule. "
    "NOT decided: 'never more than 100' and id uniqueness as numeric invariants over all histories (only that the read length derives from the free-slot count).")
ASSUMPTIONS = ["rustc MIR construction is correct", "tokio::select! expansion keeps the user-written branch bodies as ordinary blocks (only those are analysed)"]
TECHNIQUE = "static analysis: provenance of the read length, who-may-write, flag-sensitive must-pass rules, exhaustive finite-enum table"
LEVEL_TEXT = ("Decides structurally that the outbound read length is derived from the free-slot count on every path, who may change the inflight window, that unsolicited acks close only the offending connection, "
              "and that ack → reschedule → ready and Unschedule → wake pairings hold on all paths. The numeric bound itself over histories is not decided.")
LEVEL_NOTE = "Trusted: rustc MIR; the disconnect / unscheduled flags are identified structurally."


def run(ctx):
    prog = ctx.progs["rumqttd"]
    ctx.guarded("R-C09-bound", bound, ctx, prog)
    ctx.guarded("R-C09-fifo", fifo, ctx, prog)
    ctx.guarded("R-C09-resume", resume, ctx, prog)


def leaves_desc(srcs):
    out = []
    for s in srcs:
        if s.kind == "call":
            out.append("call:" + s.path.rsplit("::", 1)[-1])
        elif s.kind == "const":
            out.append("const:%s" % s.v)
        elif s.kind in ("param", "field"):
            out.append("%s:%s" % (s.kind, ".".join(s.fields or [])))
        else:
            out.append(s.kind)
    return sorted(set(out))


def bound(ctx, prog):
    rule = "R-C09-bound"
    f = prog.one(r"^router::routing::forward_device_data$")
    fs_calls = [(bb, t) for bb, t in f.calls() if callee_path(t).endswith("Outgoing::free_slots") and not f.is_cleanup(bb)]
    if not fs_calls:
        raise AnchorMissing("forward_device_data: no Outgoing::free_slots() call")
    reads = [(bb, t) for bb, t in f.calls() if callee_path(t).endswith("DataLog::native_readv") and not f.is_cleanup(bb)]
    truncs = [(bb, t) for bb, t in f.calls() if callee_path(t).endswith("Vec::<T, A>::truncate") and not f.is_cleanup(bb)]
    ctx.floor(rule, "native_readv calls", len(reads), 1)
    ctx.floor(rule, "retained truncate calls", len(truncs), 1)
    allowed_call = re.compile(r"(Outgoing::free_slots|Vec::<T, A>::len)$")
    for what, (bb, t), argi in [("native_readv length", r, 3) for r in reads] + [("retained truncate length", r, 1) for r in truncs]:
        srcs = flatten_src(provenance(f, t["args"][argi]))
        d = leaves_desc(srcs)
        bad = []
        has_free = False
        for s in srcs:
            if s.kind == "call" and s.path.endswith("Outgoing::free_slots"):
                has_free = True
            elif s.kind == "call" and allowed_call.search(s.path):
                pass
            elif s.kind == "const" and s.v == 1:
                pass   # round-robin reads one message
            elif s.kind in ("param", "field") and s.fields and s.fields[-1] == "max_outgoing_packet_count":
                pass   # QoS 0 branch: configured batch size, no window involved
            else:
                bad.append(s)
        has_batch = any(s.kind in ("param", "field") and s.fields and s.fields[-1] == "max_outgoing_packet_count" for s in srcs)
        if has_free and not bad and has_batch:
            ctx.ok(rule, f.id, "%s derives from the subscription's window (free_slots() for QoS>0 / max_outgoing_packet_count for QoS 0) %s" % (what, d), site=f.loc(t.get("sp")))
        elif has_free and not bad:
            ctx.violation(rule, f.id, what, "the %s is free_slots() on every path: a QoS 0 subscription is no longer served with its own window (max_outgoing_packet_count) but with the free QoS>0 slots of the connection (leaves: %s)" % (what, d), site=f.loc(t.get("sp")))
        else:
            ctx.violation(rule, f.id, what, "the %s is not derived from Outgoing::free_slots() only (leaves: %s)" % (what, d), site=f.loc(t.get("sp")))
    # retained messages taken first are charged against the window before the log is read:
    # the `publishes.len()` that is subtracted is read AFTER the retained messages were moved into `publishes`
    lens = []
    for rb, rt in reads:
        for s_ in flatten_src(provenance(f, rt["args"][3])):
            if s_.kind == "call" and s_.path.endswith("Vec::<T, A>::len"):
                lens.append(s_)
    exts = [(bb, t) for bb, t in f.calls() if re.search(r"Extend<T>>::extend$|Vec::<T, A>::(extend|append)$", callee_path(t)) and not f.is_cleanup(bb)]
    charged = False
    for s_ in lens:
        recv = flatten_src(provenance(f, s_.term["args"][0]))
        for bb, t in exts:
            er = flatten_src(provenance(f, t["args"][0]))
            same = any(a.kind == b_.kind == "call" and a.term is b_.term for a in recv for b_ in er)
            fed = any(x.kind == "call" and x.path.endswith("DataLog::read_retained_messages") for x in flatten_src(provenance(f, t["args"][1], through_calls=[r"IntoIterator>::into_iter$", r"Iterator::map$"])))
            if same and fed and dominates(f, bb, s_.bb):
                charged = True
    if lens and charged:
        ctx.ok(rule, f.id, "the retained messages are in `publishes` before its len() is subtracted from the window", site=f.loc(lens[0].term.get("sp")))
    else:
        ctx.violation(rule, f.id, "retained messages not charged to the window",
                      "the number subtracted from the free slots before the log read is not the length of `publishes` after the retained messages were added: retained + log messages together can exceed the window, and packet ids repeat inside it",
                      site=f.loc(reads[0][1].get("sp")))
    # free_slots() == 0 → InflightFull before any read
    fbb, ft = fs_calls[0]
    okz = False
    for bi, b in enumerate(f.blocks):
        t = b["t"]
        if t["k"] != "switch" or b.get("cleanup"):
            continue
        l = op_local(t["on"])
        d = single_def(f, l) if l is not None else None
        if d and d[2] == "assign" and d[3]["rv"]["k"] == "bin" and d[3]["rv"]["op"] in ("Eq", "Lt", "Le"):
            sa = flatten_src(provenance(f, d[3]["rv"]["a"]))
            kb = op_const(d[3]["rv"]["b"])
            # `len == 0`, `len < 1`, `len <= 0` all mean "no free slot"
            zero_test = kb is not None and ((d[3]["rv"]["op"] in ("Eq", "Le") and kb.get("v") == 0) or (d[3]["rv"]["op"] == "Lt" and kb.get("v") == 1))
            if zero_test and any(s.kind == "call" and s.path.endswith("free_slots") for s in sa):
                true_t = t["otherwise"]
                r = reachable(f, (true_t,))
                builds = False
                for b2 in r:
                    for st in f.blocks[b2]["s"]:
                        if "lhs" in st and st["rv"]["k"] == "agg" and st["rv"].get("var") == "InflightFull":
                            builds = True
                if builds and not (r & {x[0] for x in reads}):
                    okz = True
    if okz:
        ctx.ok(rule, f.id, "free_slots() == 0 returns InflightFull without reading")
    else:
        ctx.violation(rule, f.id, "zero free slots", "with no free slot the function can still read from the log", site=f.loc(ft.get("sp")))
    # constants
    mi = prog.consts.get("router::iobufs::MAX_INFLIGHT")
    mp = prog.consts.get("router::iobufs::MAX_PKID")
    if mi and mp and mi["v"] == mp["v"]:
        ctx.ok(rule, "router::iobufs", "MAX_PKID == MAX_INFLIGHT == %d" % mi["v"])
    else:
        ctx.violation(rule, "router::iobufs", "MAX_PKID vs MAX_INFLIGHT", "MAX_PKID (%s) and MAX_INFLIGHT (%s) differ: packet ids could repeat inside the window" % (mp and mp["v"], mi and mi["v"]))
    # free_slots = MAX_INFLIGHT - inflight_buffer.len()
    fs = prog.one(r"^router::iobufs::Outgoing::free_slots$")
    okf = False
    for b in fs.blocks:
        for st in b["s"]:
            if "lhs" in st and st["rv"]["k"] == "bin" and st["rv"]["op"] in ("Sub", "SubWithOverflow"):
                ka = op_const(st["rv"]["a"])
                sb = flatten_src(provenance(fs, st["rv"]["b"]))
                if ka is not None and mi and ka.get("v") == mi["v"] and any(s.kind == "call" and s.path.endswith("::len") for s in sb):
                    okf = True
    if okf:
        ctx.ok(rule, fs.id, "free_slots() = MAX_INFLIGHT - inflight_buffer.len()")
    else:
        ctx.violation(rule, fs.id, "free_slots formula", "free_slots() is no longer MAX_INFLIGHT minus the inflight count", site=fs.fn_loc())
    # who may write inflight_buffer / last_pkid
    grow = re.compile(r"VecDeque::<T, A>::(push_back|push_front|extend|append|insert)$")
    shrink = re.compile(r"VecDeque::<T, A>::(pop_front|pop_back|clear|drain|remove|truncate|retain)$")
    n = 0
    for body in prog.A.values():
        for bb, t in body.calls():
            if body.is_cleanup(bb):
                continue
            fsr = receiver_fields(body, t)
            if not fsr or fsr[-1] != "inflight_buffer":
                continue
            cp = callee_path(t)
            if grow.search(cp):
                n += 1
                if body.id.endswith("Outgoing::push_forwards"):
                    ctx.ok(rule, body.id, "inflight_buffer grows only in push_forwards", site=body.loc(t.get("sp")))
                else:
                    ctx.violation(rule, body.id, "inflight_buffer grown", "inflight_buffer is extended outside push_forwards", site=body.loc(t.get("sp")))
            elif shrink.search(cp):
                n += 1
                if body.id.endswith("Outgoing::register_ack"):
                    ctx.ok(rule, body.id, "inflight_buffer shrinks only in register_ack", site=body.loc(t.get("sp")))
                else:
                    ctx.violation(rule, body.id, "inflight_buffer shrunk", "inflight_buffer is shrunk outside register_ack", site=body.loc(t.get("sp")))
    ctx.floor(rule, "inflight_buffer mutations", n, 2)
    for body, bi, st in field_writes(prog, "last_pkid"):
        if body.id.endswith("Outgoing::push_forwards") or body.id.endswith("Outgoing::new"):
            ctx.ok(rule, body.id, "last_pkid written in push_forwards/new", site=body.loc(st.get("sp")), trivial=True)
        else:
            ctx.violation(rule, body.id, "last_pkid written", "the outgoing packet id counter is written outside push_forwards", site=body.loc(st.get("sp")))
    # push_forwards: pkid = last_pkid after increment, wraps at MAX_PKID
    pf = prog.one(r"^router::iobufs::Outgoing::push_forwards$")
    wrap = False
    for b in pf.blocks:
        for st in b["s"]:
            if "lhs" in st and st["rv"]["k"] == "bin" and st["rv"]["op"] == "Eq":
                kb = op_const(st["rv"]["b"])
                sa = flatten_src(provenance(pf, st["rv"]["a"]))
                if kb is not None and mp and kb.get("v") == mp["v"] and any(getattr(s, "fields", None) and s.fields[-1] == "last_pkid" for s in sa):
                    wrap = True
    if wrap:
        ctx.ok(rule, pf.id, "last_pkid wraps at MAX_PKID")
    else:
        ctx.violation(rule, pf.id, "pkid wrap", "push_forwards no longer resets last_pkid when it reaches MAX_PKID", site=pf.fn_loc())


def fifo(ctx, prog):
    rule = "R-C09-fifo"
    for name in ("register_ack", "register_pubcomp"):
        b = prog.one(r"^router::iobufs::Outgoing::%s$" % name)
        pops = [bb for bb, t in b.calls() if callee_path(t).endswith("VecDeque::<T, A>::pop_front")]
        cmp_ok = False
        for blk in b.blocks:
            for st in blk["s"]:
                if "lhs" in st and st["rv"]["k"] == "bin" and st["rv"]["op"] in ("Ne", "Eq"):
                    sa = flatten_src(provenance(b, st["rv"]["a"], through_calls=[r"ops::Try>::branch$"]))
                    sb = flatten_src(provenance(b, st["rv"]["b"], through_calls=[r"ops::Try>::branch$"]))
                    allp = sa + sb
                    # the oldest entry: popped, or looked at with front() before it is popped
                    if any(s.kind == "param" and s.l == 2 for s in allp) and any(s.kind == "call" and re.search(r"VecDeque::<T, A>::(pop_front|front)$", s.path) for s in allp):
                        cmp_ok = True
        if pops and cmp_ok:
            ctx.ok(rule, b.id, "pops the front entry and compares it with the acknowledged id")
        else:
            ctx.violation(rule, b.id, "fifo compare", "%s no longer pops the oldest entry and compares it with the ack's packet id" % name, site=b.fn_loc())
    body = prog.one(r"^router::routing::Router::handle_device_payload$")
    disconnect = flag_guarding_call(body, r"Router::handle_disconnection$")
    if disconnect is None:
        raise AnchorMissing("disconnect flag not found")
    disc_blocks = const_assign_blocks(body, disconnect, 1)
    sw = packet_switch(body)
    dom = dominators(body)
    after = reachable_after(body, [sw[0]])
    heads = [d for d in dom[sw[0]] if d in after]
    loop_head = max(heads, key=lambda x: len(dom[x]))
    n = 0
    for bb, t in body.calls():
        if body.is_cleanup(bb) or not re.search(r"Outgoing::(register_ack|register_pubcomp)$", callee_path(t)):
            continue
        n += 1
        dest = t["dest"]["l"]
        # is_none(&result) → switch
        none_edge = None
        for bb2, t2 in body.calls():
            if callee_path(t2).endswith("Option::<T>::is_none"):
                rp = receiver_place(body, t2)
                if rp is not None and rp["l"] == dest:
                    sw2 = t2.get("t")
                    st2 = body.blocks[sw2]["t"]
                    if st2["k"] == "switch":
                        none_edge = st2["otherwise"]
        if none_edge is None:
            for s in discr_switches(body, r"option::Option$"):
                if s[4]["l"] == dest:
                    none_edge = variant_target(s, "None")
        if none_edge is None:
            ctx.violation(rule, body.id, "unchecked " + callee_path(t).rsplit("::", 1)[-1], "the result of the FIFO check is not tested", site=body.loc(t.get("sp")))
            continue
        targets = {loop_head} | set(return_blocks(body))
        if none_edge in disc_blocks or must_pass(body, [none_edge], targets, via_blocks=disc_blocks, include_from=True):
            ctx.ok(rule, body.id, "unsolicited/out-of-order %s sets disconnect" % callee_path(t).rsplit("::", 1)[-1], site=body.loc(t.get("sp")))
        else:
            ctx.violation(rule, body.id, "unsolicited ack tolerated", "an ack the broker did not solicit (FIFO check returned None) does not flag the connection for disconnect", site=body.loc(t.get("sp")))
    ctx.floor(rule, "FIFO checks in handle_device_payload", n, 3)
    # final handle_disconnection gets own id
    for bb, t in body.calls():
        if callee_path(t).endswith("Router::handle_disconnection") and not body.is_cleanup(bb):
            src = flatten_src(provenance(body, t["args"][1]))
            if src and all(s.kind == "param" and s.l == 2 for s in src):
                ctx.ok(rule, body.id, "handle_disconnection(own id)", site=body.loc(t.get("sp")))
            else:
                ctx.violation(rule, body.id, "disconnects another id", "handle_device_payload disconnects an id other than its own", site=body.loc(t.get("sp")))


def resume(ctx, prog):
    rule = "R-C09-resume"
    body = prog.one(r"^router::routing::Router::handle_device_payload$")
    disconnect = flag_guarding_call(body, r"Router::handle_disconnection$")
    disc_blocks = const_assign_blocks(body, disconnect, 1)
    sw = packet_switch(body)
    sbb, adt, m, otherwise, pl, allv = sw
    dom = dominators(body)
    after = reachable_after(body, [sbb])
    heads = [d for d in dom[sbb] if d in after]
    loop_head = max(heads, key=lambda x: len(dom[x]))
    # what wakes the connection out of InflightFull: a reschedule of its own id with a reason that does so according to
    # the exhaustive try_ready table — called in the arm, or after the loop under a flag the arm sets
    from .c06 import wake_points
    direct, flagged = wake_points(prog, body, "InflightFull")
    resched = direct | flagged
    for variant in ("PubAck", "PubRec"):
        entry = m.get(variant)
        if entry is None:
            ctx.violation(rule, body.id, "no arm for " + variant, "Packet::%s is not handled" % variant)
            continue
        region = region_of_arm(body, entry, loop_head)
        # every path entry → leaving region passes resched or disconnect=true
        via = (resched | disc_blocks) & (region | disc_blocks)
        exits = set()
        for b in region:
            for s_ in live_succ(body, b):
                if s_ not in region:
                    exits.add(s_)
        r = reachable(body, (entry,), avoid_blocks=via)
        leak = [e for e in exits if e in r and e not in disc_blocks]
        if leak:
            ctx.violation(rule, body.id, "%s without reschedule" % variant,
                          "a %s that frees a window slot can end its iteration without a reschedule of the connection that wakes it from InflightFull (neither directly nor through the after-loop flag): the backlog is not resumed" % variant,
                          site=body.loc(body.blocks[entry]["t"].get("sp")))
        else:
            ctx.ok(rule, body.id, "%s arm: every non-disconnect path leads to a reschedule that wakes the connection from InflightFull" % variant)
    # table row
    tr = prog.one(r"^router::scheduler::Tracker::try_ready$")
    try:
        res, st, _ = interp_try_ready(prog, tr, ("Paused", (("InflightFull", ()),)), ("IncomingAck", ()))
        if res and res[0] == "Some" and st[0] == "Ready":
            ctx.ok(rule, tr.id, "(IncomingAck, Paused(InflightFull)) → Ready")
        else:
            ctx.violation(rule, tr.id, "(IncomingAck, InflightFull)", "an ack no longer wakes a tracker paused for a full window", site=tr.fn_loc())
    except Stop as e:
        ctx.anchor_missing(rule, "try_ready not interpretable: %s" % e)
    # BufferFull preceded by Unschedule
    f = prog.one(r"^router::routing::forward_device_data$")
    uns = set()
    for bb, t in f.calls():
        if callee_path(t).endswith("Outgoing::push_notification") and not f.is_cleanup(bb):
            if any(s.kind == "agg" and s.var == "Unschedule" for s in flatten_src(provenance(f, t["args"][1]))):
                uns.add(bb)
    n = 0
    for bi, b in enumerate(f.blocks):
        if b.get("cleanup"):
            continue
        for st in b["s"]:
            if "lhs" in st and st["rv"]["k"] == "agg" and st["rv"].get("var") == "BufferFull" and st["rv"].get("adt", "").endswith("ConsumeStatus"):
                n += 1
                if any(dominates(f, u, bi) for u in uns):
                    ctx.ok(rule, f.id, "BufferFull return is preceded by push_notification(Unschedule)", site=f.loc(st.get("sp")))
                else:
                    ctx.violation(rule, f.id, "BufferFull without Unschedule", "the connection is paused Busy without telling its link to send Ready when it has drained the buffer: it would never be rescheduled", site=f.loc(st.get("sp")))
    ctx.floor(rule, "BufferFull returns", n, 1)
    # RemoteLink::start: unscheduled → wake
    st_body = prog.one(r"^link::remote::RemoteLink::<P>::start::\{closure#0\}$")
    wakes = [bb for bb, t in st_body.calls() if callee_path(t).endswith("LinkRx::wake") and not st_body.is_cleanup(bb)]
    flags = [l for l in range(len(st_body.locals)) if st_body.local_ty(l) == "bool" and const_assign_blocks(st_body, l, 1) and const_assign_blocks(st_body, l, 0) and st_body.local_name(l)]
    # the flag set on the None edge of the Notification → Option<Packet> conversion
    flag = None
    for l in flags:
        for ab in const_assign_blocks(st_body, l, 1):
            for s in discr_switches(st_body, r"option::Option$"):
                if variant_target(s, "None") is not None and dominates(st_body, variant_target(s, "None"), ab):
                    flag = l
    if flag is None or not wakes:
        ctx.violation(rule, st_body.id, "unschedule flag", "RemoteLink::start no longer records an Unschedule notification and wakes the router afterwards", site=st_body.fn_loc())
        return
    set_blocks = const_assign_blocks(st_body, flag, 1)
    reset_blocks = const_assign_blocks(st_body, flag, 0)
    states = flag_reach(st_body, list(set_blocks), [flag], avoid_blocks=wakes)
    # must not come back to the flag's reset (next loop iteration) or return Ok without wake
    bad = [b for (b, v) in states if b in reset_blocks]
    if bad:
        ctx.violation(rule, st_body.id, "Unschedule without wake", "after a batch that contained Unschedule the link can start its next iteration without LinkRx::wake (Event::Ready): the router keeps the connection paused Busy forever",
                      site=st_body.loc(st_body.blocks[bad[0]]["t"].get("sp")))
    else:
        ctx.ok(rule, st_body.id, "a batch containing Unschedule is followed by LinkRx::wake before the next iteration")
    wv = [bb for bb, t in st_body.calls() if callee_path(t).endswith("Network::<P>::writev")]
    if wv and all(any(w2 in reachable_after(st_body, [w]) for w2 in wakes) for w in wv):
        ctx.ok(rule, st_body.id, "wake is reachable after writev")
    else:
        ctx.violation(rule, st_body.id, "wake order", "LinkRx::wake is not after Network::writev", site=st_body.fn_loc())
