"""C17 — shared subscriptions hand each message to exactly one group member (DESIGN §4 C17)."""
import re
from ..core import *

EXPLANATION = (
    "Static decision on the MIR of /repo's working tree: (R-C17-cursor) in forward_device_data, when the request belongs to a shared group the read starts at the group's cursor "
    "(the copy `request.cursor = shared_group.cursor` lies on every path from the Some edge to native_readv), a member that is not the group's current client never reaches push_forwards, "
    "and every path from push_forwards to a return either writes the advanced cursor back to the group and moves to the next client, or has established that there is no group; "
    "(R-C17-membership) SharedGroup.clients is changed only by add_client / remove_client, both places that remove members drop groups that became empty, and the UNSUBSCRIBE arm takes the client out of the group of the filter given up only (one group looked up by key, or a key comparison guarding the removal inside retain); "
    "(R-C17-key) a SharedGroup has one turn and one cursor, so the key under which prepare_filter finds it determines the topic filter: the provenance of the group argument at the call site contains the whole subscription path or both halves of extract_group's result (format!() is looked through), never the share name alone; "
    "(R-C17-skipped) in the drop-elaborated MIR of Router::consume the queue of requests set aside with ConsumeStatus::SkipRequest is never dropped on a normal path (it is handed back to the tracker on every exit), "
    "and the polled queue is dropped only behind pop_front()==None; "
    "(R-C17-index) every write of SharedGroup.current_client_index is 0, `% clients.len()` or gen_range over the half-open 0..clients.len(), so current_client() names a member while the group is non-empty; "
    "(R-C17-monotone) the group cursor is written only by the forwarder with the continuation of its own read (it never moves back); "
    "NOT decided: at-most-once / completeness over join/leave histories, fairness of the strategies.")
ASSUMPTIONS = ["rustc MIR construction is correct"]
TECHNIQUE = "static analysis: edge-sensitive must-pass rules on the forwarder's MIR CFG, who-may-write"
LEVEL_TEXT = "Decides that the group cursor is read before and written back after every forwarding path and that non-current members are skipped; distribution properties over histories are not decided."
LEVEL_NOTE = "Trusted: rustc MIR."


def run(ctx):
    prog = ctx.progs["rumqttd"]
    ctx.guarded("R-C17-cursor", cursor, ctx, prog)
    ctx.guarded("R-C17-membership", membership, ctx, prog)
    ctx.guarded("R-C17-skipped", skipped, ctx, prog)
    ctx.guarded("R-C17-index", index_in_range, ctx, prog)
    ctx.guarded("R-C17-monotone", cursor_writers, ctx, prog)
    ctx.guarded("R-C17-key", group_key, ctx, prog)


def skipped(ctx, prog):
    """A member whose shared request was set aside (ConsumeStatus::SkipRequest) must get it back: the queue
    of skipped requests is never dropped on a normal path of Router::consume (drop-elaborated MIR)."""
    from .c01 import container_drops
    container_drops(ctx, "R-C17-skipped", prog.one(r"^router::routing::Router::consume$", view="R"))


def cursor(ctx, prog):
    rule = "R-C17-cursor"
    f = prog.one(r"^router::routing::forward_device_data$")
    group_param = None
    for l in range(1, f.argc + 1):
        if "SharedGroup" in f.local_ty(l):
            group_param = l
    if group_param is None:
        raise AnchorMissing("forward_device_data: shared group parameter not found")
    group_sws = [s for s in discr_switches(f, r"option::Option$") if s[4]["l"] == group_param and not s[4].get("p")]
    ctx.floor(rule, "tests of the shared_group option", len(group_sws), 2)
    if not group_sws:
        return
    none_edges = [(s[0], variant_target(s, "None")) for s in group_sws]
    reads = [bb for bb, t in f.calls() if callee_path(t).endswith("DataLog::native_readv") and not f.is_cleanup(bb)]
    pushes = [bb for bb, t in f.calls() if callee_path(t).endswith("Outgoing::push_forwards") and not f.is_cleanup(bb)]
    if not reads or not pushes:
        raise AnchorMissing("forward_device_data: native_readv / push_forwards not found")

    def writes(dst_root_is_group):
        out = []
        for bi, b in enumerate(f.blocks):
            if b.get("cleanup"):
                continue
            for st in b["s"]:
                if "lhs" not in st or place_fields(st["lhs"])[-1:] != ["cursor"] or st["rv"]["k"] != "use":
                    continue
                lhs_ty = f.local_ty(st["lhs"]["l"])
                src = flatten_src(provenance(f, st["rv"]["a"]))
                lhs_group = "SharedGroup" in lhs_ty
                src_group = any(s.kind in ("param", "field") and s.l == group_param and s.fields and s.fields[-1] == "cursor" for s in src)
                src_req = any(s.kind in ("param", "field") and s.l == 1 and s.fields and s.fields[-1] == "cursor" for s in src)
                if dst_root_is_group and lhs_group and src_req:
                    out.append(bi)
                if not dst_root_is_group and "DataRequest" in lhs_ty and src_group:
                    out.append(bi)
        return out
    load = writes(False)     # request.cursor = shared_group.cursor
    store = writes(True)     # share.cursor = request.cursor
    # (a) read starts at the group cursor
    first = min(group_sws, key=lambda s: len(dominators(f).get(s[0], ())))
    some_t = variant_target(first, "Some")
    if load and not (reachable(f, (some_t,), avoid_blocks=load) & set(reads)):
        ctx.ok(rule, f.id, "with a group, request.cursor is loaded from the group cursor before native_readv", site=f.loc(f.blocks[reads[0]]["t"].get("sp")))
    else:
        ctx.violation(rule, f.id, "group cursor not loaded", "a shared request can read from its own stale cursor instead of the group's cursor (messages would be re-delivered to another member)", site=f.loc(f.blocks[reads[0]]["t"].get("sp")))
    # (b) skip_current_client never reaches push_forwards
    skip = None
    for bb, t in f.calls():
        if callee_path(t).endswith("SharedGroup::current_client") and not f.is_cleanup(bb):
            # the comparison result `Some(&client_id) != current_client()` → bool → switch
            for bi, b in enumerate(f.blocks):
                tt = b["t"]
                if tt["k"] == "switch" and not b.get("cleanup") and dominates(f, bb, bi):
                    l = op_local(tt["on"])
                    hops = 0
                    while l is not None and hops < 4:
                        d = single_def(f, l)
                        if d and d[2] == "assign" and d[3]["rv"]["k"] == "use" and op_local(d[3]["rv"]["a"]) is not None:
                            l = op_local(d[3]["rv"]["a"]); hops += 1
                            continue
                        break
                    d = single_def(f, l) if l is not None else None
                    if d and d[2] == "call" and re.search(r"PartialEq.*::ne$", callee_path(d[3])):
                        if any(s.kind == "call" and s.path.endswith("current_client") for a in d[3]["args"] for s in flatten_src(provenance(f, a))):
                            skip = (bi, tt["otherwise"])
    if skip is None:
        ctx.violation(rule, f.id, "no current-client test", "forward_device_data no longer compares the connection with the group's current client", site=f.fn_loc())
    elif reachable(f, (skip[1],)) & set(pushes):
        ctx.violation(rule, f.id, "non-current member forwards", "a member that is not the group's current client can reach push_forwards: the same messages go to two members", site=f.loc(f.blocks[skip[0]]["t"].get("sp")))
    else:
        ctx.ok(rule, f.id, "a member that is not the current client returns before push_forwards")
    # (c) after push_forwards: write-back + next client, unless there is no group
    upd = [bb for bb, t in f.calls() if callee_path(t).endswith("SharedGroup::update_next_client") and not f.is_cleanup(bb)]
    rets = return_blocks(f)
    ok_store = bool(store) and bool(upd)
    bad_path = None
    if ok_store:
        avoid_edges = [e for e in none_edges if e[1] is not None]
        r = reachable_after(f, pushes, avoid_blocks=store, avoid_edges=avoid_edges)
        if r & set(rets):
            bad_path = find_path(f, pushes, rets, avoid_blocks=store, avoid_edges=avoid_edges)
        r2 = reachable_after(f, pushes, avoid_blocks=upd, avoid_edges=avoid_edges)
        if r2 & set(rets) and bad_path is None:
            bad_path = find_path(f, pushes, rets, avoid_blocks=upd, avoid_edges=avoid_edges)
    if ok_store and bad_path is None:
        ctx.ok(rule, f.id, "every path from push_forwards to return writes the cursor back to the group and advances the current client (or has no group)")
    else:
        ctx.violation(rule, f.id, "push without group cursor write-back",
                      "after push_forwards a path returns without `share.cursor = request.cursor` / update_next_client although the request may belong to a group: the next read re-delivers the same messages",
                      site=f.loc(f.blocks[pushes[0]]["t"].get("sp")), path=path_lines(f, bad_path) if bad_path else None)


def membership(ctx, prog):
    rule = "R-C17-membership"
    n = 0
    for body in prog.A.values():
        for bb, t in body.calls():
            if body.is_cleanup(bb):
                continue
            fs = receiver_fields(body, t)
            if not fs or fs[-1] != "clients" or not callee_path(t).startswith("std::vec::Vec::<T, A>::"):
                continue
            if "shared_subs" not in body.id:
                continue
            name = callee_path(t).rsplit("::", 1)[-1]
            if name in ("push", "retain", "remove", "clear", "insert", "pop", "truncate", "drain", "swap_remove", "extend", "append", "retain_mut", "dedup"):
                n += 1
                if re.search(r"SharedGroup::(add_client|remove_client)$", body.id):
                    ctx.ok(rule, body.id, "clients." + name, site=body.loc(t.get("sp")))
                else:
                    ctx.violation(rule, body.id, "clients." + name, "group membership is changed outside add_client / remove_client", site=body.loc(t.get("sp")))
    ctx.floor(rule, "membership mutations", n, 2)
    # add_client pushes without looking (a repeated SUBSCRIBE lists the member twice), so leaving must remove EVERY
    # occurrence: Vec::retain(!=) — or add_client must refuse duplicates
    rc = prog.one(r"^router::shared_subs::SharedGroup::remove_client$")
    ac = prog.one(r"^router::shared_subs::SharedGroup::add_client$")
    retains = [t for bb, t in rc.calls() if re.search(r"Vec::<T, A>::retain(_mut)?$", callee_path(t)) and (receiver_fields(rc, t) or [None])[-1] == "clients" and not rc.is_cleanup(bb)]
    dedup = [t for bb, t in ac.calls() if re.search(r"::contains$|Iterator::any$|Iterator::position$", callee_path(t)) and not ac.is_cleanup(bb)]
    if retains or dedup:
        ctx.ok(rule, rc.id, "a leaving member is removed completely (%s)" % ("clients.retain" if retains else "add_client refuses duplicates"), site=rc.fn_loc())
    else:
        ctx.violation(rule, rc.id, "member removed once only",
                      "remove_client no longer removes every occurrence of the client while add_client can list a member more than once (repeated SUBSCRIBE): a stale entry keeps the turn and the group's messages are forwarded to nobody",
                      site=rc.fn_loc())
    # removal sites drop empty groups; the UNSUBSCRIBE site leaves the group of the filter given up and no other
    sites = 0
    MAPC = [r"HashMap::<K, V, S(, A)?>::get_mut$", r"Option::<T>::unwrap$", r"Entry::<'a, K, V(, A)?>::or_insert(_with)?$", r"HashMap::<K, V, S(, A)?>::entry$"]
    for body, bb, t in call_sites(prog, r"SharedGroup::remove_client$"):
        sites += 1
        root = body.root if body.kind == "Closure" else body.id
        per_filter = bool(re.search(r"Router::handle_device_payload$", root or ""))   # UNSUBSCRIBE
        if body.kind == "Closure":
            empties = [b2 for b2, t2 in body.calls() if callee_path(t2).endswith("SharedGroup::is_empty")]
            parent = prog.A.get(body.root or "")
            used_in_retain = False
            if parent:
                for b3, t3 in parent.calls():
                    if callee_path(t3).endswith("HashMap::<K, V, S, A>::retain") and any(s.kind == "agg" and s.adt == body.id for a in t3["args"] for s in flatten_src(provenance(parent, a))):
                        used_in_retain = True
            # the closure's verdict (what retain keeps) is `!group.is_empty()`, not merely some call of is_empty
            keeps_nonempty = False
            for blk in body.blocks:
                for st in blk["s"]:
                    if "lhs" in st and st["lhs"]["l"] == 0 and not st["lhs"].get("p"):
                        if st["rv"]["k"] == "un" and st["rv"]["op"] == "Not":
                            inner = flatten_src(provenance(body, st["rv"]["a"]))
                            keeps_nonempty = keeps_nonempty or any(x.kind == "call" and x.path.endswith("SharedGroup::is_empty") for x in inner)
                        elif st["rv"]["k"] == "use":
                            def walk(srcs):
                                for x in srcs:
                                    if x.kind == "op" and x.name == "Not" and any(y.kind == "call" and y.path.endswith("SharedGroup::is_empty") for a in x.args for y in flatten_src(a)):
                                        return True
                                    if x.kind == "op" and any(walk(a) for a in x.args):
                                        return True
                                return False
                            keeps_nonempty = keeps_nonempty or walk(provenance(body, st["rv"]["a"]))
            if empties and used_in_retain and keeps_nonempty:
                ctx.ok(rule, body.id, "remove_client inside shared_subscriptions.retain(.. !is_empty())", site=body.loc(t.get("sp")))
            else:
                ctx.violation(rule, body.id, "empty group kept", "after removing a member the (possibly empty) group is kept: update_next_client would divide by zero / messages would be read for nobody", site=body.loc(t.get("sp")))
            if per_filter:
                # inside retain(|key, group| ..) the removal must be guarded by a comparison of the key
                dom = dominators(body)
                guarded = False
                for d in dom.get(bb, ()):
                    bt = body.blocks[d]["t"]
                    if bt["k"] != "switch":
                        continue
                    for x in flatten_src(provenance(body, bt["on"])):
                        if x.kind == "call" and re.search(r"PartialEq(<.*>)?>::(eq|ne)$|::eq$|::ne$", x.path):
                            for a in body.blocks[x.bb]["t"]["args"]:
                                if any(y.kind == "param" and y.l == 2 for y in flatten_src(provenance(body, a))):
                                    guarded = True
                if guarded:
                    ctx.ok(rule, body.id, "UNSUBSCRIBE: the removal inside retain is guarded by a comparison of the group key", site=body.loc(t.get("sp")))
                else:
                    ctx.violation(rule, body.id, "UNSUBSCRIBE leaves every group",
                                  "giving up ONE filter removes the client from EVERY shared group (retain over all of shared_subscriptions with an unconditional remove_client): its other shared subscriptions keep their data requests but are never the group's current client again, "
                                  "and once such a group is gone the request reads from its own cursor what another member was just served", site=body.loc(t.get("sp")))
            continue
        # a plain site: one group looked up by key, removed from the map when it became empty
        recv = flatten_src(provenance(body, t["args"][0], through_calls=MAPC))
        from_map = any(getattr(x, "fields", None) and x.fields[-1] == "shared_subscriptions" for x in recv)
        drops = False
        cur, steps = t.get("t"), 0
        empt_dest = None
        while cur is not None and steps < 12:
            bt = body.blocks[cur]["t"]
            if bt["k"] == "call" and callee_path(bt).endswith("SharedGroup::is_empty"):
                empt_dest = cur
                break
            if bt["k"] in ("call", "goto"):
                cur = bt.get("t")
            else:
                break
            steps += 1
        if empt_dest is not None:
            after = reachable_after(body, [empt_dest])
            for b2, t2 in body.calls():
                if b2 in after and re.search(r"HashMap::<K, V, S(, A)?>::remove$", callee_path(t2)) and not body.is_cleanup(b2):
                    r2 = flatten_src(provenance(body, t2["args"][0]))
                    if any(getattr(x, "fields", None) and x.fields[-1] == "shared_subscriptions" for x in r2) and dominates(body, empt_dest, b2):
                        drops = True
        if from_map and drops:
            ctx.ok(rule, body.id, "remove_client on one group looked up in shared_subscriptions, which is removed when is_empty()", site=body.loc(t.get("sp")))
        else:
            ctx.violation(rule, body.id, "remove_client outside retain", "a member is removed without dropping the group if it became empty (no `is_empty()` → shared_subscriptions.remove after the call)", site=body.loc(t.get("sp")))
    ctx.floor(rule, "member removal sites", sites, 2)


def index_in_range(ctx, prog):
    """current_client() is `clients.get(current_client_index)`: a member exists for every message only while the
    index stays below clients.len().  Every write of the index is one of: constant 0 (constructor),
    `<expr> % clients.len()`, or `gen_range(0..clients.len())` with a half-open Range."""
    rule = "R-C17-index"
    n = 0

    def is_len(body, op):
        src = flatten_src(provenance(body, op))
        return bool(src) and all(x.kind == "call" and x.path.endswith("Vec::<T, A>::len") and
                                 [y.split(".")[-1] for y in (receiver_fields(body, x.term) or [])][-1:] == ["clients"] for x in src)
    for body, bi, st in field_writes(prog, "current_client_index"):
        if body.is_cleanup(bi):
            continue
        n += 1
        rv = st["rv"]
        why = None
        if rv["k"] == "bin" and rv["op"] == "Rem" and is_len(body, rv["b"]):
            why = "<expr> % clients.len()"
        elif rv["k"] == "use":
            k = op_const(rv["a"])
            if k is not None and k.get("v") == 0:
                why = "constant 0"
            else:
                src = flatten_src(provenance(body, rv["a"]))
                if src and all(x.kind == "call" and x.path.endswith("Rng::gen_range") for x in src):
                    okr = True
                    for x in src:
                        rs = flatten_src(provenance(body, x.term["args"][1]))
                        for r_ in rs:
                            if not (r_.kind == "agg" and r_.adt == "std::ops::Range" and (op_const(r_.rv["ops"][0]) or {}).get("v") == 0 and is_len(body, r_.rv["ops"][1])):
                                okr = False
                        okr = okr and bool(rs)
                    if okr:
                        why = "gen_range(0..clients.len()) (half-open)"
                elif src and all(x.kind == "op" and getattr(x, "name", "") == "Rem" for x in src):
                    why = None
        if why:
            ctx.ok(rule, body.id, "current_client_index = %s" % why, site=body.loc(st.get("sp")))
        else:
            ctx.violation(rule, body.id, "index may leave the member list",
                          "current_client_index is written with a value not bounded by clients.len() (allowed: 0, `% clients.len()`, gen_range(0..clients.len())): current_client() becomes None, every member skips its turn and the group's messages are never forwarded",
                          site=body.loc(st.get("sp")))
    ctx.floor(rule, "writes of SharedGroup.current_client_index", n, 3)
    # after members were removed the index is re-bounded whenever somebody is left: the only way round the
    # `% clients.len()` in remove_client is the "no client left" edge
    rc = prog.one(r"^router::shared_subs::SharedGroup::remove_client$")
    from .c15 import switch_on_call_result
    rebound = [bi for b_, bi, st in field_writes(prog, "current_client_index") if b_.id == rc.id and st["rv"]["k"] == "bin" and st["rv"]["op"] == "Rem"]
    shrink = [bb for bb, t in rc.calls() if re.search(r"Vec::<T, A>::(retain|retain_mut|remove|swap_remove|drain|truncate)$", callee_path(t)) and not rc.is_cleanup(bb)]
    empty_edges = [(e[0], e[1]) for e in switch_on_call_result(rc, r"Vec::<T, A>::is_empty$")]
    is_len_ = lambda ss: any(x.kind == "call" and x.path.endswith("Vec::<T, A>::len") for x in ss)
    is_k = lambda v: (lambda ss: any(x.kind == "const" and x.v == v for x in ss))
    for sbb, holds, fails, _ in cmp_switches(rc, ("Eq",), is_len_, is_k(0)):
        empty_edges.append((sbb, holds))
    for sbb, holds, fails, _ in cmp_switches(rc, ("Gt",), is_len_, is_k(0)) + cmp_switches(rc, ("Ge",), is_len_, is_k(1)):
        empty_edges.append((sbb, fails))
    if not rebound or not shrink:
        ctx.anchor_missing(rule, "remove_client: shrinking call / re-bounding write not found (%d/%d)" % (len(shrink), len(rebound)))
    elif reachable_after(rc, shrink, avoid_blocks=tuple(rebound), avoid_edges=empty_edges) & set(return_blocks(rc)):
        ctx.violation(rule, rc.id, "index not re-bounded after a member left",
                      "remove_client can return with members left and current_client_index unchanged (the `% clients.len()` is skipped on an edge other than \"no client left\"): after a two-member group shrinks the index can point past the list, current_client() is None and the remaining member never gets its turn",
                      site=rc.fn_loc())
    else:
        ctx.ok(rule, rc.id, "after a removal the index is re-bounded on every path that leaves at least one member", site=rc.fn_loc())
    cc = prog.one(r"^router::shared_subs::SharedGroup::current_client$")
    gets = [t for bb, t in cc.calls() if callee_path(t).endswith("::get") and not cc.is_cleanup(bb)]
    if gets and all(any(getattr(x, "fields", None) and x.fields[-1] == "current_client_index" for x in flatten_src(provenance(cc, t["args"][1]))) for t in gets):
        ctx.ok(rule, cc.id, "current_client() = clients.get(current_client_index)")
    else:
        ctx.violation(rule, cc.id, "current_client lookup", "current_client() no longer looks up clients[current_client_index]", site=cc.fn_loc())


def cursor_writers(ctx, prog):
    """'never twice': the group's read position only moves forward.  It is written by the forwarder (with the
    continuation of its own read) and initialised by SharedGroup::new; nobody else may set it — in particular not
    back to an older offset."""
    rule = "R-C17-monotone"
    n = 0
    for body, bi, st in field_writes(prog, "cursor"):
        if body.is_cleanup(bi) or "SharedGroup" not in body.local_ty(st["lhs"]["l"]):
            continue
        n += 1
        if body.id == "router::routing::forward_device_data":
            src = flatten_src(provenance(body, st["rv"]["a"], through_calls=[r"ops::Try>::branch$"])) if st["rv"]["k"] == "use" else []
            # the continuation itself, or request.cursor (which R-C01-advance shows was just set from it)
            if src and all((x.kind == "call" and x.path.endswith("DataLog::native_readv")) or (x.kind == "param" and x.l == 1 and x.fields[-1:] == ["cursor"]) for x in src):
                ctx.ok(rule, body.id, "group cursor = continuation of the forwarder's own read", site=body.loc(st.get("sp")))
            else:
                ctx.violation(rule, body.id, "group cursor source", "the forwarder writes the group cursor from something other than the continuation of its read", site=body.loc(st.get("sp")))
        elif body.id.endswith("SharedGroup::new"):
            ctx.ok(rule, body.id, "initial cursor", trivial=True)
        else:
            ctx.violation(rule, body.id, "group cursor rewound",
                          "%s sets the shared group's cursor (to a departing member's oldest unacknowledged offset): everything forwarded to — and acknowledged by — the other members since that offset is read and forwarded again" % body.id,
                          site=body.loc(st.get("sp")))
    ctx.floor(rule, "writes of SharedGroup.cursor", n, 2)
    # the INITIAL cursor: a group created for a new subscription starts at the log position handed to prepare_filter
    # (next_native_offset: nothing older is owed to anybody). A group created while a session is RESUMED has a past:
    # other members may have read on since this member left; its private saved cursor is not the group's position
    # ... unless every place that drops a group (its last connected member left) hands the group's cursor to the
    # sessions saved in the graveyard, so that a restored request carries the group's last position
    handed = []
    for body, bb, t in call_sites(prog, r"router::shared_subs::SharedGroup::remove_client$"):
        empties = [b2 for b2, t2 in body.calls() if callee_path(t2).endswith("SharedGroup::is_empty") and not body.is_cleanup(b2)]
        ok_here = False
        for b2, t2 in body.calls():
            if body.is_cleanup(b2) or not re.search(r"^router::graveyard::Graveyard::", callee_path(t2)):
                continue
            from_group = False
            for a in t2["args"][1:]:
                for x in flatten_src(provenance(body, a)):
                    if getattr(x, "fields", None) and x.fields[-1] == "cursor" and x.kind in ("param", "field", "call"):
                        from_group = True
            if from_group and any(b2 in reachable_after(body, [e]) for e in empties):
                ok_here = True
        handed.append((body.id, ok_here))
    all_handed = bool(handed) and all(okh for _, okh in handed)
    sites = 0
    for body, bb, t in call_sites(prog, r"router::shared_subs::SharedGroup::new$"):
        if body.id.startswith("router::shared_subs::") and "tests" in body.id:
            continue
        sites += 1
        src = flatten_src(provenance(body, t["args"][0]))
        if body.id.endswith("Router::prepare_filter") and src and all(x.kind == "param" for x in src):
            ctx.ok(rule, body.id, "a group created by a subscription starts at the position handed to prepare_filter", site=body.loc(t.get("sp")))
        elif any(getattr(x, "fields", None) and x.fields[-1] == "cursor" for x in src) and all_handed:
            ctx.ok(rule, body.id, "a group re-created at resume starts at the restored request's cursor, and every site that drops a group hands the group's cursor to the saved sessions (%s)" % ", ".join(sorted(i.rsplit("::", 2)[-2] + "::" + i.rsplit("::", 1)[-1] for i, _ in handed)),
                   site=body.loc(t.get("sp")))
        elif any(getattr(x, "fields", None) and x.fields[-1] == "cursor" for x in src):
            ctx.violation(rule, body.id, "group re-created from a member's saved cursor",
                          "%s creates the shared group again with the cursor of a restored DataRequest, but a group is dropped with its cursor when its last connected member leaves (%s do not hand it to the saved sessions): the resuming member's private cursor dates from when IT left — "
                          "everything the other members received in between is forwarded a second time" % (body.id, [i for i, okh in handed if not okh]), site=body.loc(t.get("sp")))
        else:
            ctx.violation(rule, body.id, "group created with an unknown cursor", "SharedGroup::new is called with a cursor of unknown origin (%s)" % sorted({x.kind for x in src}), site=body.loc(t.get("sp")))
    ctx.floor(rule, "SharedGroup::new call sites", sites, 1)


def group_key(ctx, prog):
    """A SharedGroup holds ONE read cursor and ONE turn: it can serve one log only. The key under which a subscription
    finds its group must therefore determine the filter (the MQTT shared subscription is ShareName + topic filter), not
    the share name alone."""
    rule = "R-C17-key"
    body = prog.one(r"^router::routing::Router::handle_device_payload$")
    calls = [(bb, t) for bb, t in body.calls() if callee_path(t).endswith("Router::prepare_filter") and not body.is_cleanup(bb)]
    if len(calls) != 1:
        raise AnchorMissing("handle_device_payload: expected one Router::prepare_filter call, found %d" % len(calls))
    pf = prog.one(r"^router::routing::Router::prepare_filter$")
    gi = [i for i in range(1, pf.argc + 1) if re.search(r"Option<(std::string::|alloc::string::)?String>", pf.local_ty(i))]
    if len(gi) != 1:
        raise AnchorMissing("prepare_filter: the group-name parameter (Option<String>) was not found")
    # the parameter is the key of shared_subscriptions
    keyed = False
    for bb, t in pf.calls():
        if re.search(r"HashMap::<K, V, S(, A)?>::entry$", callee_path(t)) and not pf.is_cleanup(bb):
            recv = flatten_src(provenance(pf, t["args"][0]))
            if any(getattr(x, "fields", None) and x.fields[-1] == "shared_subscriptions" for x in recv):
                ks = flatten_src(provenance(pf, t["args"][1], through_calls=[r"ToString>::to_string$", r"Clone>::clone$", r"ToOwned>::to_owned$"]))
                if any(x.kind == "param" and x.l == gi[0] for x in ks):
                    keyed = True
    if not keyed:
        raise AnchorMissing("prepare_filter: shared_subscriptions.entry(<group parameter>) not found")
    bb, t = calls[0]
    leaves = flatten_src(provenance(body, t["args"][gi[0] - 1]))
    # String-building idioms are looked through: clone/to_string/to_owned, and format!() with everything it expands to
    TC = [r"ToString>::to_string$", r"Clone>::clone$", r"ToOwned>::to_owned$"]
    FMT = r"^(std|core|alloc)::fmt::|hint::must_use$"

    def deep(op, depth=0):
        out = []
        for x in flatten_src(provenance(body, op, through_calls=TC)):
            if depth < 8 and x.kind == "agg" and not (x.adt or "").endswith("Option"):
                for o in x.rv.get("ops", []):
                    out += deep(o, depth + 1)
            elif depth < 8 and x.kind == "call" and re.search(FMT, x.path):
                for o in body.blocks[x.bb]["t"]["args"]:     # every argument, not just the receiver
                    out += deep(o, depth + 1)
            else:
                out.append(x)
        return out
    inner = []
    for x in leaves:
        if x.kind == "agg" and x.var == "Some":
            inner += deep(x.rv["ops"][0])
    if not inner:
        raise AnchorMissing("handle_device_payload: the group name handed to prepare_filter is never Some(..)")
    inner = [x for x in inner if x.kind != "const"]      # the literal pieces of a format string
    parts = {tuple(x.fields or ()) for x in inner if x.kind == "call" and x.path.endswith("extract_group")}
    # `f.path` of the filter being subscribed (f comes out of `subscribe.filters.iter_mut()`)
    whole = any(x.kind in ("param", "field", "call") and getattr(x, "fields", None) and x.fields[-1] == "path" and not (x.kind == "call" and x.path.endswith("extract_group")) for x in inner)
    helper = False
    for x in inner:
        if x.kind == "call" and not x.path.endswith("extract_group"):
            for a in body.blocks[x.bb]["t"]["args"]:
                if any(y.kind in ("param", "field") and y.fields and y.fields[-1] == "path" for y in flatten_src(provenance(body, a, through_calls=TC))):
                    helper = True
    both = ("0", "0") in parts and ("0", "1") in parts
    if whole or both or helper:
        ctx.ok(rule, body.id, "the group key determines the topic filter (%s)" % ("whole subscription path" if whole else "share name and filter" if both else "built from the subscription path"), site=body.loc(t.get("sp")))
    elif parts == {("0", "0")}:
        ctx.violation(rule, body.id, "group keyed by share name alone",
                      "the key of shared_subscriptions is the share name returned by extract_group without the topic filter: `$share/g/a` and `$share/g/b` (two shared subscriptions, two logs) get one SharedGroup, i.e. one turn and one read cursor — "
                      "the member of one filter holds the turn while the other filter's messages are forwarded to nobody, and a cursor of one log is used to read the other", site=body.loc(t.get("sp")))
    else:
        ctx.violation(rule, body.id, "group key does not determine the filter",
                      "the key of shared_subscriptions handed to prepare_filter is derived from %s, not from the subscription's share name and topic filter" % sorted({(x.kind, getattr(x, "path", None), tuple(getattr(x, "fields", None) or ())) for x in inner}, key=repr),
                      site=body.loc(t.get("sp")))
