"""C04 — codecs round-trip and interoperate: only the *table* clauses are decidable statically
(DESIGN §4 C04)."""
import json, os, re
from ..core import *

EXPLANATION = (
    "Static decision on the MIR of /repo's working tree of the table clauses of C04, in each of the four codec copies (rumqttd v4/v5, rumqttc v4/v5), across copies, and against the MQTT tables: "
    "(R-C04-type-nibble) for every packet kind the constant high nibble its writer puts first equals the discriminant of the PacketType variant whose decoder arm dispatches to that kind's reader, and FixedHeader::packet_type maps n to the variant with discriminant n; "
    "(R-C04-prop-table) in every MQTT 5 properties reader/writer pair the set of property ids written equals the set of arms read, the wire type (u8/u16/u32/string/string pair/bytes/varint) written after an id equals the wire type read for it "
    "and equals the OASIS MQTT 5.0 table 2-4 (27 rows, rules/mqtt5_properties.json); property(n) maps n to the variant with discriminant n; client and broker tables for the same packet agree; "
    "(R-C04-reason-tables) every reason(u8)→enum / code(enum)→u8 pair is a mutual inverse on the listed rows; "
    "(R-C04-varint-siblings) the hand-copied framing helpers (length, len_len, write_remaining_length, check, parse_fixed_header, read_*/write_* primitives) that are identical on the pinned tree stay signature-equal (thresholds, masks, shift limit). "
    "(R-C04-flag-bits) the four copies extract/set the same bits of the CONNECT flags, PUBLISH header flags, SUBSCRIBE options and CONNACK flags (masks normalised over shift spelling), and in the CONNECT family every field the reader extracts is one the writer sets and vice versa; "
    "(R-C04-prop-accounting) in every MQTT 5 properties reader each variable-length value read contributes its own len() plus a 2-byte prefix to the consumed-bytes counter exactly once; "
    "(R-C04-len-strings) in every len() of the four codecs (and the per-item closures they fold over) each string len() is added together with a 2-byte length prefix; "
    "(R-C04-kinds) every packet kind a codec's encoder has an arm for is one its decoder can produce; (R-C04-zero-length) a reader that accepts remaining length 0 is reachable for such a frame; "
    "(R-C04-props-none) a packet's len() counts the zero property-length byte its writer emits when there are no properties; "
    "R-C04-len-strings also demands that each PUBLISH len() counts the packet-id bytes under a test of the QoS, as write() emits them. "
    "NOT decided (the bulk of the statement): decode(encode(p)) == p, size() == bytes written, exact consumption for all packet values.")
ASSUMPTIONS = ["rustc MIR construction and constant evaluation are correct", "rules/mqtt5_properties.json transcribes table 2-4 of the OASIS MQTT 5.0 specification"]
TECHNIQUE = "static analysis: handler-table extraction from MIR switch arms, constant provenance, writer/reader wire-type sequences, sibling signature comparison"
LEVEL_TEXT = ("Decides agreement of the writer's and reader's tables (packet types, property ids and wire types, reason codes) within and across the four codec copies and with the specification table. "
              "Round-trip equality for all packet values is a value-level statement and is not claimed.")
LEVEL_NOTE = "Trusted: rustc MIR; rules/mqtt5_properties.json; rules/c04_sibling_groups.json (groups identical on the pinned tree)."

RULES_DIR = os.path.join(os.path.dirname(os.path.dirname(os.path.dirname(os.path.abspath(__file__)))), "rules")
COPIES = {
    "rumqttd-v4": ("rumqttd", "protocol::v4::", r"^<protocol::v4::V4 as protocol::Protocol>::read_mut$", "protocol::v4::PacketType"),
    "rumqttd-v5": ("rumqttd", "protocol::v5::", r"^<protocol::v5::V5 as protocol::Protocol>::read_mut$", "protocol::v5::PacketType"),
    "rumqttc-v4": ("rumqttc", "mqttbytes::", r"^mqttbytes::v4::Packet::read$", "mqttbytes::PacketType"),
    "rumqttc-v5": ("rumqttc", "v5::mqttbytes::v5::", r"^v5::mqttbytes::v5::Packet::read$", "v5::mqttbytes::v5::PacketType"),
}
WRITE_KIND = [(r"(BufMut::|<.* as bytes::BufMut>::)put_u8$", "u8"), (r"put_u16$", "u16"), (r"put_u32$", "u32"), (r"write_mqtt_string$", "str"),
              (r"write_mqtt_bytes$", "bytes"), (r"write_remaining_length$", "varint")]
READ_KIND = [(r"::read_u8$", "u8"), (r"::read_u16$", "u16"), (r"::read_u32$", "u32"), (r"read_mqtt_string$", "str"), (r"read_mqtt_bytes$", "bytes"),
             (r"::length(_in_frame)?$", "varint")]
SPEC_KIND = {"byte": ["u8"], "u16": ["u16"], "u32": ["u32"], "string": ["str"], "bytes": ["bytes"], "varint": ["varint"], "pair": ["str", "str"]}


def kind_of(path, table):
    for r, k in table:
        if re.search(r, path):
            return k
    return None


def arm_aggregate(body, tgt, pred):
    """first aggregate statement satisfying pred on the straight-line chain starting at tgt
    (match arms start with falseEdge/goto forwarding blocks)"""
    cur = tgt
    seen = set()
    while cur is not None and cur not in seen:
        seen.add(cur)
        for st in body.blocks[cur]["s"]:
            if "lhs" in st and st["rv"]["k"] == "agg" and pred(st["rv"]):
                return st["rv"]
        t = body.blocks[cur]["t"]
        if t["k"] in ("goto", "falseedge", "falseunwind"):
            cur = t["t"]
        else:
            return None
    return None


def arm_const_return(body, tgt):
    cur = tgt
    seen = set()
    while cur is not None and cur not in seen:
        seen.add(cur)
        for st in body.blocks[cur]["s"]:
            if "lhs" in st and st["lhs"]["l"] == 0 and st["rv"]["k"] == "use":
                k = op_const(st["rv"]["a"])
                if k is not None and k.get("v") is not None:
                    return k["v"]
        t = body.blocks[cur]["t"]
        if t["k"] in ("goto", "falseedge", "falseunwind"):
            cur = t["t"]
        else:
            return None
    return None


def first_byte_consts(prog, wb):
    """constants that make up the first byte a writer emits (put_u8(expr) or put_slice(&[b0, ..]))"""
    for b in _rpo_blocks(wb):
        t = wb.blocks[b]["t"]
        if t["k"] != "call" or wb.is_cleanup(b):
            continue
        cp = callee_path(t)
        if kind_of(cp, WRITE_KIND) == "u8":
            return [c for c in const_leaves(wb, t["args"][1])], t
        if re.search(r"put_slice$", cp):
            for s in flatten_src(provenance(wb, t["args"][1])):
                if s.kind == "const" and s.promoted is not None:
                    pb = prog.promoted.get((wb.id, s.promoted))
                    if pb:
                        for blk in pb.blocks:
                            for st in blk["s"]:
                                if "lhs" in st and st["rv"]["k"] == "agg" and st["rv"].get("ak") == "array" and st["rv"]["ops"]:
                                    k = op_const(st["rv"]["ops"][0])
                                    if k is not None and k.get("v") is not None:
                                        return [k["v"]], t
            return None, t
        if kind_of(cp, WRITE_KIND) or re.search(r"BufMut", cp):
            return None, t
    return None, None


def const_leaves(body, op):
    return [s.v for s in flatten_src(provenance(body, op)) if s.kind == "const" and s.v is not None]


def run(ctx):
    spec = json.load(open(os.path.join(RULES_DIR, "mqtt5_properties.json")))
    ctx.floor("R-C04-prop-table", "rows of the MQTT 5 property table (rules)", len(spec), 27)
    spec_by_id = {r["id"]: r for r in spec}
    for name, (crate, pre, entry, ptype) in COPIES.items():
        prog = ctx.progs[crate]
        ctx.guarded("R-C04-type-nibble", type_nibble, ctx, prog, name, pre, entry, ptype)
        ctx.guarded("R-C04-reason-tables", reason_tables, ctx, prog, name, pre)
        ctx.guarded("R-C04-kinds", kinds_agree, ctx, prog, name, entry)
    tables = {}
    for name in ("rumqttd-v5", "rumqttc-v5"):
        crate, pre, entry, ptype = COPIES[name]
        tables[name] = ctx.guarded("R-C04-prop-table", prop_tables, ctx, ctx.progs[crate], name, pre, spec_by_id) or {}
    ctx.guarded("R-C04-prop-table", cross_crate, ctx, tables)
    ctx.guarded("R-C04-varint-siblings", varint_siblings, ctx)
    for crate in ("rumqttc", "rumqttd"):
        ctx.guarded("R-C04-len-strings", publish_len_pkid, ctx, "R-C04-len-strings", ctx.progs[crate])
    ctx.guarded("R-C04-flag-bits", flag_bits, ctx)
    for name, (crate, pre) in FLAG_COPY_PREFIX.items():
        ctx.guarded("R-C04-len-strings", len_strings, ctx, ctx.progs[crate], name, pre)
    nz = 0
    for name, (crate, pre) in FLAG_COPY_PREFIX.items():
        nz += ctx.guarded("R-C04-zero-length", zero_length_dispatch, ctx, ctx.progs[crate], name, pre, COPIES[name][2]) or 0
    ctx.floor("R-C04-zero-length", "packet readers with a remaining_len == 0 branch (all codecs)", nz, 1)
    for name in ("rumqttd-v5", "rumqttc-v5"):
        crate, pre, entry, ptype = COPIES[name]
        ctx.guarded("R-C04-prop-accounting", prop_accounting, ctx, ctx.progs[crate], name, pre)
        ctx.guarded("R-C04-prop-accounting", prop_len_accounting, ctx, ctx.progs[crate], name, pre)
        ctx.guarded("R-C04-props-none", props_none_byte, ctx, ctx.progs[crate], name, pre)


# ------------------------------------------------------------------------------------------

def type_nibble(ctx, prog, name, pre, entry, ptype):
    rule = "R-C04-type-nibble"
    body = prog.one(entry)
    adt = prog.adts.get(ptype)
    if not adt:
        raise AnchorMissing("%s: enum %s not found" % (name, ptype))
    discr = {v["n"]: v["discr"] for v in adt["variants"]}
    sws = [s for s in discr_switches(body, re.escape(ptype) + "$")]
    if not sws:
        raise AnchorMissing("%s: no match on PacketType in %s" % (name, body.id))
    sw = max(sws, key=lambda s: len(s[2]))
    dom = dominators(body)
    rows = 0
    for variant, tgt in sorted(sw[2].items()):
        region = {b for b in reachable(body, (tgt,)) if tgt in dom.get(b, ())}
        readers = sorted({callee_path(body.blocks[b]["t"]) for b in region if body.blocks[b]["t"]["k"] == "call" and body.blocks[b]["t"]["fn"].get("ws")
                          and re.search(r"::read$", callee_path(body.blocks[b]["t"]))})
        if len(readers) != 1:
            continue
        rd = readers[0]
        wr = rd[:-4] + "write"
        wb = prog.A.get(wr)
        if wb is None:
            ctx.violation(rule, rd, "no writer", "%s: reader %s has no sibling writer %s" % (name, rd, wr))
            continue
        fb, first = first_byte_consts(prog, wb)
        if fb is None or first is None:
            ctx.violation(rule, wr, "no first byte", "%s: the constant first byte of the writer could not be determined" % name, site=wb.fn_loc())
            continue
        consts = [c for c in fb if c >= 16]
        nib = (max(consts) >> 4) if consts else None
        rows += 1
        if nib == discr.get(variant):
            ctx.ok(rule, wr, "%s: first byte 0x%X0 ↔ PacketType::%s = %d ↔ reader %s" % (name, nib, variant, discr[variant], rd.rsplit("::", 2)[-2]), site=wb.loc(first.get("sp")))
        else:
            ctx.violation(rule, wr, "type nibble",
                          "%s: the writer's first byte has type nibble %s but the decoder dispatches PacketType::%s (= %s) to its reader: the packet would be decoded as another kind" % (name, nib, variant, discr.get(variant)),
                          site=wb.loc(first.get("sp")))
    ctx.floor(rule, "packet kinds with reader/writer in %s" % name, rows, 11)
    # packet_type(): n → variant with discriminant n
    pt = prog.find("^" + re.escape(pre.replace("mqttbytes::v5::", "mqttbytes::v5::")) + r"FixedHeader::packet_type$")
    if not pt and name == "rumqttc-v4":
        pt = prog.find(r"^mqttbytes::FixedHeader::packet_type$")
    if len(pt) != 1:
        raise AnchorMissing("%s: FixedHeader::packet_type not found" % name)
    pt = pt[0]
    n = 0
    for bi, b in enumerate(pt.blocks):
        t = b["t"]
        if t["k"] == "switch" and not b.get("cleanup") and len(t["targets"]) >= 10:
            for val, tgt in t["targets"]:
                rv = arm_aggregate(pt, tgt, lambda r: r.get("adt") == ptype)
                var = rv["var"] if rv else None
                n += 1
                if var is not None and discr.get(var) == val:
                    ctx.ok(rule, pt.id, "%s: %d → PacketType::%s" % (name, val, var), trivial=True)
                else:
                    ctx.violation(rule, pt.id, "packet_type(%d)" % val, "%s: type number %d maps to PacketType::%s whose discriminant is %s" % (name, val, var, discr.get(var)), site=pt.fn_loc())
    ctx.floor(rule, "rows of packet_type() in %s" % name, n, 14)
    ctx.ok(rule, pt.id, "%s: packet_type maps %d numbers to the variants with those discriminants" % (name, n))


def _rpo_blocks(body):
    from ..core import _rpo
    return _rpo(body)


# ------------------------------------------------------------------------------------------

def write_table(prog, wb, ptype_consts):
    """{id: [wire kinds]} from a properties writer: each put_u8(<property id const>) followed by value writes"""
    out = {}
    for b in range(len(wb.blocks)):
        t = wb.blocks[b]["t"]
        if t["k"] != "call" or wb.is_cleanup(b) or kind_of(callee_path(t), WRITE_KIND) != "u8":
            continue
        consts = const_leaves(wb, t["args"][1])
        src = flatten_src(provenance(wb, t["args"][1]))
        # a property id is written as `PropertyType::X as u8`: AddWithOverflow(const id, const 0)
        is_id = any(s.kind == "const" for s in src) and all(s.kind == "const" for s in src) and len(consts) == 2 and 0 in consts and max(consts) in ptype_consts
        if not is_id:
            continue
        pid = max(consts)
        kinds = []
        cur = t.get("t")
        seen = set()
        while cur is not None and cur not in seen:
            seen.add(cur)
            if len([p for p in wb.preds()[cur] if not wb.is_cleanup(p)]) > 1:
                break
            tt = wb.blocks[cur]["t"]
            if tt["k"] == "call":
                k = kind_of(callee_path(tt), WRITE_KIND)
                if k == "u8":
                    c2 = const_leaves(wb, tt["args"][1])
                    s2 = flatten_src(provenance(wb, tt["args"][1]))
                    if s2 and all(s.kind == "const" for s in s2) and len(c2) == 2 and 0 in c2 and max(c2) in ptype_consts:
                        break      # next property id
                if k:
                    kinds.append(k)
                cur = tt.get("t")
            elif tt["k"] in ("goto", "falseedge", "falseunwind", "drop"):
                cur = tt["t"]
            elif tt["k"] == "assert":
                cur = tt["t"]
            elif tt["k"] == "switch":
                # `?` after write_remaining_length: follow Continue
                nxt = None
                for s in discr_switches(wb):
                    if s[0] == cur and "ControlFlow" in s[1]:
                        nxt = s[2].get("Continue")
                if nxt is None:
                    break
                cur = nxt
            else:
                break
        out.setdefault(pid, []).append(kinds)
    return out


def read_table(prog, rb, ptype):
    """{variant: [wire kinds]} from a properties reader: arms of the match on PropertyType"""
    sws = [s for s in discr_switches(rb, re.escape(ptype) + "$")]
    if not sws:
        return None
    sw = max(sws, key=lambda s: len(s[2]))
    dom = dominators(rb)
    out = {}
    for variant, tgt in sw[2].items():
        kinds = []
        cur = tgt
        seen = set()
        while cur is not None and cur not in seen:
            seen.add(cur)
            tt = rb.blocks[cur]["t"]
            if tt["k"] == "call":
                k = kind_of(callee_path(tt), READ_KIND)
                if k and tt["fn"].get("ws"):
                    kinds.append(k)
                cur = tt.get("t")
            elif tt["k"] in ("goto", "falseedge", "falseunwind", "drop", "assert"):
                cur = tt["t"]
            elif tt["k"] == "switch":
                nxt = None
                for s in discr_switches(rb):
                    if s[0] == cur and "ControlFlow" in s[1]:
                        nxt = s[2].get("Continue")
                if nxt is None:
                    break
                cur = nxt
            else:
                break
            if cur is not None and cur in dom.get(sw[0], ()):
                break     # back at the loop head
        out[variant] = kinds
    return out


def prop_tables(ctx, prog, name, pre, spec_by_id):
    rule = "R-C04-prop-table"
    ptype = pre + "PropertyType"
    adt = prog.adts.get(ptype)
    if not adt:
        raise AnchorMissing("%s: enum %s not found" % (name, ptype))
    discr = {v["n"]: v["discr"] for v in adt["variants"]}
    by_id = {v: k for k, v in discr.items()}
    for vn, did in sorted(discr.items()):
        if did in spec_by_id:
            ctx.ok(rule, ptype, "%s: PropertyType::%s = %d (%s)" % (name, vn, did, spec_by_id[did]["name"]), trivial=True)
        else:
            ctx.violation(rule, ptype, "PropertyType::%s = %s" % (vn, did), "%s: identifier %s is not an MQTT 5 property id" % (name, did))
    ctx.floor(rule, "PropertyType variants in %s" % name, len(discr), 27)
    # property(n)
    pf = prog.one("^" + re.escape(pre) + "property$")
    rows = 0
    for bi, b in enumerate(pf.blocks):
        t = b["t"]
        if t["k"] == "switch" and len(t["targets"]) >= 20:
            for val, tgt in t["targets"]:
                rv = arm_aggregate(pf, tgt, lambda r: r.get("adt") == ptype)
                var = rv["var"] if rv else None
                rows += 1
                if var is None or discr.get(var) != val:
                    ctx.violation(rule, pf.id, "property(%d)" % val, "%s: property(%d) yields PropertyType::%s (= %s)" % (name, val, var, discr.get(var)), site=pf.fn_loc())
    ctx.floor(rule, "rows of property() in %s" % name, rows, 27)
    ctx.ok(rule, pf.id, "%s: property(n) maps %d ids to the variants with those discriminants" % (name, rows))
    # reader/writer pairs
    tables = {}
    ids = set(discr.values())
    pairs = 0
    for rb in prog.A.values():
        if not rb.id.startswith(pre) or not rb.id.endswith("::read") or rb.kind not in ("Fn", "AssocFn"):
            continue
        rt = read_table(prog, rb, ptype)
        if rt is None:
            continue
        wb = prog.A.get(rb.id[:-4] + "write")
        if wb is None:
            ctx.violation(rule, rb.id, "no writer", "%s: properties reader without sibling writer" % name)
            continue
        wt = write_table(prog, wb, ids)
        pairs += 1
        label = rb.id[len(pre):-6]
        tables[label] = {}
        r_ids = {discr[v] for v in rt}
        w_ids = set(wt)
        if r_ids != w_ids:
            ctx.violation(rule, rb.id, "id sets differ",
                          "%s %s: property ids written %s but ids read %s (only-written: %s, only-read: %s)" % (name, label, sorted(w_ids), sorted(r_ids), sorted(w_ids - r_ids), sorted(r_ids - w_ids)),
                          site=rb.fn_loc())
        for v, rk in sorted(rt.items()):
            pid = discr[v]
            specrow = spec_by_id.get(pid)
            want = SPEC_KIND[specrow["type"]] if specrow else None
            wks = wt.get(pid, [])
            tables[label][pid] = rk
            okw = all(k == rk for k in wks) and wks
            if want is not None and rk == want and okw:
                ctx.ok(rule, rb.id, "%s %s: id %d %s: written %s = read %s = spec" % (name, label, pid, v, wks[0], rk))
            elif pid in w_ids or want is not None:
                ctx.violation(rule, rb.id, "wire type of id %d (%s)" % (pid, v),
                              "%s %s: property %d (%s) is written as %s, read as %s, MQTT 5 specifies %s" % (name, label, pid, v, wks, rk, want), site=rb.fn_loc())
    ctx.floor(rule, "properties reader/writer pairs in %s" % name, pairs, 13)
    return tables


def cross_crate(ctx, tables):
    rule = "R-C04-prop-table"
    a, b = tables.get("rumqttd-v5") or {}, tables.get("rumqttc-v5") or {}

    def norm(label):
        # rumqttd: "puback::properties" / "connect::willproperties"; rumqttc: "puback::PubAckProperties" / "connect::LastWillProperties"
        mod = label.split("::")[0]
        will = "will" in label.lower()
        return mod + ("::will" if will else "")
    na = {norm(k): v for k, v in a.items()}
    nb = {norm(k): v for k, v in b.items()}
    common = sorted(set(na) & set(nb))
    ctx.floor(rule, "packets with property tables in both crates", len(common), 12)
    for k in common:
        if na[k] == nb[k]:
            ctx.ok(rule, "rumqttd::%s ~ rumqttc::%s" % (k, k), "client and broker property tables agree (%d ids)" % len(na[k]))
        else:
            diff = {i: (na[k].get(i), nb[k].get(i)) for i in set(na[k]) | set(nb[k]) if na[k].get(i) != nb[k].get(i)}
            ctx.violation(rule, "rumqttd::%s ~ rumqttc::%s" % (k, k), "tables differ", "client and broker disagree on the property table of %s: %s" % (k, diff))


# ------------------------------------------------------------------------------------------

def reason_tables(ctx, prog, name, pre):
    rule = "R-C04-reason-tables"
    decs = {}
    encs = {}
    for b in prog.A.values():
        if not b.id.startswith(pre) or b.kind not in ("Fn", "AssocFn") or b.argc != 1:
            continue
        pty = b.local_ty(1)
        rty = b.local_ty(0)
        if pty == "u8" and "Result<" in rty:
            # decode: switch on the u8 → enum variant
            for bi, blk in enumerate(b.blocks):
                t = blk["t"]
                if t["k"] == "switch" and op_local(t["on"]) is not None and len(t["targets"]) >= 2:
                    m = {}
                    adt = None
                    for val, tgt in t["targets"]:
                        rv = arm_aggregate(b, tgt, lambda r: r.get("ak") == "adt" and r["adt"] in prog.adts and not r["adt"].endswith("Error"))
                        if rv:
                            m[val] = rv["var"]; adt = rv["adt"]
                    if adt and len(m) >= 2:
                        decs[adt] = (b, m)
        elif rty == "u8" and pty in prog.adts:
            for s in discr_switches(b, re.escape(pty) + "$"):
                if s[4]["l"] == 1:
                    m = {}
                    for var, tgt in s[2].items():
                        v_ = arm_const_return(b, tgt)
                        if v_ is not None:
                            m[var] = v_
                    if len(m) >= 2:
                        encs[pty] = (b, m)
    n = 0
    for adt in sorted(set(decs) & set(encs)):
        db, dm = decs[adt]
        eb, em = encs[adt]
        n += 1
        # Every byte the decoder accepts must re-encode to the same byte (and hence every variant the
        # decoder can produce round-trips). Variants the decoder never produces (the other protocol
        # version's variants of a shared enum, e.g. SubscribeReasonCode::Failure in v5) and arms whose
        # encoding is not a constant (`Success(qos) => qos as u8`) are not rows of this table.
        bad = []
        rows = 0
        for val, var in dm.items():
            if var in em:
                rows += 1
                if em[var] != val:
                    bad.append("decode %d → %s but encode %s → %s" % (val, var, var, em[var]))
        if bad:
            ctx.violation(rule, eb.id, "not inverse of " + db.id.rsplit("::", 1)[-1], "%s %s: %s" % (name, adt.rsplit("::", 1)[-1], "; ".join(bad[:4])), site=eb.fn_loc())
        else:
            ctx.ok(rule, eb.id, "%s: %s(%s(n)) == n for the %d constant rows of %s" % (name, eb.id.rsplit("::", 1)[-1], db.id.rsplit("::", 1)[-1], rows, adt.rsplit("::", 1)[-1]))
    # decoders whose encoder is the enum cast (`code as u8`): n must map to the variant with discriminant n
    for adt in sorted(set(decs) - set(encs)):
        db, dm = decs[adt]
        discr = {v["n"]: v["discr"] for v in prog.adts[adt]["variants"]}
        if any(d is None for d in discr.values()):
            continue
        n += 1
        bad = ["%d → %s (= %s)" % (val, var, discr.get(var)) for val, var in dm.items() if discr.get(var) != val]
        if bad:
            ctx.violation(rule, db.id, "decode table vs discriminants", "%s %s: %s" % (name, adt.rsplit("::", 1)[-1], "; ".join(bad[:4])), site=db.fn_loc())
        else:
            ctx.ok(rule, db.id, "%s: %s maps each of %d codes to the variant with that discriminant (encoder is the enum cast)" % (name, db.id.rsplit("::", 1)[-1], len(dm)))
    ctx.floor(rule, "reason/code tables in %s" % name, n, 1 if name.endswith("v4") else 6)


def varint_siblings(ctx):
    rule = "R-C04-varint-siblings"
    groups = json.load(open(os.path.join(RULES_DIR, "c04_sibling_groups.json")))
    n = 0
    for fn, gs in sorted(groups.items()):
        for g in gs:
            if len(g) < 2:
                continue
            bodies = []
            for c in g:
                crate, pre, _, _ = COPIES[c]
                b = ctx.progs[crate].A.get(pre + fn)
                if b is None:
                    ctx.anchor_missing(rule, "%s%s not found" % (pre, fn))
                else:
                    bodies.append((c, b))
            if len(bodies) < 2:
                continue
            ref_c, ref = bodies[0]
            rs = signature(ref)
            rc = canonical(ref)
            for c, b in bodies[1:]:
                n += 1
                s = signature(b)
                if s == rs:
                    ctx.ok(rule, "%s::%s" % (c, fn), "vs %s: signature-equal%s" % (ref_c, " and identical MIR" if canonical(b) == rc else ""), site=b.fn_loc())
                else:
                    diff = ["%s: %d vs %d" % (k, s.get(k, 0), rs.get(k, 0)) for k in set(s) | set(rs) if s.get(k, 0) != rs.get(k, 0)]
                    ctx.violation(rule, "%s::%s" % (c, fn), "vs " + ref_c, "copies of %s disagree: %s" % (fn, "; ".join(sorted(diff)[:6])), site=b.fn_loc())
    ctx.floor(rule, "sibling comparisons", n, 25)


# ------------------------------------------------------------------------------------------
# R-C04-flag-bits: flag bytes (CONNECT flags, PUBLISH header flags, SUBSCRIBE options, CONNACK flags)

FLAG_MODULES = {"connect": ("v4", "v5"), "publish": ("v4", "v5"), "subscribe": ("v4", "v5"), "connack": ("v4", "v5")}
FLAG_COPY_PREFIX = {"rumqttd-v4": ("rumqttd", "protocol::v4::"), "rumqttd-v5": ("rumqttd", "protocol::v5::"),
                    "rumqttc-v4": ("rumqttc", "mqttbytes::v4::"), "rumqttc-v5": ("rumqttc", "v5::mqttbytes::v5::")}


def flag_ops(body):
    """normalised bit operations with a constant operand in one function:
    reads  = effective masks on the original byte: `x & c` -> c, `(x >> k) & c` -> c << k
    writes = constants OR-ed in, and left-shift amounts"""
    masks, consts, shl = set(), set(), set()
    for bi in reachable(body, (0,)):
        b = body.blocks[bi]
        if b.get("cleanup"):
            continue
        for st in b["s"]:
            if "lhs" not in st or st["rv"]["k"] != "bin":
                continue
            op = st["rv"]["op"]
            ka, kb = op_const(st["rv"]["a"]), op_const(st["rv"]["b"])
            k, other = (kb, st["rv"]["a"]) if kb is not None and "v" in kb else ((ka, st["rv"]["b"]) if ka is not None and "v" in ka else (None, None))
            if k is None:
                continue
            c = k["v"]
            if op == "BitAnd":
                pre = 0
                l = op_local(other)
                d = single_def(body, l) if l is not None else None
                if d and d[2] == "assign" and d[3]["rv"]["k"] == "bin" and d[3]["rv"]["op"] in ("Shr", "ShrUnchecked"):
                    ks = op_const(d[3]["rv"]["b"])
                    if ks is not None and "v" in ks:
                        pre = ks["v"]
                masks.add((c << pre) & 0xFF if c < 256 else c)
            elif op == "BitOr":
                consts.add(c)
            elif op in ("Shl", "ShlUnchecked") and kb is not None:
                shl.add(c)
    return masks, consts, shl


def flag_bits(ctx):
    """(A) the four hand-copied codecs extract and set the same bits in the same flag bytes;
    (B) in the CONNECT family every bit/field the reader extracts is one the writer sets, and vice versa
    (mask == OR-ed constant, or lowest bit of the mask == shift amount of the written field)."""
    rule = "R-C04-flag-bits"
    table = {}
    for name, (crate, pre) in FLAG_COPY_PREFIX.items():
        prog = ctx.progs[crate]
        ver = name[-2:]
        for mod in FLAG_MODULES:
            r = (set(), set(), set())
            w = (set(), set(), set())
            nfn = 0
            for b in prog.A.values():
                if not b.id.startswith(pre + mod + "::") or b.kind not in ("Fn", "AssocFn"):
                    continue
                fn = b.name or ""
                tgt = r if fn.startswith("read") else (w if fn.startswith("write") else None)
                if tgt is None:
                    continue
                nfn += 1
                m, c, s = flag_ops(b)
                tgt[0].update(m); tgt[1].update(c); tgt[2].update(s)
            table[(mod, ver, name)] = (frozenset(r[0]), frozenset(w[1]), frozenset(w[2]), nfn)
    # (A) cross-copy
    groups = 0
    for mod in FLAG_MODULES:
        for ver in ("v4", "v5"):
            rows = [(name, v) for (m, vv, name), v in table.items() if m == mod and vv == ver]
            if mod in ("connect", "publish", "connack"):
                rows = [(name, v) for (m, vv, name), v in table.items() if m == mod]   # identical in both versions
                if ver == "v5":
                    continue
            ctx.floor(rule, "codec copies of %s (%s)" % (mod, ver), len(rows), 2)
            ref_name, ref = rows[0]
            groups += 1
            for name, v in rows[1:]:
                if v[:3] == ref[:3]:
                    ctx.ok(rule, "%s::%s" % (name, mod), "flag bits agree with %s (read masks %s, written constants %s, shifts %s)" % (ref_name, sorted(v[0]), sorted(v[1]), sorted(v[2])))
                else:
                    ctx.violation(rule, "%s::%s" % (name, mod), "flag bits differ from " + ref_name,
                                  "%s: read masks %s / OR-ed constants %s / shifts %s, but %s has %s / %s / %s: the copies no longer agree on the wire layout of the flag byte"
                                  % (name, sorted(v[0]), sorted(v[1]), sorted(v[2]), ref_name, sorted(ref[0]), sorted(ref[1]), sorted(ref[2])))
    ctx.floor(rule, "flag-byte groups compared", groups, 5)
    # (B) CONNECT family: reader and writer of one copy agree
    for (mod, ver, name), (masks, consts, shl, nfn) in sorted(table.items()):
        if mod != "connect":
            continue
        ctx.floor(rule, "read/write functions in %s::connect" % name, nfn, 6)
        unions = {m for m in masks if any(m == (a | b_) and a != m and b_ != m for a in masks for b_ in masks)}
        fields = masks - unions
        unmatched_r = sorted(m for m in fields if m not in consts and ((m & -m).bit_length() - 1) not in shl)
        unmatched_w = sorted(c for c in consts if c not in fields) + sorted("<<%d" % s for s in shl if not any(((m & -m).bit_length() - 1) == s for m in fields))
        if unmatched_r or unmatched_w:
            ctx.violation(rule, "%s::connect" % name, "reader and writer disagree on CONNECT flag bits",
                          "%s: bits extracted by the readers but never set by the writers: %s; set by the writers but never extracted: %s" % (name, unmatched_r, unmatched_w))
        else:
            ctx.ok(rule, "%s::connect" % name, "every CONNECT flag field read (%s) is written (constants %s, shifts %s) and vice versa" % (sorted(fields), sorted(consts), sorted(shl)))


# ------------------------------------------------------------------------------------------
# R-C04-prop-accounting: bytes consumed by a properties reader are counted once each

def prop_accounting(ctx, prog, name, pre):
    """MQTT 5 property readers track how many of the announced property bytes they consumed in a local counter.
    Every variable-length value read in an arm (read_mqtt_string / read_mqtt_bytes) must contribute its own len()
    to the counter exactly once, with a 2-byte length prefix each; otherwise the reader stops early or runs into
    the payload whenever two values of one property differ in length."""
    rule = "R-C04-prop-accounting"
    nfn = 0
    for rb in sorted(prog.A.values(), key=lambda b: b.id):
        if not rb.id.startswith(pre) or not rb.id.endswith("::read") or rb.kind not in ("Fn", "AssocFn"):
            continue
        reads = {}
        for bb, t in rb.calls():
            if not rb.is_cleanup(bb) and re.search(r"read_mqtt_(string|bytes)$", callee_path(t)):
                reads[id(t)] = (bb, t)
        if not reads:
            continue
        # the counter: a local that is repeatedly incremented by len()-bearing sums
        accounted = {}
        incs = 0
        problems = []
        for bi, blk in enumerate(rb.blocks):
            if blk.get("cleanup"):
                continue
            for st in blk["s"]:
                if "lhs" not in st or st["rv"]["k"] != "bin" or st["rv"]["op"] not in ("Add", "AddWithOverflow"):
                    continue
                la = op_local(st["rv"]["a"])
                if la is None or (op_place(st["rv"]["a"]) or {}).get("p") or not rb.locals[la].get("n"):
                    continue      # only `counter += <sum>` on a named local, not the partial sums
                leaves = flatten_src(provenance(rb, st["rv"]["b"]))
                lens = [x for x in leaves if x.kind == "call" and re.search(r"(String|Bytes)::len$", x.path)]
                varints = [x for x in leaves if x.kind == "call" and x.path.endswith("ops::Try>::branch") and
                           any(y.kind == "call" and re.search(r"::length(_in_frame)?$", y.path) for y in flatten_src(provenance(rb, x.term["args"][0])))]
                if varints and not lens:
                    # a variable-byte-integer value (subscription identifier): its own width, nothing else — the
                    # identifier byte was counted when it was read
                    incs += 1
                    extra = [x for x in leaves if x not in varints]
                    if extra:
                        problems.append((st, "a variable-byte-integer property adds %s besides the width of the integer (the property identifier byte is already counted): the reader stops before the end of the property section" % [getattr(x, "v", x.kind) for x in extra]))
                    continue
                if not lens:
                    continue
                twos = [x for x in leaves if x.kind == "const" and x.v == 2]
                others = [x for x in leaves if x not in lens and x not in twos]
                incs += 1
                srcs = []
                for x in lens:
                    rs = [y for y in flatten_src(provenance(rb, x.term["args"][0], through_calls=[r"ops::Try>::branch$"])) if y.kind == "call" and id(y.term) in reads]
                    srcs.append(id(rs[0].term) if len(rs) == 1 else None)
                if None in srcs:
                    problems.append((st, "a len() in the byte count does not belong to a value read in this function"))
                elif len(set(srcs)) != len(srcs):
                    problems.append((st, "the same value's len() is counted twice while another value read in the arm is not counted"))
                elif len(twos) != len(lens) or others:
                    problems.append((st, "the byte count does not add exactly one 2-byte length prefix per variable-length value"))
                for s_ in srcs:
                    if s_ is not None:
                        accounted[s_] = accounted.get(s_, 0) + 1
        if incs == 0:
            continue          # reader without a consumed-bytes counter (fixed layout)
        nfn += 1
        for k, (bb, t) in reads.items():
            if accounted.get(k, 0) != 1:
                problems.append((None, "the value read at %s is counted %d times in the consumed-bytes counter" % (rb.loc(t.get("sp")), accounted.get(k, 0))))
        label = "%s %s" % (name, rb.id[len(pre):])
        if problems:
            for st, msg in problems[:3]:
                ctx.violation(rule, rb.id, "property byte accounting", "%s: %s" % (label, msg), site=rb.loc(st.get("sp")) if st else rb.fn_loc())
        else:
            ctx.ok(rule, rb.id, "%s: %d variable-length reads, each counted once with its length prefix" % (label, len(reads)), site=rb.fn_loc())
    ctx.floor(rule, "property readers with a consumed-bytes counter in %s" % name, nfn, 8)


def prop_len_accounting(ctx, prog, name, pre):
    """writer side of the same accounting: a properties `len()` adds, per property, 1 (identifier) + 2 per string /
    binary value + the value's len(); that is what `write()` emits (put_u8 + write_mqtt_string / write_mqtt_bytes)"""
    rule = "R-C04-prop-accounting"
    nfn = 0
    for lb in sorted(prog.A.values(), key=lambda b: b.id):
        if not lb.id.startswith(pre) or not lb.id.endswith("::len") or lb.kind not in ("Fn", "AssocFn"):
            continue
        wb = prog.A.get(lb.id[:-3] + "write")
        rb = prog.A.get(lb.id[:-3] + "read")
        if wb is None or rb is None or not any(re.search(r"::property$", callee_path(t)) for _, t in rb.calls()):
            continue      # only properties blocks (their reader dispatches on property(id))
        problems = []
        incs = 0
        for bi, blk in enumerate(lb.blocks):
            if blk.get("cleanup"):
                continue
            for st in blk["s"]:
                if "lhs" not in st or st["rv"]["k"] != "bin" or st["rv"]["op"] not in ("Add", "AddWithOverflow"):
                    continue
                la = op_local(st["rv"]["a"])
                if la is None or (op_place(st["rv"]["a"]) or {}).get("p") or not lb.locals[la].get("n"):
                    continue
                leaves = flatten_src(provenance(lb, st["rv"]["b"]))
                lens = [x for x in leaves if x.kind == "call" and re.search(r"(String|Bytes|str|Vec::<T, A>)::len$|str>::len$", x.path)]
                if not lens:
                    continue
                incs += 1
                twos = [x for x in leaves if x.kind == "const" and x.v == 2]
                ones = [x for x in leaves if x.kind == "const" and x.v == 1]
                others = [x for x in leaves if x not in lens and x not in twos and x not in ones]
                if len(twos) != len(lens) or len(ones) != 1 or others:
                    problems.append(st)
        if incs == 0:
            continue
        nfn += 1
        label = "%s %s" % (name, lb.id[len(pre):])
        if problems:
            for st in problems[:4]:
                ctx.violation(rule, lb.id, "property length accounting",
                              "%s: a property's contribution is not 1 (id) + 2 per string/binary value + len(): len()/size() disagree with the bytes write() emits" % label, site=lb.loc(st.get("sp")))
        else:
            ctx.ok(rule, lb.id, "%s: every string/binary property contributes 1 + 2 + len()" % label, site=lb.fn_loc())
    ctx.floor(rule, "properties len() functions with variable-length values in %s" % name, nfn, 8)
    # packet-level len(): the properties block is preceded by its own varint length
    plen = set()
    for lb in prog.A.values():
        if lb.id.startswith(pre) and lb.id.endswith("::len"):
            rb = prog.A.get(lb.id[:-3] + "read")
            if rb is not None and any(re.search(r"::property$", callee_path(t)) for _, t in rb.calls()):
                plen.add(lb.id)
    users = 0
    for body in sorted(prog.A.values(), key=lambda b: b.id):
        if not body.id.startswith(pre) or body.name not in ("len",) or body.id in plen:
            continue
        calls = [(bb, t) for bb, t in body.calls() if callee_path(t) in plen and not body.is_cleanup(bb)]
        if not calls:
            continue
        users += 1
        lls = [t for bb, t in body.calls() if re.search(r"::len_len$", callee_path(t)) and not body.is_cleanup(bb)]
        bad = []
        for bb, t in calls:
            if not any(any(x.kind == "call" and x.term is t for x in flatten_src(provenance(body, l_["args"][0]))) for l_ in lls):
                bad.append(t)
        if bad:
            ctx.violation(rule, body.id, "properties length prefix", "%s %s: the packet's len() adds the properties' byte count without len_len(properties_len), the width of the varint that precedes them" % (name, body.id[len(pre):]), site=body.loc(bad[0].get("sp")))
        else:
            ctx.ok(rule, body.id, "%s %s: len() adds len_len(properties_len) + properties_len" % (name, body.id[len(pre):]), site=body.fn_loc())
    ctx.floor(rule, "packet len() functions that include a properties block in %s" % name, users, 8)


# ------------------------------------------------------------------------------------------
# R-C04-len-strings: every string counted by a len() has its 2-byte prefix counted with it

def additive_roots(body):
    """maximal additive expressions of a body: [(stmt, leaves)] for Add statements whose value is not itself an
    operand of another Add (leaves = flattened provenance of both operands)"""
    adds = []
    for bi, blk in enumerate(body.blocks):
        if blk.get("cleanup"):
            continue
        for st in blk["s"]:
            if "lhs" in st and st["rv"]["k"] == "bin" and st["rv"]["op"] in ("Add", "AddWithOverflow") and not st["lhs"].get("p"):
                adds.append((bi, st))
    res_locals = {st["lhs"]["l"]: st for _, st in adds}

    def feeds(l, seen=None):
        """the Add statement (if any) whose result flows, through plain copies / .0 projections, into local l"""
        seen = seen or set()
        if l in seen:
            return None
        seen.add(l)
        if l in res_locals:
            return res_locals[l]
        d = single_def(body, l)
        if d and d[2] == "assign" and d[3]["rv"]["k"] == "use":
            pl2 = op_place(d[3]["rv"]["a"])
            if pl2 is not None:
                return feeds(pl2["l"], seen)
        return None
    used = set()
    for _, st in adds:
        for side in ("a", "b"):
            pl_ = op_place(st["rv"][side])
            l = pl_["l"] if pl_ is not None else None      # `move (_t.0)` of a checked add counts as well
            if l is not None:
                src = feeds(l)
                if src is not None and src is not st:
                    used.add(id(src))
    out = []
    for bi, st in adds:
        if id(st) in used:
            continue
        leaves = flatten_src(provenance(body, st["rv"]["a"])) + flatten_src(provenance(body, st["rv"]["b"]))
        out.append((st, leaves))
    return out


def len_strings(ctx, prog, name, pre):
    rule = "R-C04-len-strings"
    nfn = 0
    for b in sorted(prog.A.values(), key=lambda x: x.id):
        if not b.id.startswith(pre) or not re.search(r"::len(::\{closure#\d+\})?$", b.id):
            continue
        roots = additive_roots(b)
        if b.kind == "Closure":
            # a per-item closure may return a bare `t.len()` (no addition at all): judge its return value too
            for blk in b.blocks:
                for st in blk["s"]:
                    if "lhs" in st and st["lhs"]["l"] == 0 and not st["lhs"].get("p") and st["rv"]["k"] == "use":
                        roots.append((st, flatten_src(provenance(b, st["rv"]["a"]))))
            for bb, t in b.calls():
                if not b.is_cleanup(bb) and t["dest"]["l"] == 0 and not t["dest"].get("p"):
                    roots.append(({"sp": t.get("sp")}, [Src("call", path=callee_path(t), term=t, bb=bb, fields=[])]))
        bad = []
        seen = False
        for st, leaves in roots:
            strs = [x for x in leaves if x.kind == "call" and re.search(r"(std::string::String|str)::len$|<impl str>::len$", x.path)]
            if not strs:
                continue
            seen = True
            twos = sum(1 for x in leaves if x.kind == "const" and x.v == 2) + 2 * sum(1 for x in leaves if x.kind == "const" and x.v == 4)
            if twos < len(strs):
                bad.append((st, len(strs), twos))
        if not seen:
            continue
        nfn += 1
        if bad:
            st, ns, n2 = bad[0]
            ctx.violation(rule, b.id, "string counted without its length prefix",
                          "%s %s: a sum adds the len() of %d string(s) but only %d two-byte prefix(es): the reported size is smaller than the bytes written as soon as that string (e.g. a second filter of a list) is present"
                          % (name, b.id[len(pre):], ns, n2), site=b.loc(st.get("sp")))
        else:
            ctx.ok(rule, b.id, "%s %s: every string len() is added together with a 2-byte prefix" % (name, b.id[len(pre):]), site=b.fn_loc())
    ctx.floor(rule, "len() bodies that count strings in %s" % name, nfn, 3)


# ------------------------------------------------------------------------------------------
# R-C04-props-none: the "no properties" byte

def props_none_byte(ctx, prog, name, pre):
    """An MQTT 5 packet without properties still carries a one-byte property length of 0 whenever its writer emits
    `write_remaining_length(buffer, 0)` on the None branch.  The packet's len() must then count, on its None branch,
    exactly one byte more than the fixed bytes its Some branch counts besides the properties themselves."""
    rule = "R-C04-props-none"
    n = 0
    for lb in sorted(prog.A.values(), key=lambda b: b.id):
        if not lb.id.startswith(pre) or lb.name != "len" or lb.kind not in ("Fn", "AssocFn"):
            continue
        wb = prog.A.get(lb.id[:-3] + "write")
        if wb is None:
            continue
        # the Option<..Properties> switch of len()
        sw = None
        for s_ in discr_switches(lb, r"option::Option$"):
            ty = lb.ty(s_[4].get("ty")) if s_[4] and s_[4].get("ty") is not None else ""
            src = flatten_src(place_provenance(lb, s_[4])) if s_[4] else []
            named = any("properties" in ".".join(str(y) for y in (getattr(x, "fields", None) or [])) for x in src) or any(x.kind == "param" and "Properties" in lb.local_ty(x.l) for x in src)
            if named and variant_target(s_, "Some") is not None and variant_target(s_, "None") is not None:
                sw = s_
        if sw is None:
            continue
        # does write() emit an explicit zero property length when there are none?
        zero_len = False
        for bb, t in wb.calls():
            if not wb.is_cleanup(bb) and callee_path(t).endswith("write_remaining_length") and (op_const(t["args"][1]) or {}).get("v") == 0:
                zero_len = True
        if not zero_len:
            continue
        dom = dominators(lb)

        def arm_consts(tgt, other):
            region = {b for b in reachable(lb, (tgt,)) if tgt in dom.get(b, ()) and b not in reachable(lb, (other,))}
            total = 0
            for b in region:
                for st in lb.blocks[b]["s"]:
                    if "lhs" in st and st["rv"]["k"] == "bin" and st["rv"]["op"] in ("Add", "AddWithOverflow"):
                        for side in ("a", "b"):
                            k = op_const(st["rv"][side])
                            if k is not None and "v" in k:
                                total += k["v"]
            return total
        s_t, n_t = variant_target(sw, "Some"), variant_target(sw, "None")
        cs, cn = arm_consts(s_t, n_t), arm_consts(n_t, s_t)
        n += 1
        label = "%s %s" % (name, lb.id[len(pre):])
        if cn == cs + 1:
            ctx.ok(rule, lb.id, "%s: the None branch counts the zero property-length byte write() emits (%d vs %d fixed bytes)" % (label, cn, cs), site=lb.fn_loc())
        else:
            ctx.violation(rule, lb.id, "zero property-length byte not counted",
                          "%s: write() emits a one-byte property length of 0 when there are no properties, but len() counts %d fixed byte(s) on the None branch and %d on the Some branch (expected one more on None): the announced remaining length is one short, the frame cannot be decoded and the stream is left out of step"
                          % (label, cn, cs), site=lb.fn_loc())
    ctx.floor(rule, "packet len() functions with a properties branch and an explicit zero-length write in %s" % name, n, 6)


# ------------------------------------------------------------------------------------------
# R-C04-zero-length: packets that are valid with remaining length 0

def zero_length_dispatch(ctx, prog, name, pre, entry):
    """A packet reader that accepts `remaining_len == 0` (MQTT 5 DISCONNECT: reason code and properties omitted)
    must be reachable for such a frame: the dispatcher's "no payload" shortcut has to route that packet type to
    it (or build the packet) instead of answering PayloadRequired — the codec's own writer produces that frame."""
    rule = "R-C04-zero-length"
    disp = prog.one(entry)
    # the `remaining_len == 0` test of the dispatcher and the packet-type match on its true edge
    zero_sw = None
    for sbb, holds, fails, _ in cmp_switches(disp, ("Eq",), lambda ss: any(getattr(x, "fields", None) and x.fields[-1] == "remaining_len" for x in ss), lambda ss: any(x.kind == "const" and x.v == 0 for x in ss)):
        zero_sw = (sbb, holds)
    accepted = set()
    if zero_sw is not None:
        region = reachable(disp, (zero_sw[1],))
        for s_ in discr_switches(disp, r"PacketType$"):
            if s_[0] in region and dominates(disp, zero_sw[1], s_[0]):
                accepted |= set(s_[2].keys())
    n = 0
    for rb in sorted(prog.A.values(), key=lambda b: b.id):
        if not rb.id.startswith(pre) or not rb.id.endswith("::read") or rb.kind not in ("Fn", "AssocFn"):
            continue
        if rb.id == disp.id:
            continue
        zero = cmp_switches(rb, ("Eq",), lambda ss: any(getattr(x, "fields", None) and x.fields[-1] == "remaining_len" for x in ss), lambda ss: any(x.kind == "const" and x.v == 0 for x in ss))
        if not zero:
            continue
        n += 1
        mod = rb.id[len(pre):].split("::")[0]
        if zero_sw is None:
            ctx.ok(rule, rb.id, "%s: the dispatcher has no zero-length shortcut; %s::read sees every frame" % (name, mod), site=rb.fn_loc())
        elif any(v.lower() == mod.lower() for v in accepted):
            ctx.ok(rule, rb.id, "%s: a %s frame with remaining length 0 is accepted by the dispatcher's shortcut" % (name, mod), site=rb.fn_loc())
        else:
            ctx.violation(rule, rb.id, "valid zero-length frame rejected",
                          "%s: %s::read accepts remaining_len == 0, and the writer emits that two-byte frame, but the dispatcher's `remaining_len == 0` shortcut only knows %s and answers PayloadRequired for it: the codec cannot decode its own (and the peer's) short %s"
                          % (name, mod, sorted(accepted), mod.upper()), site=disp.loc(disp.blocks[zero_sw[0]]["t"].get("sp")))
    return n


# ------------------------------------------------------------------------------------------
# R-C04-kinds: every packet kind the codec can write, it can read

WRITE_ENTRIES = {
    "rumqttd-v4": r"^<protocol::v4::V4 as protocol::Protocol>::write$",
    "rumqttd-v5": r"^<protocol::v5::V5 as protocol::Protocol>::write$",
    "rumqttc-v4": r"^mqttbytes::v4::Packet::write$",
    "rumqttc-v5": r"^v5::mqttbytes::v5::Packet::write$",
}


def kinds_agree(ctx, prog, name, entry):
    """'for every packet type': the set of Packet variants the codec's encoder has an arm for is a subset of the
    variants its decoder can produce (a kind that can only be written does not round-trip)."""
    rule = "R-C04-kinds"
    wb = prog.one(WRITE_ENTRIES[name])
    rb = prog.one(entry)
    wsw = [s_ for s_ in discr_switches(wb, r"Packet$") if len(s_[2]) >= 8]
    if not wsw:
        raise AnchorMissing("%s: match on Packet in %s not found" % (name, wb.id))
    sw = max(wsw, key=lambda s_: len(s_[2]))
    dom = dominators(wb)
    writable = set()
    for variant, tgt in sw[2].items():
        region = {b for b in reachable(wb, (tgt,)) if tgt in dom.get(b, ())}
        if any(wb.blocks[b]["t"]["k"] == "call" and re.search(r"::write$", callee_path(wb.blocks[b]["t"])) for b in region):
            writable.add(variant)
    readable = set()
    for blk in rb.blocks:
        for st in blk["s"]:
            if "lhs" in st and st["rv"]["k"] == "agg" and st["rv"].get("adt", "").endswith("Packet") and st["rv"].get("var"):
                readable.add(st["rv"]["var"])
    ctx.floor(rule, "packet kinds with an encoder arm in %s" % name, len(writable), 10)
    for v in sorted(writable):
        if v in readable:
            ctx.ok(rule, wb.id, "%s: Packet::%s can be written and read" % (name, v), trivial=True)
        else:
            ctx.violation(rule, wb.id, "Packet::%s is write-only" % v,
                          "%s: the encoder has an arm for Packet::%s but the decoder never produces it (its packet type is not even mapped): such a packet does not round-trip through this codec" % (name, v), site=wb.fn_loc())
    ctx.ok(rule, wb.id, "%s: %d writable kinds examined against %d readable kinds" % (name, len(writable), len(readable)))


def publish_len_pkid(ctx, rule, prog):
    """A PUBLISH writer emits the 2-byte packet id exactly when qos != AtMostOnce; its len() must count those 2 bytes
    under the same QoS test. Counting them whenever pkid != 0 goes wrong for values that never came off the wire:
    the broker forwards a stored QoS 1/2 publish (publisher's pkid kept) to a QoS 0 subscription, the announced
    remaining length is then 2 too large and the subscriber's stream is out of step from the next packet on.
    Structural clause: in each publish len(), every read of the `pkid` field is dominated by a branch on the `qos` field."""
    fns = prog.find(r"publish::(Publish::)?len$", "A")
    ctx.floor(rule, "PUBLISH len() functions", len(fns), 2)
    for f in fns:
        qos_sw = []
        for bi, b in enumerate(f.blocks):
            t = b["t"]
            if b.get("cleanup") or t["k"] != "switch":
                continue
            srcs = flatten_src(provenance(f, t["on"], through_calls=[r"."]))
            if any("qos" in [x.split(".")[-1] for x in (getattr(s_, "fields", None) or [])] for s_ in srcs):
                qos_sw.append(bi)
        reads = []
        for bi, b in enumerate(f.blocks):
            if b.get("cleanup"):
                continue
            for st in b["s"]:
                if "lhs" in st and st["rv"]["k"] in ("use", "ref"):
                    pl = op_place(st["rv"].get("a")) if st["rv"]["k"] == "use" else st["rv"].get("pl")
                    if pl is not None and place_fields(pl)[-1:] == ["pkid"]:
                        reads.append((bi, st.get("sp")))
        if not reads:
            ctx.ok(rule, f.id, "len() does not look at the packet id (counts it by QoS alone)", site=f.fn_loc())
            continue
        for bi, sp in reads:
            if any(q != bi and dominates(f, q, bi) for q in qos_sw):
                ctx.ok(rule, f.id, "packet-id bytes are counted under a test of the QoS, as write() emits them", site=f.loc(sp))
            else:
                ctx.violation(rule, f.id, "packet-id bytes counted without the QoS test",
                              "len() adds the 2 packet-id bytes on a path that did not test qos, while write() emits the id only for qos != AtMostOnce: for a QoS 0 publish that still carries an id "
                              "(a stored QoS 1/2 publish forwarded to a QoS 0 subscription) the announced remaining length is 2 too large and the receiver's stream is out of step",
                              site=f.loc(sp))
