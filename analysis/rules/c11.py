"""C11 — on session resume the client retransmits first and in original order (DESIGN §4 C11)."""
import re
from ..core import *
from .client import *

CRATES = ("rumqttc",)
EXPLANATION = (
    "Static decision on the MIR of /repo's working tree (rumqttc v4 and v5 event loops): "
    "(R-C11-first) EventLoop::clean places MqttState::clean()'s packets in FRONT of the requests still waiting in `pending` (a queue built from state.clean(), the old pending appended, stored back — never `pending.extend(state.clean())`), "
    "queues them before the requests still sitting in the channel and filters manual PubAck requests out of the latter; "
    "next_request takes from the channel only on the `pending.is_empty()` edge and otherwise pops the front of pending; `pending.clear()` is called only in poll() under `!connack.session_present`; "
    "pending has no other remover (incl. append/mem::take/replace/swap taking it by &mut); "
    "(R-C11-rotation, v4) last_puback is written by the PUBACK handler (and re-anchored to last_pkid by poll() on the session-not-resumed edge, where the carried-over requests are dropped) and determines the rotation point MqttState::clean() splits outgoing_pub at (so the oldest unacknowledged publish comes first). "
    "NOT decided: that the rotation yields the original order across wrap-around for every ack history (index arithmetic over histories).")
ASSUMPTIONS = ["rustc MIR construction is correct"]
TECHNIQUE = "static analysis: dominance / edge rules on the event loop's MIR, who-may-call on the pending queue, provenance of the rotation point"
LEVEL_TEXT = "Decides structurally that retransmissions are queued ahead of new requests and consumed first, and that a non-resumed session discards them; order correctness across wrap-around is not decided."
LEVEL_NOTE = "Trusted: rustc MIR."


def run(ctx):
    prog = ctx.progs["rumqttc"]
    for ver in ("v4", "v5"):
        ctx.guarded("R-C11-first", first, ctx, prog, ver)
    ctx.guarded("R-C11-rotation", rotation, ctx, prog)


def first(ctx, prog, ver):
    rule = "R-C11-first"
    pre = dict((v[0], v[2]) for v in VERSIONS)[ver]
    c = prog.one("^" + re.escape(pre) + "clean$")
    behind, merged, stores, ch_adders = clean_shape(prog, c)
    st_point = None
    if behind:
        ctx.violation(rule, c.id, "unacknowledged packets queued behind unsent ones",
                      "EventLoop::clean appends what MqttState::clean() returns BEHIND the requests still waiting in `pending`: after a second failure in the middle of a replay the packets that were already re-sent "
                      "(older) are retransmitted after the not yet replayed ones and after user requests carried over from the first failure", site=c.loc(behind[0][1].get("sp")))
        st_point = behind[0][0]
    elif merged and stores and all(dominates(c, m[0], w) for m in merged for w in stores):
        ctx.ok(rule, c.id, "state.clean() is placed in front of the requests still waiting in pending (queue built from state.clean(), old pending appended, stored back)", site=c.loc(merged[0][1].get("sp")))
        st_point = stores[0]
    else:
        ctx.violation(rule, c.id, "state packets not merged into pending",
                      "EventLoop::clean no longer queues MqttState::clean()'s packets in front of the old contents of `pending` (merged=%d, stores=%d)" % (len(merged), len(stores)), site=c.fn_loc())
    ch = ch_adders
    if st_point is not None and ch and all(dominates(c, st_point, x) for x in ch):
        ctx.ok(rule, c.id, "state.clean() is queued before the requests drained from the channel")
    else:
        ctx.violation(rule, c.id, "order of extends", "requests from the channel are queued ahead of (or instead of) the unacknowledged packets of the old session", site=c.fn_loc())
    # the channel requests are filtered: PubAck removed
    filt = False
    for cb in prog.A.values():
        if cb.root == c.id and cb.kind == "Closure":
            for s in discr_switches(cb, r"Request$"):
                tgt = variant_target(s, "PubAck")
                if tgt is not None:
                    vals = set()
                    # value returned on the PubAck edge: a constant stored into the return place directly, or into a
                    # temporary inside the arm and copied / negated afterwards (`!matches!(request, Request::PubAck(_))`)
                    others = [t_ for t_ in live_succ(cb, s[0]) if t_ != tgt] if isinstance(s[0], int) else []
                    shared = reachable(cb, tuple(others)) if others else set()
                    arm = reachable(cb, (tgt,))
                    consts = {}
                    for b in arm - shared:
                        for stt in cb.blocks[b]["s"]:
                            if "lhs" in stt and not stt["lhs"].get("p") and stt["rv"]["k"] == "use" and op_const(stt["rv"]["a"]) is not None:
                                consts[stt["lhs"]["l"]] = op_const(stt["rv"]["a"]).get("v")
                    for b in arm:
                        for stt in cb.blocks[b]["s"]:
                            if "lhs" in stt and stt["lhs"]["l"] == 0 and not stt["lhs"].get("p"):
                                rv = stt["rv"]
                                if rv["k"] == "use":
                                    k = op_const(rv["a"])
                                    l_ = op_local(rv["a"])
                                    vals.add(k.get("v") if k else consts.get(l_))
                                elif rv["k"] == "un" and rv.get("op") == "Not":
                                    v_ = consts.get(op_local(rv["a"]))
                                    vals.add(None if v_ is None else (0 if v_ else 1))
                                else:
                                    vals.add(None)
                    if vals == {0}:
                        filt = True
    if filt and any(callee_path(t).endswith("Vec::<T, A>::retain") for _, t in c.calls()):
        ctx.ok(rule, c.id, "manual PubAck requests left in the channel are dropped (retain)")
    else:
        ctx.violation(rule, c.id, "PubAck not filtered", "acks queued by the user for the old connection are replayed on the new one", site=c.fn_loc())
    # next_request
    nr = prog.one("^" + re.escape(pre) + r"next_request::\{closure#0\}$")
    from .c15 import switch_on_call_result
    sw = switch_on_call_result(nr, r"VecDeque::<T, A>::is_empty$")
    recvs = [bb for bb, t in nr.calls() if re.search(r"recv_async$", callee_path(t)) and not nr.is_cleanup(bb)]
    pops = [bb for bb, t in nr.calls() if callee_path(t).endswith("VecDeque::<T, A>::pop_front") and not nr.is_cleanup(bb)]
    if sw and recvs and pops:
        sbb, t_empty, t_nonempty, _ = sw[0]
        if all(dominates(nr, t_empty, r) for r in recvs) and all(dominates(nr, t_nonempty, p) for p in pops):
            ctx.ok(rule, nr.id, "channel is read only when pending is empty; otherwise pending.pop_front()")
        else:
            ctx.violation(rule, nr.id, "new request before retransmission", "next_request can take a request from the channel while retransmissions are still pending", site=nr.fn_loc())
    else:
        ctx.violation(rule, nr.id, "shape", "next_request no longer tests pending.is_empty() to choose between pending and the channel", site=nr.fn_loc())
    # who removes from pending
    n = 0
    for body in prog.A.values():
        if not body.id.startswith(pre):
            continue
        for bb, t in body.calls():
            if body.is_cleanup(bb):
                continue
            fs = [x.split(".")[-1] for x in (receiver_fields(body, t) or [])]
            name = callee_path(t).rsplit("::", 1)[-1]
            is_pending = fs[-1:] == ["pending"]
            if not is_pending and body.id.endswith("next_request::{closure#0}") and callee_path(t).startswith("std::collections::VecDeque::<T, A>::"):
                src = flatten_src(provenance(body, t["args"][0]))
                is_pending = any(getattr(s, "fields", None) and s.fields[-1].split(".")[-1].lstrip("^") == "pending" for s in src)
            if not is_pending or not callee_path(t).startswith("std::collections::VecDeque::<T, A>::"):
                continue
            if name in ("pop_front", "pop_back", "clear", "drain", "remove", "truncate", "retain", "split_off", "swap_remove_back", "swap_remove_front"):
                n += 1
                if body.id == c.id and name == "drain" and any(s_.kind == "call" and s_.term is t for m in merged for s_ in flatten_src(provenance(c, m[1]["args"][1]))):
                    ctx.ok(rule, body.id, "pending.drain(..) feeds the merged queue that is stored back", site=body.loc(t.get("sp")))
                elif name == "pop_front" and "next_request" in body.id:
                    ctx.ok(rule, body.id, "pending.pop_front", site=body.loc(t.get("sp")))
                elif name == "clear" and body.id.endswith("poll::{closure#0}"):
                    # only under !connack.session_present
                    from .c08 import bool_switch_on_field
                    sws = bool_switch_on_field(body, "session_present")
                    if sws and dominates(body, sws[0][2], bb):
                        ctx.ok(rule, body.id, "pending.clear() only when the broker reports no session", site=body.loc(t.get("sp")))
                    else:
                        ctx.violation(rule, body.id, "pending.clear unguarded", "carried-over requests are discarded although the session may be present", site=body.loc(t.get("sp")))
                else:
                    ctx.violation(rule, body.id, "pending." + name, "the retransmission queue is emptied/reordered outside next_request and the no-session clear", site=body.loc(t.get("sp")))
    ctx.floor(rule, "removers of pending (%s)" % ver, n, 2)
    # pending handed to something by `&mut` as a non-receiver argument (append / mem::take / swap ...): it is emptied there
    for body in prog.A.values():
        if not body.id.startswith(pre):
            continue
        for bb, t in body.calls():
            if body.is_cleanup(bb) or not re.search(r"VecDeque::<T, A>::append$|mem::(take|replace|swap)$", callee_path(t)):
                continue
            args = t["args"][1:] if callee_path(t).endswith("append") else t["args"]
            hit = False
            for a in args:
                for s_ in flatten_src(provenance(body, a)):
                    f = getattr(s_, "fields", None)
                    if f and f[-1].split(".")[-1].lstrip("^") == "pending":
                        hit = True
            if not hit:
                continue
            if body.id == c.id and any(m[1] is t or any(s_.kind == "call" and s_.term is t for s_ in flatten_src(provenance(c, m[1]["args"][1]))) for m in merged):
                ctx.ok(rule, body.id, "pending is moved into the merged queue that is stored back", site=body.loc(t.get("sp")))
            else:
                ctx.violation(rule, body.id, "pending emptied by " + callee_path(t).rsplit("::", 1)[-1],
                              "the retransmission queue is moved out of `pending` outside the merge in EventLoop::clean", site=body.loc(t.get("sp")))


def rotation(ctx, prog):
    rule = "R-C11-rotation"
    h = state_fn(prog, "v4", "handle_incoming_puback")
    writes = [st for b in h.blocks for st in b["s"] if "lhs" in st and place_fields(st["lhs"])[-1:] == ["last_puback"]]
    okw = False
    for st in writes:
        src = flatten_src(provenance(h, st["rv"]["a"])) if st["rv"]["k"] == "use" else []
        if any(s.kind == "param" and s.l == 2 and s.fields[-1:] == ["pkid"] for s in src):
            okw = True
    if okw:
        ctx.ok(rule, h.id, "last_puback = puback.pkid")
    else:
        ctx.violation(rule, h.id, "last_puback not recorded", "the PUBACK handler no longer records the last acknowledged id (rotation point of retransmission order)", site=h.fn_loc())
    poll = prog.one(r"^eventloop::EventLoop::poll::\{closure#0\}$")
    from .c08 import bool_switch_on_field
    sp_sw = bool_switch_on_field(poll, "session_present")
    clears = [bb for bb, t in poll.calls() if callee_path(t).endswith("VecDeque::<T, A>::clear") and (receiver_fields(poll, t) or [None])[-1] == "pending" and not poll.is_cleanup(bb)]
    reanchor = []
    empty_anchor = []
    for body, bi, st in field_writes(prog, "last_puback"):
        if body.id.startswith("state::MqttState::") and body.name == "outgoing_publish":
            # the window is empty: this publish is the oldest outstanding one; the rotation point goes right before it
            guarded = False
            for sbb, holds, fails, _ in cmp_switches(body, ("Eq",), lambda ss: any(getattr(x, "fields", None) and x.fields[-1] == "inflight" for x in ss), lambda ss: any(x.kind == "const" and x.v == 0 for x in ss)):
                guarded = guarded or dominates(body, holds, bi)
            src = flatten_src(provenance(body, st["rv"]["a"])) if st["rv"]["k"] == "use" else []
            ops = [x for x in src if x.kind == "op"]
            before = any(x.name in ("Sub", "SubWithOverflow", "SubUnchecked") for x in ops) or any(x.kind == "call" and re.search(r"(wrapping|saturating|checked)_sub$", x.path) for x in src)
            if guarded and before:
                empty_anchor.append(bi)
            else:
                ctx.violation(rule, body.id, "writes last_puback", "outgoing_publish rewrites the rotation point other than `last_puback = pkid - 1` while nothing is outstanding (inflight == 0)", site=body.loc(st.get("sp")))
        elif body.id.startswith("state::MqttState::") and body.name not in ("handle_incoming_puback", "new"):
            ctx.violation(rule, body.id, "writes last_puback", "last_puback is written outside the PUBACK handler", site=body.loc(st.get("sp")))
        elif body.id == poll.id:
            src = flatten_src(provenance(body, st["rv"]["a"])) if st["rv"]["k"] == "use" else []
            from_pkid = bool(src) and all(getattr(x, "fields", None) and x.fields[-1] == "last_pkid" for x in src)
            on_edge = bool(sp_sw) and dominates(poll, sp_sw[0][2], bi)
            if from_pkid and on_edge:
                reanchor.append(bi)
            else:
                ctx.violation(rule, body.id, "writes last_puback", "poll() rewrites the rotation point other than `last_puback = last_pkid` on the session-not-resumed edge", site=body.loc(st.get("sp")))
        elif not body.id.startswith("state::MqttState::") and body.id.startswith(("eventloop::", "state::", "client::")):
            ctx.violation(rule, body.id, "writes last_puback", "last_puback is written outside the PUBACK handler", site=body.loc(st.get("sp")))
    # when the broker does not resume the session the carried-over requests are dropped, but the id counter runs on:
    # the rotation point must be re-anchored at the counter, or the next session's ids wrap across a stale point
    if clears and sp_sw:
        if reanchor and all(any(dominates(poll, sp_sw[0][2], r) for r in reanchor) for _ in clears):
            ctx.ok(rule, poll.id, "session not resumed: pending dropped and the rotation point re-anchored (last_puback = last_pkid)", site=poll.loc(poll.blocks[clears[0]]["t"].get("sp")))
        else:
            ctx.violation(rule, poll.id, "stale rotation point after a session that was not resumed",
                          "on `!connack.session_present` poll() drops the carried-over requests but leaves last_puback where the old session's acks put it while last_pkid keeps counting: "
                          "the next session's packet ids wrap across that stale point and clean() retransmits them out of order after the next failure",
                          site=poll.loc(poll.blocks[clears[0]]["t"].get("sp")))
    # SUBSCRIBE / UNSUBSCRIBE take ids from the same counter without occupying outgoing_pub: while nothing is outstanding
    # the counter runs ahead of last_puback, and after a wrap the stale point lies inside the next outstanding range.
    # The publish that finds the window empty is the oldest outstanding one and re-anchors the point right before itself.
    op = state_fn(prog, "v4", "outgoing_publish")
    if empty_anchor:
        ctx.ok(rule, op.id, "a publish that finds the window empty re-anchors the rotation point right before its own id", site=op.fn_loc())
    else:
        ctx.violation(rule, op.id, "rotation point trails ids taken by SUBSCRIBE/UNSUBSCRIBE",
                      "last_puback moves only with PUBACKs, but SUBSCRIBE/UNSUBSCRIBE draw ids from the same counter: with the window empty the counter runs ahead of it, and after a wrap-around the rotation point lies inside the outstanding range — "
                      "clean() then retransmits the newest publishes first although the broker acknowledged strictly in order (ids 9,10,1..6 outstanding, last_puback = 5: replay starts with 6)",
                      site=op.fn_loc())
    c = state_fn(prog, "v4", "clean")
    sp = [(bb, t) for bb, t in c.calls() if re.search(r"split_at_mut$", callee_path(t))]
    okr = False
    for bb, t in sp:
        src = flatten_src(provenance(c, t["args"][1]))
        if any(getattr(s, "fields", None) and s.fields[-1] == "last_puback" for s in src):
            okr = True
    ch = [bb for bb, t in c.calls() if re.search(r"Iterator::chain$", callee_path(t))]
    if okr and ch:
        ctx.ok(rule, c.id, "clean() splits outgoing_pub after last_puback and chains second half before first half")
    else:
        ctx.violation(rule, c.id, "no rotation", "MqttState::clean() no longer rotates outgoing_pub at last_puback: retransmission order starts at id 1 instead of the oldest unacknowledged publish", site=c.fn_loc())
