"""C13 — commit log reads and retention (structural clauses, DESIGN §4 C13)."""
import re
from ..core import *
from ..panics import panic_scope

EXPLANATION = (
    "Static decision on the MIR of /repo's working tree: (R-C13-panic) may-panic inventory of CommitLog::{new, append, readv, next_offset, last} and Segment::{readv, push, last} — "
    "every index, unwrap and subtraction is discharged by a dominating comparison or signed in the audit table against the contiguity invariant; "
    "(R-C13-shape) the invariant itself: Segment.data is mutated only by Segment::push; CommitLog.segments is mutated only by new() and apply_retention(); in apply_retention pop_front is paired with head += 1 "
    "and push_back with tail += 1 in the same straight-line region; pop_front happens only under `memory_segments_count() >= max_mem_segments` and on a path that always reaches the push_back "
    "(whole oldest segment only, never empty); append() calls apply_retention before pushing. "
    "(R-C13-config) the size / count limits a filter's log is created with are read from the like-meaning configuration fields (shared with R-C03-config); "
    "NOT decided: the cursor algebra (gap-free, repeat-free suffix; Next/Done exactly) — value-level over append/read histories.")
ASSUMPTIONS = ["rustc MIR construction is correct; rules/ext_api.json; u64/usize arithmetic on offsets does not overflow"]
TECHNIQUE = "static analysis: MIR may-panic inventory with guarded-subtraction discharge + who-may-write and pairing/dominance rules on the retention code"
LEVEL_TEXT = ("For every cursor value and history at once: no undischarged panic construct in the log read/append path, and the structural invariant those discharges rely on "
              "(segments non-empty, head/tail move with pop/push, only whole oldest segments dropped, bounded by max_mem_segments) is checked on the code shape. The read-result algebra is not decided.")
LEVEL_NOTE = "Trusted: rustc MIR; audit entries with scope C13 in rules/panic_audit.json (each with the invariant it relies on)."

ENTRIES = [r"^segments::CommitLog::<T>::(new|append|readv|next_offset|last)$", r"^segments::segment::Segment::<T>::(readv|push|last|next_offset)$"]


def run(ctx):
    prog = ctx.progs["rumqttd"]
    panic_scope(ctx, "R-C13-panic", "rumqttd", ENTRIES, "C13", "commit log API")
    ctx.guarded("R-C13-shape", shape, ctx, prog)
    ctx.guarded("R-C13-guards", guards, ctx, prog)
    ctx.guarded("R-C13-tags", tags, ctx, prog)
    ctx.guarded("R-C13-config", retention_config, ctx, prog)


def retention_config(ctx, prog):
    """'discards only whole oldest segments' up to the CONFIGURED bounds: the size / count limits a log is created with
    are read from the like-meaning configuration fields (shared with R-C03-config)"""
    from . import c03
    from .common import Relabel
    view = Relabel(ctx, "R-C13-config", lambda fn, inst: True)
    c03.config_args(view, prog)
    ctx.floor("R-C13-config", "verdicts about CommitLog::new's configuration arguments", view.kept, 2)


def guards(ctx, prog):
    """R-C13-guards: the comparisons the audited index/subtraction sites of CommitLog::readv and
    Segment::readv rely on are present and dominate those sites (premises of the audit entries)"""
    rule = "R-C13-guards"
    rd = prog.one(r"^segments::CommitLog::<T>::readv$")
    dom = dominators(rd)

    def is_cursor0(ss):
        return any(s.kind == "param" and s.l == 2 and s.fields[-1:] == ["0"] for s in ss)

    def is_cursor1(ss):
        return any(s.kind == "param" and s.l == 2 and s.fields[-1:] == ["1"] for s in ss)

    def is_field(name):
        return lambda ss: any(getattr(s, "fields", None) and s.fields[-1] == name and s.kind in ("param", "field") and s.l == 1 for s in ss)
    idx_sites = [bb for bb, t in rd.calls() if re.search(r"VecDeque<T, A> as std::ops::Index<usize>>::index$", callee_path(t)) and not rd.is_cleanup(bb)]
    ctx.floor(rule, "segments[idx] sites in CommitLog::readv", len(idx_sites), 2)
    # G1: cursor.0 > tail → return, before any index
    g1 = cmp_switches(rd, ("Gt",), is_cursor0, is_field("tail"))
    if g1 and all(g1[0][2] in dom.get(i, ()) for i in idx_sites) and not (reachable(rd, (g1[0][1],)) & set(idx_sites)):
        ctx.ok(rule, rd.id, "`cursor.0 > tail` returns Done before any segments[idx]")
    else:
        ctx.violation(rule, rd.id, "missing guard cursor.0 > tail", "segments[idx] is reachable for a cursor beyond the tail segment (index out of range → panic)", site=rd.fn_loc())
    # G2: cursor.0 < head → cursor rewritten to head, before the subtraction cursor.0 - head
    g2 = cmp_switches(rd, ("Lt",), is_cursor0, is_field("head"))
    # subtraction sites (checked `SubWithOverflow` with overflow checks on, plain `Sub` otherwise), in block order
    sub_stmts = {}
    for bi, b in enumerate(rd.blocks):
        if b.get("cleanup"):
            continue
        for st in b["s"]:
            if "lhs" in st and st["rv"]["k"] == "bin" and st["rv"]["op"] in ("Sub", "SubWithOverflow") and bi not in sub_stmts:
                sub_stmts[bi] = st["rv"]
    subs = sorted(sub_stmts)
    if g2 and subs and all(g2[0][0] in dom.get(s, ()) for s in subs[:1]):
        # on the true edge (cursor.0 < head) every path to the subtraction assigns cursor
        tr = g2[0][1]
        assigns = set()
        for bi, b in enumerate(rd.blocks):
            for st in b["s"]:
                if "lhs" in st and st["rv"]["k"] == "agg" and st["rv"].get("ak") == "tuple" and any(
                        getattr(s, "fields", None) and s.fields[-1] == "head" for o in st["rv"]["ops"] for s in flatten_src(provenance(rd, o))):
                    assigns.add(bi)
        # ... and the value subtracted from is that (rewritten) cursor: one of its sources is self.head
        sub_src = flatten_src(provenance(rd, sub_stmts[subs[0]]["a"]))
        from_head = any(getattr(s, "fields", None) and s.fields[-1] == "head" for s in sub_src)
        if assigns and from_head and not (reachable(rd, (tr,), avoid_blocks=assigns) & set(subs[:1])):
            ctx.ok(rule, rd.id, "`cursor.0 < head` jumps the cursor to head before `cursor.0 - head`")
        else:
            ctx.violation(rule, rd.id, "stale cursor not rewound to head", "with cursor.0 < head the subtraction cursor.0 - head is reached without moving the cursor to head", site=rd.fn_loc())
    else:
        ctx.violation(rule, rd.id, "missing guard cursor.0 < head", "`cursor.0 - head` is not preceded by the `cursor.0 < head` test", site=rd.fn_loc())
    # G3: first segment: absolute_offset > cursor.1 → cursor.1 raised; loop guard cursor.0 < tail before the second index
    g3 = cmp_switches(rd, ("Gt",), is_field_any("absolute_offset"), is_cursor1_or_local(rd))
    if g3:
        ctx.ok(rule, rd.id, "`segment.absolute_offset > cursor.1` raises the offset before reading the first segment")
    else:
        ctx.violation(rule, rd.id, "missing guard absolute_offset > cursor.1", "Segment::readv can be entered with cursor.1 below the segment's absolute_offset (subtraction underflow)", site=rd.fn_loc())
    g4 = cmp_switches(rd, ("Lt",), lambda ss: True, is_field("tail"))
    if g4 and len(idx_sites) >= 2 and any(g[1] in dom.get(idx_sites[-1], ()) or g[1] in dom.get(max(idx_sites), ()) for g in g4):
        ctx.ok(rule, rd.id, "the in-loop segments[idx] is under the loop guard `cursor.0 < tail`")
    else:
        ctx.violation(rule, rd.id, "missing loop guard", "the in-loop segments[idx + 1] is not under `cursor.0 < tail`", site=rd.fn_loc())
    # G5: `len -= next_offset - cursor.1` under next_offset >= cursor.1
    g5 = cmp_switches(rd, ("Ge",), lambda ss: True, lambda ss: True)
    if g5 and len(subs) >= 2 and any(g[1] in dom.get(s, ()) for g in g5 for s in subs[1:]):
        ctx.ok(rule, rd.id, "`next_offset - cursor.1` is under `next_offset >= cursor.1`")
    else:
        ctx.violation(rule, rd.id, "missing guard next_offset >= cursor.1", "the remaining-length update subtracts without the `next_offset >= cursor.1` test", site=rd.fn_loc())
    # Segment::readv: data[idx..limit] only when idx < len, limit clamped to len
    sr = prog.one(r"^segments::segment::Segment::<T>::readv$")
    sdom = dominators(sr)
    sl = [bb for bb, t in sr.calls() if re.search(r"Vec<T, A> as std::ops::Index<I>>::index$", callee_path(t)) and not sr.is_cleanup(bb)]
    ge = cmp_switches(sr, ("Ge",), lambda ss: True, lambda ss: any(s.kind == "call" and s.path.endswith("Segment::<T>::len") for s in ss))
    if sl and len(ge) >= 2 and all(any(g[2] in sdom.get(s, ()) for g in ge) for s in sl):
        ctx.ok(rule, sr.id, "data[idx..limit] is under `idx >= len()` false edge, with limit clamped by `limit >= len()`")
    else:
        ctx.violation(rule, sr.id, "missing bounds tests", "Segment::readv slices data[idx..limit] without the idx/limit >= len() tests", site=sr.fn_loc())


def tags(ctx, prog):
    """R-C13-tags: the offset every returned entry is tagged with is *absolute* — the range zipped
    onto the entries starts at the caller's cursor offset, and the segment number is the caller's
    segment; the continuation is absolute_offset + relative index"""
    rule = "R-C13-tags"
    sr = prog.one(r"^segments::segment::Segment::<T>::readv$")
    ranges = []
    for bi, b in enumerate(sr.blocks):
        if b.get("cleanup"):
            continue
        for st in b["s"]:
            if "lhs" in st and st["rv"]["k"] == "agg" and st["rv"].get("adt", "").endswith("ops::Range") and st["rv"]["ops"]:
                ranges.append((bi, st))
    # the range that is zipped with repeat(cursor.0) → offsets
    zips = [(bb, t) for bb, t in sr.calls() if callee_path(t).endswith("Iterator::zip") and not sr.is_cleanup(bb)]
    tagged = None
    for bb, t in zips:
        a0 = flatten_src(provenance(sr, t["args"][0]))
        if any(s.kind == "call" and s.path.endswith("iter::repeat") for s in a0):
            for s in flatten_src(provenance(sr, t["args"][1])):
                if s.kind == "agg" and s.adt.endswith("ops::Range"):
                    tagged = (bb, t, s)
    if tagged is None:
        ctx.violation(rule, sr.id, "no offset tagging", "Segment::readv no longer pairs the returned entries with (segment, offset) tags", site=sr.fn_loc())
        return
    bb, t, rng = tagged
    start = flatten_src(provenance(rng.body, rng.rv["ops"][0]))
    seg = []
    for s in flatten_src(provenance(sr, t["args"][0])):
        if s.kind == "call" and s.path.endswith("iter::repeat"):
            seg = flatten_src(provenance(sr, s.term["args"][0]))
    if start and all(s.kind == "param" and s.l == 2 and s.fields[-1:] == ["1"] for s in start):
        ctx.ok(rule, sr.id, "entry tags start at the absolute cursor offset (cursor.1)", site=sr.loc(t.get("sp")))
    else:
        ctx.violation(rule, sr.id, "relative offset tags",
                      "the offsets the returned entries are tagged with do not start at the caller's absolute cursor offset: in every segment but the first an entry's tag is not its own offset", site=sr.loc(t.get("sp")))
    if seg and all(s.kind == "param" and s.l == 2 and s.fields[-1:] == ["0"] for s in seg):
        ctx.ok(rule, sr.id, "entry tags carry the caller's segment number (cursor.0)")
    else:
        ctx.violation(rule, sr.id, "segment tag", "entries are tagged with a segment number other than the cursor's", site=sr.loc(t.get("sp")))
    # continuation = absolute_offset + relative
    okc = False
    for b in sr.blocks:
        for st in b["s"]:
            if "lhs" in st and st["rv"]["k"] == "bin" and st["rv"]["op"] in ("Add", "AddWithOverflow"):
                sa = flatten_src(provenance(sr, st["rv"]["a"]))
                if any(getattr(s, "fields", None) and s.fields[-1] == "absolute_offset" for s in sa):
                    okc = True
    if okc:
        ctx.ok(rule, sr.id, "continuation offset = absolute_offset + relative index")
    else:
        ctx.violation(rule, sr.id, "relative continuation", "Segment::readv's Next(..) continuation is no longer absolute_offset + relative index", site=sr.fn_loc())


def is_field_any(name):
    return lambda ss: any(getattr(s, "fields", None) and s.fields[-1] == name for s in ss)


def is_cursor1_or_local(body):
    return lambda ss: any(getattr(s, "fields", None) and s.fields[-1:] == ["1"] for s in ss)


def mutating_calls_on_field(prog, field, methods):
    out = []
    for body in prog.A.values():
        for bb, t in body.calls():
            if body.is_cleanup(bb):
                continue
            name = callee_path(t).rsplit("::", 1)[-1]
            if name in methods:
                fs = receiver_fields(body, t)
                if fs and fs[-1] == field:
                    out.append((body, bb, t, name))
    return out


VEC_MUT = {"push", "pop", "clear", "truncate", "remove", "swap_remove", "insert", "drain", "retain", "retain_mut", "append", "extend", "split_off", "resize", "dedup", "sort", "reverse", "iter_mut", "as_mut_slice", "get_mut", "first_mut", "last_mut", "index_mut", "swap"}
DEQ_MUT = {"push_back", "push_front", "pop_back", "pop_front", "clear", "truncate", "remove", "insert", "drain", "retain", "retain_mut", "append", "extend", "split_off", "swap_remove_back", "swap_remove_front", "rotate_left", "rotate_right", "resize", "make_contiguous"}


def shape(ctx, prog):
    rule = "R-C13-shape"
    # ---- Segment.data mutated only by Segment::push (and constructors)
    n = 0
    for body, bb, t, name in mutating_calls_on_field(prog, "data", VEC_MUT):
        if "Segment<T>" not in (t["fn"].get("self", "") + body.id) and "segments::segment" not in body.id:
            continue
        n += 1
        if body.id.endswith("Segment::<T>::push") and name == "push":
            ctx.ok(rule, body.id, "Segment.data.push", site=body.loc(t.get("sp")))
        else:
            ctx.violation(rule, body.id, "Segment.data." + name, "Segment.data is mutated outside Segment::push: stored entries/offsets could shift", site=body.loc(t.get("sp")))
    ctx.floor(rule, "mutations of Segment.data", n, 1)
    # ---- CommitLog.segments mutated only in apply_retention (+ new)
    muts = [m for m in mutating_calls_on_field(prog, "segments", DEQ_MUT) if "segments::CommitLog" in m[0].id]
    allowed = ("CommitLog::<T>::apply_retention", "CommitLog::<T>::new")
    for body, bb, t, name in muts:
        if body.id.endswith(allowed):
            ctx.ok(rule, body.id, "segments." + name, site=body.loc(t.get("sp")))
        else:
            ctx.violation(rule, body.id, "segments." + name, "CommitLog.segments is mutated outside new()/apply_retention()", site=body.loc(t.get("sp")))
    ctx.floor(rule, "mutations of CommitLog.segments", len(muts), 2)
    # `segments` local in new(): push_back on the local before the struct is built
    ar = prog.one(r"^segments::CommitLog::<T>::apply_retention$")
    pops = [(bb, t) for bb, t in ar.calls() if callee_path(t).endswith("VecDeque::<T, A>::pop_front") and not ar.is_cleanup(bb)]
    pushes = [(bb, t) for bb, t in ar.calls() if callee_path(t).endswith("VecDeque::<T, A>::push_back") and not ar.is_cleanup(bb)]
    bad_pop = [(bb, t) for bb, t in ar.calls() if re.search(r"VecDeque::<T, A>::(pop_back|truncate|clear|drain|remove)$", callee_path(t))]
    if len(pops) != 1 or len(pushes) != 1 or bad_pop:
        ctx.violation(rule, ar.id, "retention shape", "apply_retention must evict with exactly one pop_front and add with exactly one push_back (found pops=%d pushes=%d other=%d)" % (len(pops), len(pushes), len(bad_pop)), site=ar.fn_loc())
        return
    pop_bb, push_bb = pops[0][0], pushes[0][0]

    def field_incr_blocks(field):
        out = []
        for bi, b in enumerate(ar.blocks):
            if b.get("cleanup"):
                continue
            for st in b["s"]:
                if "lhs" in st and place_fields(st["lhs"])[-1:] == [field]:
                    out.append(bi)
        return out
    heads, tails = field_incr_blocks("head"), field_incr_blocks("tail")
    rets = return_blocks(ar)
    # pairing: every path from pop_front to return passes a write of head; from push_back passes a write of tail;
    # and head is written only after pop (dominated by it), tail only after push
    for name, cbb, blocks in (("pop_front/head", pop_bb, heads), ("push_back/tail", push_bb, tails)):
        if blocks and must_pass(ar, [cbb], rets, via_blocks=blocks) and all(dominates(ar, cbb, b) for b in blocks):
            ctx.ok(rule, ar.id, "%s move together" % name, site=ar.loc(ar.blocks[cbb]["t"].get("sp")))
        else:
            ctx.violation(rule, ar.id, "%s pairing" % name, "segments and the %s counter can get out of step (segments.len() == tail - head + 1 would break)" % name.split("/")[1], site=ar.loc(ar.blocks[cbb]["t"].get("sp")))
    # eviction only under the count test, and always followed by the push (never leaves the log shorter/empty)
    guard_ok = False
    for bi, b in enumerate(ar.blocks):
        t = b["t"]
        if t["k"] != "switch" or b.get("cleanup"):
            continue
        l = op_local(t["on"])
        d = single_def(ar, l) if l is not None else None
        if d and d[2] == "assign" and d[3]["rv"]["k"] == "bin" and d[3]["rv"]["op"] in ("Ge", "Gt"):
            sa = flatten_src(provenance(ar, d[3]["rv"]["a"]))
            sb = flatten_src(provenance(ar, d[3]["rv"]["b"]))
            if any(s.kind == "call" and s.path.endswith("memory_segments_count") for s in sa) and any(getattr(s, "fields", None) and s.fields[-1] == "max_mem_segments" for s in sb):
                true_t = t["otherwise"]
                if dominates(ar, true_t, pop_bb):
                    guard_ok = True
    if guard_ok:
        ctx.ok(rule, ar.id, "pop_front only under memory_segments_count() >= max_mem_segments")
    else:
        ctx.violation(rule, ar.id, "eviction guard", "pop_front is not dominated by the `memory_segments_count() >= max_mem_segments` test", site=ar.fn_loc())
    if must_pass(ar, [pop_bb], rets, via_blocks=[push_bb]):
        ctx.ok(rule, ar.id, "every eviction is followed by pushing the new active segment")
    else:
        ctx.violation(rule, ar.id, "eviction without push", "a path pops the oldest segment and returns without pushing a new one (the log could become empty)", site=ar.fn_loc())
    # between the eviction and the push the deque may be EMPTY (max_mem_segments == 1): nothing may look at it there
    window = reachable_after(ar, [pop_bb], avoid_blocks=(push_bb,))
    peeks = [(bb, t) for bb, t in ar.calls() if bb in window and not ar.is_cleanup(bb) and bb != push_bb and
             re.search(r"CommitLog::<T>::(active_segment|active_segment_mut|last|next_offset)$|VecDeque::<T, A>::(back|back_mut|front|front_mut|get|get_mut)$|Index<usize>>::index$|IndexMut<usize>>::index_mut$", callee_path(t))]
    if peeks:
        ctx.violation(rule, ar.id, "segments read while possibly empty",
                      "apply_retention reads the segment queue (%s) after evicting the oldest segment and before pushing the new one: with max_mem_segments == 1 the queue is empty there and the unwrap in active_segment() panics on the append that fills the segment" % callee_path(peeks[0][1]).rsplit("::", 1)[-1],
                      site=ar.loc(peeks[0][1].get("sp")))
    else:
        ctx.ok(rule, ar.id, "nothing reads the segment queue between the eviction and the push of the new segment")
    # the new segment continues at the old active segment's next_offset (contiguity)
    wo = [(bb, t) for bb, t in ar.calls() if callee_path(t).endswith("Segment::<T>::with_offset")]
    if wo:
        srcs = flatten_src(provenance(ar, wo[0][1]["args"][0]))
        if any(s.kind == "call" and s.path.endswith("Segment::<T>::next_offset") for s in srcs):
            ctx.ok(rule, ar.id, "new segment starts at the previous active segment's next_offset")
        else:
            ctx.violation(rule, ar.id, "segment offset", "the new segment's absolute_offset no longer derives from the active segment's next_offset (contiguity)", site=ar.loc(wo[0][1].get("sp")))
    else:
        ctx.anchor_missing(rule, "apply_retention: Segment::with_offset call not found")
    # append applies retention before pushing
    ap = prog.one(r"^segments::CommitLog::<T>::append$")
    rt = [bb for bb, t in ap.calls() if callee_path(t).endswith("apply_retention")]
    ps = [bb for bb, t in ap.calls() if callee_path(t).endswith("Segment::<T>::push")]
    if rt and ps and all(dominates(ap, rt[0], p) for p in ps):
        ctx.ok(rule, ap.id, "apply_retention dominates Segment::push")
    else:
        ctx.violation(rule, ap.id, "retention order", "append() pushes before applying retention", site=ap.fn_loc())
