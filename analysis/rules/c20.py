"""C20 — messages cross protocol versions; every notification can be encoded (DESIGN §4 C20)."""
import re
from ..core import *
from ..panics import panic_scope, panic_entry_shapes, inventory, apply_discharges, check_sites

EXPLANATION = (
    "Static decision on the MIR of /repo's working tree: (R-C20-encode-total) no undischarged may-panic construct is reachable from V4::write, V5::write, "
    "From<Notification> for Option<Packet>, From<Ack> for Packet, Network::write/writev; for every match whose catch-all arm panics, the packet shapes it does not cover "
    "(variant, and Some/None of the properties field) are compared with the shapes the router, links and AckLog can construct (constructibility = aggregate constructions in non-codec code, "
    "following pattern-bound fields back to the variants they came from, skipping arms of variants that are never constructed): constructible ⊆ encodable; "
    "(R-C20-passthrough) the Forward handed to the link carries the stored publish properties (so they survive towards MQTT 5 subscribers) and the publisher's topic alias is cleared before storage; every matching filter's log stores its own clone of the publish and of its properties. "
    "(R-C20-props) the broker's v5 PUBLISH property encoder and decoder use the same identifier and MQTT 5 wire type for each of the publish properties (shared with C04's table rule), and its reader/len() count every variable-length property value once with its 2-byte prefix (shared with R-C04-prop-accounting); "
    "(R-C20-alias) a broker-side topic alias replaces the topic only for wildcard-free filters (or is keyed by the publish topic): one alias, one topic; "
    "R-C20-encode-total also covers the framing of forwarded (qos 0, pkid != 0) publishes: len() and write() agree on the packet-id bytes (shared with R-C04-len-strings). "
    "NOT decided: byte-level equality of topic/payload across versions (value level, see C04).")
ASSUMPTIONS = [
    "packets decoded from the network (constructed inside protocol::v4/v5 codec modules) reach an encoder only through the router paths analysed here (Publish properties are treated as possibly present)",
    "rustc MIR construction and callee resolution are correct; rules/ext_api.json",
]
TECHNIQUE = "static analysis: MIR may-panic inventory + match-exhaustiveness shapes vs. interprocedural constructibility of enum shapes + provenance rule"
LEVEL_TEXT = ("For all notifications at once: every enum shape that non-codec code can construct is covered by a non-panicking encoder arm in both protocol versions; no other panic construct is reachable from the encode path. "
              "Topic/payload byte equality is not decided.")
LEVEL_NOTE = "Trusted: rustc MIR; rules/ext_api.json; audit entries scope C20; constructibility treats any non-literal Option operand as possibly Some (over-approximation)."

ENTRIES = [r"^<protocol::v4::V4 as protocol::Protocol>::write$", r"^<protocol::v5::V5 as protocol::Protocol>::write$",
           r"^router::<impl std::convert::From<router::Notification> for std::option::Option<protocol::Packet>>::from$",
           r"^router::<impl std::convert::From<router::Ack> for protocol::Packet>::from$",
           r"^link::network::Network::<P>::write$", r"^link::network::Network::<P>::writev$"]
CODEC_FN = re.compile(r"^protocol::v[45]::|^<protocol::v[45]::")


class Shapes:
    """which Option shapes (None/Some) a field of an enum variant / struct can have at its
    construction sites outside the codec"""

    def __init__(self, prog):
        self.prog = prog
        self.constructed = set()       # (adt, variant)
        self.sites = {}                # (adt, variant) -> [(body, bb, rv)]
        for body in list(prog.A.values()):
            if CODEC_FN.search(body.id):
                continue
            for bi, b in enumerate(body.blocks):
                if b.get("cleanup"):
                    continue
                for st in b["s"]:
                    if "lhs" in st and st["rv"]["k"] == "agg" and st["rv"].get("ak") == "adt":
                        key = (st["rv"]["adt"], st["rv"]["var"])
                        if body.id == "<%s as std::clone::Clone>::clone" % key[0]:
                            continue    # a clone reproduces an existing shape, it creates none
                        self.sites.setdefault(key, []).append((body, bi, st["rv"]))
        # liveness: a site in an arm of a never-constructed variant is dead; iterate to a fixed point
        # least fixed point: start with nothing constructed (a derived Clone arm for variant V
        # constructs V only if some V already exists)
        live = {k: [] for k in self.sites}
        pending = {k: list(v) for k, v in self.sites.items()}
        changed = True
        while changed:
            changed = False
            constructed = {k for k, v in live.items() if v}
            for k in list(pending):
                rest = []
                for (body, bi, rv) in pending[k]:
                    if self._dead(body, bi, constructed):
                        rest.append((body, bi, rv))
                    else:
                        live[k].append((body, bi, rv))
                        changed = True
                pending[k] = rest
        self.live = live
        self.constructed = {k for k, v in live.items() if v}

    def _dead(self, body, bi, constructed):
        dom = dominators(body)
        if bi not in dom:
            return True
        for s in discr_switches(body):
            sbb, adt, m, otherwise, pl, allv = s
            if adt not in self.prog.adts or sbb not in dom[bi]:
                continue
            for v, tgt in m.items():
                if tgt in dom[bi] and tgt != otherwise and (adt, v) not in constructed:
                    # bi is inside the arm of variant v (arm entry dominates it)
                    preds = [p for p in body.preds()[tgt] if p in dom]
                    if all(p == sbb for p in preds):
                        return True
        return False

    def field_shapes(self, adt, var, idx, depth=0, seen=()):
        """set ⊆ {"None","Some"} for operand idx of constructions of adt::var"""
        key = (adt, var, idx)
        if key in seen or depth > 6:
            return {"None", "Some"}
        out = set()
        sites = self.live.get((adt, var), [])
        for body, bi, rv in sites:
            if idx >= len(rv["ops"]):
                return {"None", "Some"}
            out |= self.operand_shapes(body, rv["ops"][idx], depth, seen + (key,))
        return out

    def operand_shapes(self, body, op, depth, seen):
        out = set()
        for s in flatten_src(provenance(body, op)):
            if s.kind == "agg" and s.adt == "std::option::Option":
                out.add(s.var)
            elif s.kind == "param" or s.kind == "field":
                # pattern-bound field of another enum variant / struct field?
                proj = getattr(s, "proj", None) or []
                r = self._from_projection(body, s, depth, seen)
                out |= r
            else:
                out |= {"None", "Some"}
        if not out:
            out = {"None", "Some"}
        return out

    def _from_projection(self, body, s, depth, seen):
        proj = getattr(s, "proj", None) or []
        # last two projections: Downcast(V), Field(i)  → shape of that variant's field
        ds = [p for p in proj if isinstance(p, dict)]
        if len(ds) >= 2 and "d" in ds[-2] and "f" in ds[-1]:
            # type of the place before the downcast = type of local / param
            ty = body.local_ty(s.l)
            adt = re.sub(r"^&(mut )?", "", ty).split("<")[0]
            if adt in self.prog.adts and ds[-1]["f"].isdigit():
                return self.field_shapes(adt, ds[-2]["d"], int(ds[-1]["f"]), depth + 1, seen)
        if len(ds) >= 1 and "f" in ds[-1] and not ds[-1]["f"].isdigit():
            # struct field: find the struct type of the base and its constructions
            ty = body.local_ty(s.l)
            adt = re.sub(r"^&(mut )?", "", ty).split("<")[0]
            a = self.prog.adts.get(adt)
            if a and a["kind"] == "Struct" and len(ds) == 1:
                names = [f["n"] for f in a["variants"][0]["fields"]]
                if ds[-1]["f"] in names:
                    return self.field_shapes(adt, a["variants"][0]["n"], names.index(ds[-1]["f"]), depth + 1, seen)
        return {"None", "Some"}


def run(ctx):
    prog = ctx.progs["rumqttd"]
    cg = ctx.cg("rumqttd")
    shapes = Shapes(prog)

    def shape_discharge(site):
        """a panicking catch-all arm is fine when no constructible shape reaches it"""
        if site.kind != "never":
            return None
        body = site.body
        entry = panic_entry_shapes(body, site.bb)
        if not entry:
            return None
        problems = []
        for (sbb, adt, pl, missing) in entry:
            if adt is None:
                return None
            if not missing:
                continue
            ds = [p for p in (pl.get("p") or []) if isinstance(p, dict)]
            root_ty = re.sub(r"^&(mut )?", "", body.local_ty(pl["l"])).split("<")[0]
            if adt == "std::option::Option" and len(ds) >= 2 and "d" in ds[-2] and "f" in ds[-1] and ds[-1]["f"].isdigit():
                # nested: (packet as V).i is an Option; which enum is `packet`?
                if root_ty not in prog.adts:
                    problems.append("%s: unknown root type %s" % (missing, root_ty)); continue
                cons = shapes.field_shapes(root_ty, ds[-2]["d"], int(ds[-1]["f"]))
                bad = sorted(set(missing) & cons)
                site.detail += " | %s::%s field %s: encodable misses %s, constructible %s" % (root_ty, ds[-2]["d"], ds[-1]["f"], missing, sorted(cons))
                if bad:
                    problems.append("%s::%s(.., %s, ..) is constructible but not encodable" % (root_ty.rsplit("::", 1)[-1], ds[-2]["d"], "/".join(bad)))
            elif adt in prog.adts and not ds:
                bad = sorted(v for v in missing if (adt, v) in shapes.constructed)
                site.detail += " | %s: match misses %s, constructible among them: %s" % (adt, missing, bad)
                if bad:
                    problems.append("%s::{%s} constructible but not encodable" % (adt.rsplit("::", 1)[-1], ",".join(bad)))
            else:
                return None
        if problems:
            site.detail += " || " + "; ".join(problems)
            return None
        return "unconstructible-shape: every shape missing from the match is never constructed outside the codec"

    entries, reach, sites = panic_scope(ctx, "R-C20-encode-total", "rumqttd", ENTRIES, "C20", "encoder entry points", extra=[shape_discharge])
    ctx.stats["constructed_enum_variants"] = len(shapes.constructed)
    ctx.guarded("R-C20-passthrough", passthrough, ctx, prog)
    ctx.guarded("R-C20-props", publish_props, ctx, prog)
    ctx.guarded("R-C20-encode-total", forwarded_publish_framing, ctx, prog)
    ctx.guarded("R-C20-alias", alias_stands_for_one_topic, ctx, prog)
    ctx.guarded("R-C20-alias", alias_resolved_on_receipt, ctx, prog)


def alias_stands_for_one_topic(ctx, prog):
    """'delivered with the same topic': towards an MQTT 5 subscriber the broker may replace the topic by a topic
    alias.  An alias stands for ONE topic, so when it is looked up / created under the subscription filter, that
    filter must be known to be free of wildcards (or the key must be the publish's own topic)."""
    from .c15 import switch_on_call_result
    rule = "R-C20-alias"
    f = prog.one(r"^router::routing::forward_device_data$")
    bodies = [f] + prog.find(r"^router::routing::forward_device_data::\{closure#\d+\}$")
    n = 0
    for b in bodies:
        wild = switch_on_call_result(b, r"protocol::has_wildcards$")
        for bb, t in b.calls():
            if b.is_cleanup(bb) or not re.search(r"BrokerAliases::(get_alias|set_new_alias)$", callee_path(t)):
                continue
            n += 1
            key = flatten_src(provenance(b, t["args"][1], through_calls=[r"Deref>::deref$", r"String::as_str$", r"from_utf8", r"Result::<T, E>::unwrap"]))
            key = [x for x in key if not (x.kind == "call" and re.search(r"Deref>::deref$|String::as_str$", x.path))]
            by_filter = any(getattr(x, "fields", None) and x.fields[-1].split(".")[-1].lstrip("^*") == "filter" for x in key)
            by_topic = bool(key) and all(getattr(x, "fields", None) and "topic" in [y.split(".")[-1].lstrip("^*") for y in x.fields] for x in key)
            guarded = False
            # the call sits in a closure passed to and_then: judge the enclosing call site in the parent instead
            sites = [(b, bb)]
            if b.kind == "Closure":
                sites = [(f, pbb) for pbb, pt in f.calls() if any(y.kind == "agg" and getattr(y, "adt", None) == b.id for a in pt["args"] for y in flatten_src(provenance(f, a)))]
            for (sb, sbb) in sites:
                for w in switch_on_call_result(sb, r"protocol::has_wildcards$"):
                    arg = flatten_src(provenance(sb, sb.blocks[w[3]]["t"]["args"][0], through_calls=[r"Deref>::deref$", r"String::as_str$"]))
                    if any(getattr(x, "fields", None) and x.fields[-1].split(".")[-1].lstrip("^*") == "filter" for x in arg) and dominates(sb, w[2], sbb):
                        guarded = True
            what = callee_path(t).rsplit("::", 1)[-1]
            if by_topic or guarded:
                ctx.ok(rule, b.id, "%s: the alias key is %s" % (what, "the publish's own topic" if by_topic else "the filter, known to have no wildcards"), site=b.loc(t.get("sp")))
            elif by_filter:
                ctx.violation(rule, b.id, "alias per filter (%s)" % what,
                              "the topic alias towards the subscriber is looked up / created under the subscription FILTER without excluding wildcard filters: one alias then stands for every topic the filter matches, later batches are sent with the alias only, and a message published on a/c reaches an `a/+` subscriber as a message on a/b",
                              site=b.loc(t.get("sp")))
            else:
                ctx.violation(rule, b.id, "alias key (%s)" % what, "the key of the broker-side topic alias is neither the publish topic nor a wildcard-free filter (%s)" % [(x.kind, getattr(x, "fields", None)) for x in key], site=b.loc(t.get("sp")))
    ctx.floor(rule, "broker alias lookups / creations in forward_device_data", n, 2)


class _PublishOnly:
    """view of a Ctx that re-labels C04's property-table verdicts and keeps those about the broker's v5 PUBLISH codec"""
    def __init__(self, ctx, rule):
        self.ctx, self.rule, self.kept = ctx, rule, 0

    def _keep(self, fn):
        return fn.startswith("protocol::v5::publish::") or fn.endswith("PropertyType") or fn.endswith("::property")

    def ok(self, rule, fn, instance, **kw):
        if self._keep(fn):
            self.kept += 1
            self.ctx.ok(self.rule, fn, instance, **kw)

    def violation(self, rule, fn, instance, what, **kw):
        if self._keep(fn):
            self.ctx.violation(self.rule, fn, instance, what, **kw)

    def floor(self, rule, what, count, minimum):
        self.ctx.floor(self.rule, what, count, minimum)

    def anchor_missing(self, rule, what):
        self.ctx.anchor_missing(self.rule, what)


def publish_props(ctx, prog):
    """properties survive towards MQTT 5 subscribers only if the v5 PUBLISH encoder writes every property
    under the identifier and wire type its decoder (and the client's) reads it with"""
    import json, os
    from . import c04
    spec = json.load(open(os.path.join(c04.RULES_DIR, "mqtt5_properties.json")))
    view = _PublishOnly(ctx, "R-C20-props")
    c04.prop_tables(view, prog, "rumqttd-v5", c04.COPIES["rumqttd-v5"][1], {r["id"]: r for r in spec})
    # ... and parses them back without losing count of the property bytes (a publish arriving on the v5 listener
    # must be decoded intact before it can cross to either protocol version)
    c04.prop_accounting(view, prog, "rumqttd-v5", c04.COPIES["rumqttd-v5"][1])
    c04.prop_len_accounting(view, prog, "rumqttd-v5", c04.COPIES["rumqttd-v5"][1])
    ctx.floor("R-C20-props", "verdicts about protocol::v5::publish properties", view.kept, 8)


def passthrough(ctx, prog):
    rule = "R-C20-passthrough"
    # the closure building `Forward` in forward_device_data
    found = 0
    for body in prog.find(r"^router::routing::forward_device_data::\{closure#\d+\}$"):
        for bi, b in enumerate(body.blocks):
            for st in b["s"]:
                if "lhs" in st and st["rv"]["k"] == "agg" and st["rv"].get("adt", "").endswith("router::Forward"):
                    found += 1
                    i = st["rv"]["fields"].index("properties")
                    srcs = flatten_src(provenance(body, st["rv"]["ops"][i], through_calls=[r"unwrap_or_default$"]))

                    def expand(leaves, depth=0):
                        out = []
                        for x in leaves:
                            if x.kind == "agg" and getattr(x, "var", None) == "Some" and depth < 4:
                                out += expand(flatten_src(provenance(body, x.rv["ops"][0], through_calls=[r"unwrap_or_default$"])), depth + 1)
                            else:
                                out.append(x)
                        return out
                    leaves = expand(srcs)
                    fresh = [x for x in leaves if x.kind == "agg" and getattr(x, "adt", "").endswith("PublishProperties")]
                    from_param = any(s.kind == "param" and s.l == 2 for s in leaves) and not fresh
                    if fresh:
                        ctx.violation(rule, body.id, "Forward.properties rebuilt",
                                      "on some path the properties handed to the subscriber are a freshly built PublishProperties instead of the stored ones (extended in place): the publisher's MQTT 5 properties are dropped for subscribers that take that path (e.g. those with a subscription identifier)",
                                      site=body.loc(st.get("sp")))
                    elif from_param:
                        ctx.ok(rule, body.id, "Forward.properties derives from the stored publish properties", site=body.loc(st.get("sp")))
                    else:
                        ctx.violation(rule, body.id, "Forward.properties",
                                      "the properties forwarded to subscribers no longer derive from the stored publish (provenance: %s)" % srcs,
                                      site=body.loc(st.get("sp")))
    ctx.floor(rule, "Forward constructions in forward_device_data", found, 1)
    # topic alias of the publisher is cleared before the publish is stored
    body = prog.one(r"^router::routing::append_to_commitlog$")
    takes = []
    for cb in [body] + prog.find(r"^router::routing::append_to_commitlog::\{closure#\d+\}$"):
        for bb, t in cb.calls():
            if re.search(r"Option::<T>::take$", callee_path(t)):
                fs = receiver_fields(cb, t)
                if fs and fs[-1] == "topic_alias":
                    takes.append((cb, bb))
    appends = [bb for bb, t in body.calls() if re.search(r"router::logs::Data::<T>::append$", callee_path(t)) and not body.is_cleanup(bb)]
    ctx.floor(rule, "Data::append calls in append_to_commitlog", len(appends), 1)
    # every matching filter's log gets its own COPY of the publish and of its properties (the append sits in a loop
    # over the matching filters: a moved / taken value would reach the first log only)
    for ab in appends:
        t = body.blocks[ab]["t"]
        okc = False
        detail = []
        for s_ in flatten_src(provenance(body, t["args"][1], through_calls=[r"convert::Into<.*>>::into$", r"convert::From<.*>>::from$"])):
            if s_.kind != "agg" or len(s_.rv.get("ops", [])) != 2:
                continue
            parts = []
            for o in s_.rv["ops"]:
                src = flatten_src(provenance(body, o))
                cl = [x for x in src if x.kind == "call" and x.path.endswith("Clone>::clone")]
                if src and len(cl) == len(src):
                    args = [y for x in cl for y in flatten_src(provenance(body, x.term["args"][0]))]
                    parts.append(sorted(set("param%d" % y.l if y.kind == "param" else y.kind + ":" + str(getattr(y, "path", "")) for y in args)))
                else:
                    parts.append(sorted(set(x.kind + ":" + str(getattr(x, "path", "")) for x in src)))
            detail = parts
            if parts == [["param2"], ["param3"]]:
                okc = True
        if okc:
            ctx.ok(rule, body.id, "each matching filter's log stores (publish.clone(), properties.clone())", site=body.loc(t.get("sp")))
        else:
            ctx.violation(rule, body.id, "stored copy",
                          "the value appended to each matching filter's log is not (clone of the publish, clone of its properties) — found %s: with several matching filters only the first log keeps the MQTT 5 properties" % detail,
                          site=body.loc(t.get("sp")))
    if not takes:
        ctx.violation(rule, body.id, "topic alias not cleared", "the publisher's topic_alias property is no longer taken out before the publish is stored", site=body.fn_loc())
        return
    # the closure with the take() is passed to and_then on `properties.as_mut()` before any append
    cl = takes[0][0]
    user = None
    for bb, t in body.calls():
        for a in t["args"]:
            for s in flatten_src(provenance(body, a)):
                if s.kind == "agg" and s.adt == cl.id:
                    user = bb
    if cl is body:
        user = takes[0][1]
    if user is not None and all(dominates(body, user, a) for a in appends):
        ctx.ok(rule, body.id, "topic_alias.take() dominates every Data::append", site=body.loc(body.blocks[user]["t"].get("sp")))
    else:
        ctx.violation(rule, body.id, "topic alias cleared too late", "a path stores the publish before its topic_alias property is cleared", site=body.fn_loc())


def alias_resolved_on_receipt(ctx, prog):
    """'with the same topic': a publisher's topic alias denotes the topic it was mapped to when the PUBLISH was
    RECEIVED. QoS 0/1 publishes go straight to append_to_commitlog, which resolves it; a QoS 2 publish is parked in the
    AckLog until its PUBREL — its alias has to be resolved (validate_and_set_topic_alias) before it is parked, not when the
    release arrives and the alias may have been re-pointed."""
    rule = "R-C20-alias"
    body = prog.one(r"^router::routing::Router::handle_device_payload$")
    parks = [bb for bb, t in body.calls() if callee_path(t).endswith("AckLog::pubrec") and not body.is_cleanup(bb)]
    if len(parks) != 1:
        raise AnchorMissing("handle_device_payload: expected one AckLog::pubrec call (QoS 2 publish parked), found %d" % len(parks))
    resolves = [bb for bb, t in body.calls() if callee_path(t).endswith("routing::validate_and_set_topic_alias") and not body.is_cleanup(bb)]
    # the resolution must lie on the way INTO the park call within the same iteration: it dominates nothing else
    # than what follows it, so ask that some resolve call reaches the park without passing the packet switch again
    from .c06 import packet_switch
    sw0 = packet_switch(body)
    same_iter = [bb for bb in resolves if parks[0] in reachable(body, (bb,), avoid_blocks=(sw0[0],))]
    # ... and what is resolved is the alias the publisher sent: `properties.topic_alias.take()` (taken, so that the
    # release does not resolve it a second time)
    def from_props(bb):
        t = body.blocks[bb]["t"]
        for x in flatten_src(provenance(body, t["args"][2], through_calls=[r"Option::<T>::and_then$", r"Option::<T>::as_mut$"])):
            if x.kind == "call" and re.search(r"Option::<T>::(take|and_then)$", x.path):
                return True
            if getattr(x, "fields", None) and x.fields[-1] == "topic_alias":
                return True
        return False
    same_iter = [bb for bb in same_iter if from_props(bb)]
    if same_iter:
        ctx.ok(rule, body.id, "a QoS 2 publish's topic alias is resolved before the publish is parked for its release", site=body.loc(body.blocks[same_iter[0]]["t"].get("sp")))
    else:
        ctx.violation(rule, body.id, "QoS 2 alias resolved at release time",
                      "a QoS 2 PUBLISH is parked (AckLog::pubrec) with its topic alias unresolved; append_to_commitlog resolves it when the PUBREL arrives: if the publisher re-points the alias in between, the message is delivered under the wrong topic "
                      "(and an alias the QoS 2 publish itself establishes does not exist for the publishes that follow it)", site=body.loc(body.blocks[parks[0]]["t"].get("sp")))


def forwarded_publish_framing(ctx, prog):
    """A forward keeps the publisher's packet id and takes the SUBSCRIPTION's QoS: the broker's PUBLISH encoders are
    fed (qos 0, pkid != 0) values no decoder ever produces. len() and write() must agree on them (shared with R-C04-len-strings)."""
    from . import c04
    from .common import Relabel
    view = Relabel(ctx, "R-C20-encode-total", lambda fn, inst: True)
    c04.publish_len_pkid(view, "R-C04-len-strings", prog)
    ctx.floor("R-C20-encode-total", "verdicts about PUBLISH len() vs write() on forwarded values", view.kept, 2)
