"""C16 — last will is published exactly when a connection ends without DISCONNECT (DESIGN §4 C16)."""
import re
from ..core import *
from .c06 import packet_switch, region_of_arm, const_assign_blocks

EXPLANATION = (
    "Static decision on the MIR of /repo's working tree: (R-C16-register) Router.last_wills is inserted only in handle_new_connection from connection.last_will.take(), removed only in the Packet::Disconnect arm "
    "and in handle_last_will; handle_last_will publishes exactly the removed entry (topic, payload, retain, qos come from it), so a will can fire at most once per registration; "
    "(R-C16-fire) in server::broker::remote every path after RemoteLink::new succeeded reaches the will wait (timeout on will_rx), Event::PublishWill is sent only under publish_will, "
    "and Event::Disconnect is sent unless the link ended with remote::Error::Link (router-initiated). "
    "(R-C16-wake) after appending the will, handle_last_will drains every parked waiter and reschedules it (shared with R-C01-wake); "
    "(R-C16-fields) the Publish / PublishProperties built in handle_last_will take each field from the like-meaning field of the registered will and its properties; "
    "(R-C16-key) the keys agree: every link's Incoming and Outgoing buffers are created with Connection::new(..).client_id (tenant prefix included), and the will table is keyed by those client_id fields; "
    "the previous connection's will decider is signalled only after RemoteLink::new succeeded, a will is stored only on paths that register the connection, and every admitted connect must decide the will its predecessor left under the client id (today it does not: known finding F46); "
    "RemoteLink::new has no error exit after LinkBuilder::build registered the connection unless Event::Disconnect is sent first; "
    "(R-C16-handover) in RemoteLink::start every path from filling the buffer shared with the router (push_back through the LinkTx::buffer guard, Network::readv) to the end of the link passes LinkTx::notify; "
    "(R-C16-registry) in broker::remote nothing that can panic runs while the shared will-decider table is locked (region between each MutexGuard's definition and its drop), and the decider a task registers is removed or waited on on every path to the end of the task; "
    "R-C16-fire also demands that broker::remote reports Event::Disconnect and Event::PublishWill with a blocking send (a discarded try_send loses the report when the router queue is full). "
    "NOT decided: ordering of PublishWill against Disconnect processing in the router channel; delay timing.")
ASSUMPTIONS = ["rustc MIR construction is correct"]
TECHNIQUE = "static analysis: who-may-write on the will table, provenance of the published will, must-pass / control-dependence rules in the connection task's async body (pre-lowering MIR)"
LEVEL_TEXT = "Decides who registers/cancels/fires wills and that the connection task always reaches the will decision after a started link; channel ordering and timing are not decided."
LEVEL_NOTE = "Trusted: rustc MIR (A-view of the async body, before coroutine lowering)."


def run(ctx):
    prog = ctx.progs["rumqttd"]
    ctx.guarded("R-C16-register", register, ctx, prog)
    ctx.guarded("R-C16-fire", fire, ctx, prog)
    ctx.guarded("R-C16-key", key_agreement, ctx, prog)
    ctx.guarded("R-C16-wake", will_wakes_subscribers, ctx, prog)
    ctx.guarded("R-C16-fields", will_fields, ctx, prog)
    ctx.guarded("R-C16-registry", registry, ctx, prog)
    ctx.guarded("R-C16-fire", registered_then_reported, ctx, prog)
    ctx.guarded("R-C16-handover", handover, ctx, prog)
    ctx.guarded("R-C16-fire", decided_by_admitted, ctx, prog)
    ctx.guarded("R-C16-fire", end_reports_cannot_be_dropped, ctx, prog)


def will_wakes_subscribers(ctx, prog):
    """'publishes the will to the current matching subscribers': after the will is appended, handle_last_will drains
    ALL parked waiters of the logs it appended to and reschedules each (shared with R-C01-wake)"""
    from . import c01
    from .common import Relabel
    view = Relabel(ctx, "R-C16-wake", lambda fn, inst: "handle_last_will" in fn)
    c01.wake(view, prog)
    ctx.floor("R-C16-wake", "verdicts about handle_last_will's notification drain", view.kept, 2)


def register(ctx, prog):
    rule = "R-C16-register"
    n = 0
    hdp = prog.one(r"^router::routing::Router::handle_device_payload$")
    for body in prog.A.values():
        for bb, t in body.calls():
            if body.is_cleanup(bb):
                continue
            fs = receiver_fields(body, t)
            if not fs or fs[-1] != "last_wills":
                continue
            name = callee_path(t).rsplit("::", 1)[-1]
            if name in ("insert", "entry", "extend"):
                n += 1
                if body.id.endswith("Router::handle_new_connection"):
                    src = flatten_src(provenance(body, t["args"][2]))
                    if any(s.kind == "call" and s.path.endswith("Option::<T>::take") for s in src) or any(s.kind == "agg" for s in src):
                        ctx.ok(rule, body.id, "last_wills.insert from connection.last_will.take()", site=body.loc(t.get("sp")))
                    else:
                        ctx.violation(rule, body.id, "will source", "the registered will does not come from the connecting client's last_will", site=body.loc(t.get("sp")))
                    # ... and only for a connection that IS registered: no refusal (connection limit, bad client id)
                    # lies between storing the will and Slab::insert of the connection
                    regs = [b2 for b2, t2 in body.calls() if re.search(r"^slab::Slab::<T>::insert$", callee_path(t2)) and not body.is_cleanup(b2)]
                    if not regs:
                        raise AnchorMissing("handle_new_connection: registration of the connection (Slab::insert) not found")
                    if reachable_after(body, [bb], avoid_blocks=tuple(regs)) & set(return_blocks(body)):
                        ctx.violation(rule, body.id, "will stored for a refused connect",
                                      "a path stores the connecting client's will in last_wills and then refuses the connection (returns without registering it): nothing ever removes that entry, and the next connection of the client id — with or without a will of its own — inherits it",
                                      site=body.loc(t.get("sp")))
                    else:
                        ctx.ok(rule, body.id, "every path from last_wills.insert registers the connection", site=body.loc(t.get("sp")))
                else:
                    ctx.violation(rule, body.id, "last_wills." + name, "a will is registered outside handle_new_connection", site=body.loc(t.get("sp")))
            elif name in ("remove", "clear", "retain", "drain", "remove_entry"):
                n += 1
                if body.id.endswith("Router::handle_last_will"):
                    ctx.ok(rule, body.id, "last_wills.remove in handle_last_will", site=body.loc(t.get("sp")))
                elif body.id == hdp.id:
                    sw = packet_switch(body)
                    dom = dominators(body)
                    tgt = sw[2].get("Disconnect")
                    if tgt is not None and tgt in dom.get(bb, ()):
                        ctx.ok(rule, body.id, "last_wills.remove in the Packet::Disconnect arm", site=body.loc(t.get("sp")))
                    else:
                        ctx.violation(rule, body.id, "will cancelled", "the will is removed outside the DISCONNECT arm", site=body.loc(t.get("sp")))
                else:
                    ctx.violation(rule, body.id, "last_wills." + name, "the will table is modified from an unexpected function", site=body.loc(t.get("sp")))
    ctx.floor(rule, "last_wills mutations", n, 3)
    # whose will is it?  last_wills is keyed by client id and Event::PublishWill names a client id only, so the entry
    # must always belong to the client's LATEST connection: an admitted connect has to decide (publish or remove) what
    # its predecessor left there before it stores — or does not store — its own.  Otherwise the task of an older
    # connection (still waiting for a decision on a will the router may long have discarded) publishes the new
    # connection's will while that connection is alive, or a connection without a will inherits its predecessor's.
    hnc = prog.one(r"^router::routing::Router::handle_new_connection$")
    regs = [b2 for b2, t2 in hnc.calls() if re.search(r"^slab::Slab::<T>::insert$", callee_path(t2)) and not hnc.is_cleanup(b2)]
    decides = [b2 for b2, t2 in hnc.calls() if not hnc.is_cleanup(b2) and (
        callee_path(t2).endswith("Router::handle_last_will")
        or ((receiver_fields(hnc, t2) or [None])[-1] == "last_wills" and callee_path(t2).rsplit("::", 1)[-1] in ("remove", "remove_entry")))]
    if not regs:
        raise AnchorMissing("handle_new_connection: registration of the connection (Slab::insert) not found")
    if decides and must_pass(hnc, [0], regs, via_blocks=set(decides), include_from=True):
        ctx.ok(rule, hnc.id, "every admitted connect decides the will its predecessor left under the client id", site=hnc.fn_loc())
    else:
        ctx.violation(rule, hnc.id, "predecessor's will not decided at admission",
                      "handle_new_connection registers a connection without publishing or removing the will still stored under its client id, and Event::PublishWill is addressed by client id only: "
                      "the task of an earlier connection (which keeps waiting for a decision even after the client's DISCONNECT discarded its will) publishes the NEW connection's will while that connection is alive, "
                      "and a connection without a will inherits its predecessor's", site=hnc.fn_loc())
    # the Disconnect arm cancels the will
    sw = packet_switch(hdp)
    dom = dominators(hdp)
    tgt = sw[2].get("Disconnect")
    rem = [bb for bb, t in hdp.calls() if (receiver_fields(hdp, t) or [None])[-1] == "last_wills" and callee_path(t).endswith("::remove")]
    if tgt is not None and rem and all(tgt in dom.get(r, ()) for r in rem):
        # every path through the arm passes the removal
        after = reachable_after(hdp, [sw[0]])
        heads = [d for d in dom[sw[0]] if d in after]
        loop_head = max(heads, key=lambda x: len(dom[x]))
        region = region_of_arm(hdp, tgt, loop_head)
        exits = {s for b in region for s in live_succ(hdp, b) if s not in region}
        if not (reachable(hdp, (tgt,), avoid_blocks=rem) & exits):
            ctx.ok(rule, hdp.id, "every path through the DISCONNECT arm removes the client's will")
        else:
            ctx.violation(rule, hdp.id, "DISCONNECT without cancel", "a path through the DISCONNECT arm leaves the will registered: it would be published after a clean disconnect", site=hdp.loc(hdp.blocks[tgt]["t"].get("sp")))
    else:
        ctx.violation(rule, hdp.id, "DISCONNECT does not cancel the will", "the Packet::Disconnect arm no longer removes the client's will", site=hdp.fn_loc())
    # handle_last_will publishes the removed entry
    lw = prog.one(r"^router::routing::Router::handle_last_will$")
    n = 0
    for b in lw.blocks:
        for st in b["s"]:
            if "lhs" in st and st["rv"]["k"] == "agg" and st["rv"].get("adt") == "protocol::Publish":
                n += 1
                f = st["rv"]["fields"]
                bad = []
                for name in ("topic", "payload", "retain", "qos"):
                    src = flatten_src(provenance(lw, st["rv"]["ops"][f.index(name)]))
                    if not (src and all(s.kind == "call" and s.path.endswith("::remove") for s in src)):
                        bad.append(name)
                if bad:
                    ctx.violation(rule, lw.id, "will content", "the published will's %s do not come from the removed registration" % bad, site=lw.loc(st.get("sp")))
                else:
                    ctx.ok(rule, lw.id, "published will = the removed registration (topic, payload, retain, qos)", site=lw.loc(st.get("sp")))
    ctx.floor(rule, "Publish constructions in handle_last_will", n, 1)
    app = [bb for bb, t in lw.calls() if callee_path(t).endswith("routing::append_will_message")]
    rm = [bb for bb, t in lw.calls() if (receiver_fields(lw, t) or [None])[-1] == "last_wills"]
    if app and rm and all(dominates(lw, rm[0], a) for a in app):
        ctx.ok(rule, lw.id, "append_will_message only after the entry was removed (fires once)")
    else:
        ctx.violation(rule, lw.id, "fire without remove", "the will can be appended without first removing it from last_wills", site=lw.fn_loc())


def fire(ctx, prog):
    rule = "R-C16-fire"
    body = prog.one(r"^server::broker::remote::\{closure#0\}$")
    news = [bb for bb, t in body.calls() if callee_path(t).endswith("RemoteLink::<P>::new") and not body.is_cleanup(bb)]
    starts = [bb for bb, t in body.calls() if callee_path(t).endswith("RemoteLink::<P>::start") and not body.is_cleanup(bb)]
    timeouts = [bb for bb, t in body.calls() if re.search(r"tokio::time::timeout$", callee_path(t)) and not body.is_cleanup(bb)
                and any(s.kind == "call" and s.path.endswith("recv_async") for s in flatten_src(provenance(body, t["args"][1])))]
    if not news or not starts or not timeouts:
        raise AnchorMissing("broker::remote: RemoteLink::new/start or the will wait (timeout(.., will_rx.recv_async())) not found (%d/%d/%d)" % (len(news), len(starts), len(timeouts)))
    rets = return_blocks(body)
    if must_pass(body, starts, rets, via_blocks=timeouts):
        ctx.ok(rule, body.id, "every path from link.start() to the end of the task reaches the will wait")
    else:
        p = find_path(body, starts, rets, avoid_blocks=timeouts)
        ctx.violation(rule, body.id, "will wait skipped", "after the link started, a path ends the connection task without waiting on / deciding the will: an abnormal disconnect would not publish it",
                      site=body.fn_loc(), path=path_lines(body, p) if p else None)
    # PublishWill only under publish_will
    dom = dominators(body)
    n = 0
    for bi, b in enumerate(body.blocks):
        if b.get("cleanup"):
            continue
        for st in b["s"]:
            if "lhs" in st and st["rv"]["k"] == "agg" and st["rv"].get("adt") == "router::Event":
                var = st["rv"]["var"]
                if var == "PublishWill":
                    n += 1
                    guarded = False
                    for d in dom.get(bi, ()):
                        bt = body.blocks[d]["t"]
                        if bt["k"] == "switch" and bt["otherwise"] in dom[bi] and bt["otherwise"] != d:
                            l = op_local(bt["on"])
                            hops = 0
                            while l is not None and hops < 4:
                                dd = single_def(body, l)
                                if dd and dd[2] == "assign" and dd[3]["rv"]["k"] == "use" and op_local(dd[3]["rv"]["a"]) is not None:
                                    l = op_local(dd[3]["rv"]["a"]); hops += 1
                                else:
                                    break
                            if l is not None and body.local_ty(l) == "bool" and any(t2 in dom.get(d, ()) for t2 in timeouts):
                                guarded = True
                    if guarded:
                        ctx.ok(rule, body.id, "Event::PublishWill is sent only on the true edge of the will decision", site=body.loc(st.get("sp")))
                    else:
                        ctx.violation(rule, body.id, "unconditional PublishWill", "Event::PublishWill is sent without testing the will decision (publish_will)", site=body.loc(st.get("sp")))
                elif var == "Disconnect":
                    n += 1
    ctx.floor(rule, "PublishWill / Disconnect events built in broker::remote", n, 2)
    # send_disconnect: set false only under remote::Error::Link
    flags = [l for l in range(len(body.locals)) if body.local_ty(l) == "bool" and const_assign_blocks(body, l, 1) and const_assign_blocks(body, l, 0) and body.local_name(l)]
    okf = False
    for l in flags:
        falses = const_assign_blocks(body, l, 0)
        for s in discr_switches(body, r"link::remote::Error$"):
            tgt = s[2].get("Link")
            if tgt is not None and all(tgt in dom.get(fb, ()) for fb in falses):
                # and the Disconnect event is guarded by this flag
                okf = True
    if okf:
        ctx.ok(rule, body.id, "Event::Disconnect is suppressed only when the link ended with remote::Error::Link")
    else:
        ctx.violation(rule, body.id, "disconnect suppression", "the flag that suppresses Event::Disconnect is cleared outside the remote::Error::Link arm", site=body.fn_loc())


def key_agreement(ctx, prog):
    """The will is registered under outgoing.client_id (handle_new_connection), cancelled under
    incoming.client_id (DISCONNECT arm) and fired under the id the connection task sends with PublishWill.
    These agree only if a link's Incoming and Outgoing buffers are both created with the connection's effective
    client id (tenant prefix included): Incoming::new(x) / Outgoing::new(y) take x, y = Connection::new(..).client_id."""
    rule = "R-C16-key"
    n = 0
    for body in prog.A.values():
        sites = [(bb, t) for bb, t in body.calls() if re.search(r"router::iobufs::(Incoming|Outgoing)::new$", callee_path(t)) and not body.is_cleanup(bb)]
        if not sites:
            continue
        for bb, t in sites:
            n += 1
            src = [x for x in flatten_src(provenance(body, t["args"][0], through_calls=[r"ToOwned>::to_owned$", r"Clone>::clone$"]))
                   if not (x.kind == "call" and re.search(r"ToOwned>::to_owned$|Clone>::clone$", x.path))]
            what = callee_path(t).rsplit("::", 2)[-2]
            if src and all(x.kind == "call" and x.path.endswith("connection::Connection::new") and x.fields[-1:] == ["client_id"] for x in src):
                ctx.ok(rule, body.id, "%s::new is given the connection's effective client id (Connection::new(..).client_id)" % what, site=body.loc(t.get("sp")))
            else:
                ctx.violation(rule, body.id, "%s buffer id" % what,
                              "%s::new is created with an id that is not Connection::new(..).client_id: for tenant connections the will is then registered, cancelled and fired under different keys (a clean DISCONNECT no longer cancels it)" % what,
                              site=body.loc(t.get("sp")))
    ctx.floor(rule, "Incoming::new / Outgoing::new call sites", n, 2)
    # the three users of the key read it from those buffers / the connection
    hn = prog.one(r"^router::routing::Router::handle_new_connection$")
    hd = prog.one(r"^router::routing::Router::handle_device_payload$")
    for body, method, want in ((hn, "insert", "outgoing"), (hd, "remove", "incoming")):
        found = False
        for bb, t in body.calls():
            if body.is_cleanup(bb) or not callee_path(t).endswith("HashMap::<K, V, S, A>::" + method):
                continue
            fs = [x.split(".")[-1] for x in (receiver_fields(body, t) or [])]
            if fs[-1:] != ["last_wills"]:
                continue
            found = True
            src = [x for x in flatten_src(provenance(body, t["args"][1], through_calls=[r"Clone>::clone$"])) if not (x.kind == "call" and x.path.endswith("Clone>::clone"))]
            okk = bool(src) and all(getattr(x, "fields", None) and x.fields[-1] == "client_id" for x in src)
            if okk:
                ctx.ok(rule, body.id, "last_wills.%s is keyed by a client_id field (%s buffer)" % (method, want), site=body.loc(t.get("sp")))
            else:
                ctx.violation(rule, body.id, "last_wills.%s key" % method, "the will table is accessed with a key that is not a client_id field", site=body.loc(t.get("sp")))
        if not found:
            ctx.anchor_missing(rule, "last_wills.%s in %s" % (method, body.id))


WILL_PUBLISH_FIELDS = {"qos": "qos", "retain": "retain", "topic": "topic", "payload": "message"}


def will_fields(ctx, prog):
    """'publishes the will message (topic, payload, retain as registered)': the Publish and the PublishProperties built
    in handle_last_will take each field from the like-meaning field of the registered will / will properties."""
    rule = "R-C16-fields"
    bodies = [prog.one(r"^router::routing::Router::handle_last_will$")] + prog.find(r"^router::routing::Router::handle_last_will::\{closure#\d+\}$")
    seen_pub = seen_props = 0
    for b in bodies:
        for blk in b.blocks:
            for st in blk["s"]:
                if "lhs" not in st or st["rv"]["k"] != "agg" or not st["rv"].get("fields"):
                    continue
                adt = st["rv"].get("adt", "")
                if adt.endswith("protocol::Publish"):
                    seen_pub += 1
                    for f, wf in WILL_PUBLISH_FIELDS.items():
                        src = flatten_src(provenance(b, st["rv"]["ops"][st["rv"]["fields"].index(f)]))
                        names = sorted(set((x.fields or ["?"])[-1] if getattr(x, "fields", None) else x.kind for x in src))
                        if names == [wf]:
                            ctx.ok(rule, b.id, "Publish.%s = will.%s" % (f, wf), site=b.loc(st.get("sp")), trivial=True)
                        else:
                            ctx.violation(rule, b.id, "Publish.%s source" % f, "the published will's %s is taken from %s instead of the registered will's %s" % (f, names, wf), site=b.loc(st.get("sp")))
                elif adt.endswith("protocol::PublishProperties"):
                    seen_props += 1
                    for f, o in zip(st["rv"]["fields"], st["rv"]["ops"]):
                        src = flatten_src(provenance(b, o))
                        from_props = [x for x in src if getattr(x, "fields", None) and x.kind in ("param", "field", "call")]
                        names = sorted(set(x.fields[-1] for x in from_props))
                        if not names:
                            continue      # ..Default::default() / constants
                        if names == [f]:
                            ctx.ok(rule, b.id, "PublishProperties.%s = will properties.%s" % (f, f), site=b.loc(st.get("sp")), trivial=True)
                        else:
                            ctx.violation(rule, b.id, "PublishProperties.%s source" % f,
                                          "the published will's property `%s` is copied from the will properties' `%s`: e.g. a Will Delay Interval of 0 becomes a message expiry of 0 and the will is never delivered" % (f, "/".join(names)),
                                          site=b.loc(st.get("sp")))
    ctx.floor(rule, "Publish built from the registered will", seen_pub, 1)
    ctx.floor(rule, "PublishProperties built from the will properties", seen_props, 1)
    ctx.ok(rule, bodies[0].id, "the will's Publish and PublishProperties take every field from the like-named field of the registration")


PANICKY = r"(Result|Option)::<[^>]*>::(unwrap|expect|unwrap_err|expect_err)$|panicking::|::unwrap_failed$|::expect_failed$|begin_panic|Index(Mut)?<.*>>::index(_mut)?$"


def registry(ctx, prog):
    """The table of will deciders (Server.awaiting_will_handler, a Mutex<HashMap<client id, Sender>>) is shared by the
    tasks of ALL connections. (a) Nothing that can panic may run while its lock is held: a panic there poisons the
    mutex, every later `lock().unwrap()` panics too, and no connection after that is admitted or gets its will decided.
    (b) A decider a task registered is taken out again on every path on which the task ends without waiting for the
    decision: what stays behind is a sender whose receiver is gone, and the next connection of that client id signals
    into it."""
    rule = "R-C16-registry"
    body = prog.one(r"^server::broker::remote::\{closure#0\}$")
    guards = {}
    for bb, t in body.calls():
        if body.is_cleanup(bb):
            continue
        dl = t["dest"]["l"]
        ty = body.local_ty(dl)
        if ty.startswith("std::sync::MutexGuard<") and "AwaitingWill" in ty:
            guards[dl] = bb
    ctx.floor(rule, "critical sections of the will-decider table in broker::remote", len(guards), 3)
    for g, bb in sorted(guards.items()):
        drops = [i for i, b in enumerate(body.blocks) if b["t"]["k"] == "drop" and not b.get("cleanup") and b["t"]["pl"]["l"] == g and not b["t"]["pl"].get("p")]
        if not drops:
            raise AnchorMissing("broker::remote: the MutexGuard _%d of the will-decider table is never dropped on a normal path" % g)
        region = reachable_after(body, [bb], avoid_blocks=tuple(drops))
        bad = []
        for b2, t2 in body.calls():
            if b2 in region and not body.is_cleanup(b2) and re.search(PANICKY, callee_path(t2)):
                bad.append((b2, t2, callee_path(t2)))
        for b2 in region:
            if body.blocks[b2]["t"]["k"] == "assert" and not body.blocks[b2].get("cleanup"):
                bad.append((b2, body.blocks[b2]["t"], "assert"))
        site = body.loc(body.blocks[bb]["t"].get("sp"))
        if not bad:
            ctx.ok(rule, body.id, "nothing that can panic runs while the will-decider table is locked (%d blocks)" % len(region), site=site)
        for b2, t2, what in bad:
            recv = ""
            if t2.get("args"):
                srcs = flatten_src(provenance(body, t2["args"][0]))
                recv = ",".join(sorted({s.path.rsplit("::", 1)[-1] for s in srcs if s.kind == "call"}))
            short = re.sub(r"::<[^>]*>", "", what).rsplit("::", 2)
            ctx.violation(rule, body.id, "may panic while the will-decider table is locked: %s(%s)" % ("::".join(short[-2:]), recv),
                          "%s on the result of %s runs between locking Server.awaiting_will_handler and dropping the guard: if it panics (e.g. the receiver of a stale decider is gone) the mutex is poisoned, "
                          "every later connection task panics at `lock().unwrap()`, and no will is decided any more" % (what, recv or "?"),
                          site=body.loc(t2.get("sp")))
    # (b) registered => removed, or the task waits for the decision
    def on_table(t):
        return any(s.kind == "call" and s.path.endswith("Mutex::<T>::lock") for s in flatten_src(provenance(body, t["args"][0], through_calls=[r"DerefMut>::deref_mut$", r"Result::<T, E>::unwrap$"]))) \
            or any(l in guards for l in [x.l for x in flatten_src(provenance(body, t["args"][0], through_calls=[r"DerefMut>::deref_mut$"])) if getattr(x, "l", None) is not None])
    inserts = [bb for bb, t in body.calls() if re.search(r"HashMap::<K, V, S(, A)?>::insert$", callee_path(t)) and not body.is_cleanup(bb) and "AwaitingWill" in body.local_ty(t["dest"]["l"])]
    removes = [bb for bb, t in body.calls() if re.search(r"HashMap::<K, V, S(, A)?>::remove$", callee_path(t)) and not body.is_cleanup(bb) and "AwaitingWill" in body.local_ty(t["dest"]["l"])]
    waits = [bb for bb, t in body.calls() if re.search(r"tokio::time::timeout$", callee_path(t)) and not body.is_cleanup(bb)
             and any(s.kind == "call" and s.path.endswith("recv_async") for s in flatten_src(provenance(body, t["args"][1])))]
    if len(inserts) != 1 or not removes or not waits:
        raise AnchorMissing("broker::remote: registration (insert %d) / removal (%d) / wait (%d) of the will decider not found" % (len(inserts), len(removes), len(waits)))
    rets = return_blocks(body)
    # "is the entry still ours?": a test on the task's own receiver (its only sender lives in the table) that decides
    # a removal — on the other edge a newer connection of the client id has taken the entry out already
    owners = set()
    for bb, t in body.calls():
        if not body.is_cleanup(bb) and re.search(r"flume::Receiver::<T>::(sender_count|is_disconnected)$", callee_path(t)):
            if any(dominates(body, bb, r) for r in removes):
                owners.add(bb)
    waits = list(waits) + sorted(owners)
    if must_pass(body, inserts, rets, via_blocks=set(removes) | set(waits)):
        ctx.ok(rule, body.id, "a registered decider is removed, or waited on, on every path to the end of the task")
    else:
        p = find_path(body, inserts, rets, avoid_blocks=set(removes) | set(waits))
        ctx.violation(rule, body.id, "decider left registered",
                      "a path from registering the connection's will decider to the end of the task neither removes it nor waits on it (the link could not be created: router refused, CONNACK not written): "
                      "the table keeps a sender whose receiver is gone, for the next connection of that client id to signal into",
                      site=body.loc(body.blocks[inserts[0]]["t"].get("sp")), path=path_lines(body, p) if p else None)


def registered_then_reported(ctx, prog):
    """Once LinkBuilder::build has succeeded the router holds the connection (slot, will, session). The constructor
    of the link must not give up after that without telling the router: nobody else knows the connection id, so the
    connection would stay registered for ever (its slot taken, its will never published)."""
    rule = "R-C16-fire"
    nb = prog.one(r"link::remote::RemoteLink::<P>::new::\{closure#0\}$")
    builds = [(bb, t) for bb, t in nb.calls() if re.search(r"LinkBuilder::(<[^>]*>::)?build$", callee_path(t)) and not nb.is_cleanup(bb)]
    if len(builds) != 1:
        raise AnchorMissing("RemoteLink::new: expected one LinkBuilder::build call, found %d" % len(builds))
    bbb, bt = builds[0]
    cont = None
    for bb, t in nb.calls():
        if callee_path(t).endswith("Try>::branch") and not nb.is_cleanup(bb):
            if any(s.kind == "call" and s.bb == bbb for s in flatten_src(provenance(nb, t["args"][0]))):
                for sw in discr_switches(nb, r"ControlFlow$"):
                    if sw[4]["l"] == t["dest"]["l"]:
                        cont = variant_target(sw, "Continue")
    if cont is None:
        # no `?`: a match on the Result
        for sw in discr_switches(nb, r"Result$"):
            if any(s.kind == "call" and s.bb == bbb for s in flatten_src(provenance(nb, {"m": sw[4]}))):
                cont = variant_target(sw, "Ok")
    if cont is None:
        raise AnchorMissing("RemoteLink::new: the success edge of LinkBuilder::build was not found")
    errs = []
    for bi, b in enumerate(nb.blocks):
        if b.get("cleanup"):
            continue
        for st in b["s"]:
            if "lhs" in st and st["lhs"]["l"] == 0 and not st["lhs"].get("p") and st["rv"]["k"] == "agg" and st["rv"].get("var") == "Err":
                errs.append((bi, st.get("sp")))
        t = b["t"]
        if t["k"] == "call" and callee_path(t).endswith("from_residual") and t["dest"]["l"] == 0:
            errs.append((bi, t.get("sp")))
    tells = set()
    for bb, t in nb.calls():
        if re.search(r"Sender::<T>::(send|try_send|send_async)$", callee_path(t)) and not nb.is_cleanup(bb):
            def has_disc(op, d=0):
                for s in flatten_src(provenance(nb, op)):
                    if s.kind == "agg":
                        if s.adt == "router::Event" and s.var == "Disconnect":
                            return True
                        if d < 3 and any(has_disc(o, d + 1) for o in s.rv.get("ops", [])):
                            return True
                return False
            if any(has_disc(a) for a in t["args"][1:]):
                tells.add(bb)
    after = reachable(nb, [cont], tuple(tells))
    bad = [(bi, sp) for bi, sp in errs if bi in after]
    if not bad:
        ctx.ok(rule, nb.id, "after LinkBuilder::build succeeded RemoteLink::new does not fail without sending Event::Disconnect (%d error exits before registration)" % len(errs), site=nb.loc(bt.get("sp")))
    for bi, sp in bad:
        ctx.violation(rule, nb.id, "registered connection abandoned",
                      "RemoteLink::new returns an error after LinkBuilder::build registered the connection with the router (the CONNACK could not be written) and no Event::Disconnect is sent: "
                      "broker::remote ends the task without a connection id, the router keeps the connection for ever — its slot stays taken (connection limit) and its will is never published",
                      site=nb.loc(sp))


def handover(ctx, prog):
    """Whatever the link decoded and pushed into the buffer it shares with the router is handed over (LinkTx::notify)
    before the link gives up -- also when a later packet of the same read is malformed. Otherwise a DISCONNECT that
    was decoded is never seen by the router and the will of a client that "sent DISCONNECT first" is published,
    depending on how its bytes were chunked."""
    rule = "R-C16-handover"
    body = prog.one(r"^link::remote::RemoteLink::<P>::start::\{closure#0\}$")
    fills = [bb for bb, t in body.calls() if not body.is_cleanup(bb) and re.search(r"Network::<P>::readv$", callee_path(t))]
    # pushes into the buffer shared with the router (the guard handed out by LinkTx::buffer), not into local queues
    pushes = [bb for bb, t in body.calls() if not body.is_cleanup(bb) and re.search(r"VecDeque::<T, A>::push_back$", callee_path(t))
              and any(x.kind == "call" and x.path.endswith("LinkTx::buffer") for x in flatten_src(provenance(body, t["args"][0], through_calls=[r"DerefMut>::deref_mut$"])))]
    notifies = [bb for bb, t in body.calls() if not body.is_cleanup(bb) and re.search(r"LinkTx::notify$", callee_path(t))]
    if not fills or not notifies:
        raise AnchorMissing("RemoteLink::start: Network::readv (%d) / LinkTx::notify (%d) not found" % (len(fills), len(notifies)))
    rets = return_blocks(body)
    srcs = fills + pushes
    if must_pass(body, srcs, rets, via_blocks=set(notifies)):
        ctx.ok(rule, body.id, "every path from decoding packets into the shared buffer (%d sites) to the end of the link passes LinkTx::notify" % len(srcs),
               site=body.loc(body.blocks[fills[0]]["t"].get("sp")))
    else:
        p = find_path(body, srcs, rets, avoid_blocks=set(notifies))
        ctx.violation(rule, body.id, "decoded packets not handed over",
                      "a path from Network::readv (which appends the packets it decoded to the buffer shared with the router) to the end of the link skips LinkTx::notify — the error of a malformed later packet is returned first: "
                      "the router never processes the packets decoded before it (a DISCONNECT among them does not discard the will), so the outcome depends on how the client's bytes were chunked",
                      site=body.loc(body.blocks[fills[0]]["t"].get("sp")), path=path_lines(body, p) if p else None)


def decided_by_admitted(ctx, prog):
    """The delayed will of a client's previous connection is decided (AwaitingWill::Fire / Cancel sent to its decider) by
    the NEXT connection of that client id — which must have been admitted by then. A CONNECT the router refuses
    (connection limit, bad client id) establishes nothing and must not cancel or fire anybody's will."""
    rule = "R-C16-fire"
    body = prog.one(r"^server::broker::remote::\{closure#0\}$")
    signals = []
    for bb, t in body.calls():
        if body.is_cleanup(bb) or not re.search(r"flume::Sender::<T>::(try_send|send|send_async)$", callee_path(t)):
            continue
        if "AwaitingWill" in body.local_ty(op_local(t["args"][0])) if op_local(t["args"][0]) is not None else False:
            signals.append((bb, t))
    if not signals:
        raise AnchorMissing("broker::remote: the signal to the previous connection's will decider (Sender<AwaitingWill>::try_send) was not found")
    ok_edges = []
    for sw in discr_switches(body, r"Result$"):
        ty = body.local_ty(sw[4]["l"])
        if re.search(r"Result<link::remote::RemoteLink<", ty) and not sw[4].get("p"):
            ok_edges.append(variant_target(sw, "Ok"))
    if not ok_edges:
        raise AnchorMissing("broker::remote: the match on RemoteLink::new's result was not found")
    for bb, t in signals:
        if any(dominates(body, e, bb) for e in ok_edges):
            ctx.ok(rule, body.id, "the previous connection's will is decided only after RemoteLink::new succeeded (the new connection is admitted)", site=body.loc(t.get("sp")))
        else:
            ctx.violation(rule, body.id, "will decided by a connection that is not admitted yet",
                          "the decider of the previous connection's delayed will is signalled (Fire/Cancel) before RemoteLink::new has registered the new connection: a CONNECT that the router then refuses (connection limit, client id) "
                          "has already cancelled — or fired — the will of a connection that nobody took over", site=body.loc(t.get("sp")))


def end_reports_cannot_be_dropped(ctx, prog):
    """The connection task reports the end of a connection (Event::Disconnect) and the decision on its will
    (Event::PublishWill) over the bounded router queue every link's data notifications also wait on. A non-blocking
    try_send whose result is discarded loses the report when that queue is full at that instant: the will is never
    published and the connection stays registered. The two reports must use the blocking send."""
    rule = "R-C16-fire"
    rb = prog.one(r"^server::broker::remote::\{closure#0\}$")

    def event_var(op, d=0):
        for s in flatten_src(provenance(rb, op)):
            if s.kind == "agg":
                if s.adt == "router::Event":
                    return s.var
                if d < 3:
                    for o in s.rv.get("ops", []):
                        v = event_var(o, d + 1)
                        if v:
                            return v
        return None
    seen = {}
    for bb, t in rb.calls():
        m = re.search(r"Sender::<T>::(send|try_send|send_async|send_timeout|send_deadline)$", callee_path(t))
        if not m or rb.is_cleanup(bb):
            continue
        var = None
        for a in t["args"][1:]:
            var = var or event_var(a)
        if var not in ("Disconnect", "PublishWill"):
            continue
        seen.setdefault(var, []).append(m.group(1))
        if m.group(1) in ("send", "send_async"):
            ctx.ok(rule, rb.id, "Event::%s is reported with a blocking %s" % (var, m.group(1)), site=rb.loc(t.get("sp")))
        else:
            ctx.violation(rule, rb.id, "Event::%s report can be dropped" % var,
                          "broker::remote reports Event::%s with %s: when the bounded router queue is full at that instant the report is lost — the will is never published / the connection stays registered" % (var, m.group(1)),
                          site=rb.loc(t.get("sp")))
    ctx.floor(rule, "end-of-connection reports found in broker::remote (Disconnect, PublishWill)", len(seen), 2)
