"""Argument roles at the call sites of rumqttd's `protocol::matches(topic, filter)`.

`matches` interprets wildcards only in its second argument.  At the DataLog call sites one argument is
a `&str` parameter of the surrounding function and the other is the key of a map being iterated.  The
maps have a fixed key role (table below, confirmed by reading their insert sites); the key of a
topic-keyed map must be passed as `topic` (argument 0) and the key of a filter-keyed map as `filter`
(argument 1).  Swapping them compiles (both are &str) and degrades matching to plain equality for
literal filters and to "never" for wildcard filters.
"""
import re
from ..core import *

# map field -> role of its key
KEY_ROLE = {
    "publish_filters": "topic",      # DataLog::matches inserts topic.to_owned()
    "retained_publishes": "topic",   # insert_to_retained / remove_from_retained key on publish.topic
    "filter_indexes": "filter",      # next_native_offset inserts filter.to_owned()
}
ITER = r"(HashMap|BTreeMap)::<K, V(, S)?(, A)?>::(iter|iter_mut)$"


def _is_key_side(body, op):
    src = flatten_src(provenance(body, op))
    return bool(src) and all(s.kind == "call" and re.search(r"String as std::ops::Deref>::deref$|String::as_str$|String as std::convert::AsRef<str>>::as_ref$|String as std::borrow::Borrow<str>>::borrow$", s.path) for s in src)


def check(ctx, rule, prog, parent_regex, what):
    """every protocol::matches call in the function matching parent_regex (and its closures) passes the iterated map's key in the position of its role"""
    parent = prog.one(parent_regex)
    bodies = [parent] + [b for b in prog.A.values() if b.id.startswith(parent.id + "::{closure#")]
    iterated = set()
    for b in bodies:
        for bb, t in b.calls():
            if re.search(ITER, callee_path(t)):
                fs = [x.split(".")[-1] for x in (receiver_fields(b, t) or [])]
                if fs and fs[-1] in KEY_ROLE:
                    iterated.add(fs[-1])
                elif not fs:
                    # receiver is a local reborrow of a field (`let m = &mut self.field`)
                    for s in flatten_src(provenance(b, t["args"][0])):
                        f = getattr(s, "fields", None)
                        if f and f[-1].split(".")[-1] in KEY_ROLE:
                            iterated.add(f[-1].split(".")[-1])
    sites = [(b, bb, t) for b in bodies for bb, t in b.calls() if callee_path(t).endswith("protocol::matches") and not b.is_cleanup(bb)]
    if not sites:
        ctx.anchor_missing(rule, "protocol::matches call in %s (%s)" % (parent.id, what))
        return
    if len(iterated) != 1:
        ctx.anchor_missing(rule, "%s: expected exactly one iterated role map, found %s" % (parent.id, sorted(iterated)))
        return
    role = KEY_ROLE[next(iter(iterated))]
    for b, bb, t in sites:
        k0, k1 = _is_key_side(b, t["args"][0]), _is_key_side(b, t["args"][1])
        if k0 == k1:
            ctx.anchor_missing(rule, "%s: cannot tell the map-key argument of matches() apart (%s/%s)" % (b.id, k0, k1))
            continue
        pos = 0 if k0 else 1
        want = 0 if role == "topic" else 1
        if pos == want:
            ctx.ok(rule, b.id, "matches(): key of %s (a %s) is passed as the %s argument" % (next(iter(iterated)), role, role), site=b.loc(t.get("sp")))
        else:
            ctx.violation(rule, b.id, "matches() arguments swapped",
                          "%s: the key of %s is a %s but is passed as matches()'s %s argument: wildcards in the subscription filter are no longer interpreted (%s)"
                          % (parent.id, next(iter(iterated)), role, "filter" if pos == 1 else "topic", what), site=b.loc(t.get("sp")))
