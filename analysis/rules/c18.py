"""C18 — client keep-alive pings on time and detects a silent broker (structural clauses only, DESIGN §4 C18)."""
import re
from ..core import *
from .client import *

CRATES = ("rumqttc",)
EXPLANATION = (
    "Static decision on the MIR of /repo's working tree (rumqttc v4 and v5): the timing bounds of C18 are not statically decidable; the structural clauses that are: "
    "(R-C18-flag) await_pingresp is set true only in outgoing_ping, on the path past the `if self.await_pingresp { return Err(AwaitPingResp) }` test, and cleared only by handle_incoming_pingresp, clean and new "
    "(a second unanswered ping is therefore reported, an answered one never is); "
    "(R-C18-branch) the keep-alive branch of select() resets the timer and issues Request::PingReq on the same path, and the timer is created in poll() only when keep_alive is non-zero (v4: configured zero; v5: Server Keep Alive 0); "
    "(R-C18-connect-timeout) in poll() the future passed to time::timeout is connect(..) bounded by the configured connection timeout, and the elapsed edge returns ConnectionError::NetworkTimeout. "
    "(R-C18-interval) the timer is created with and re-armed to now + options.keep_alive, and the event loop rewrites that option only from the CONNACK's Server Keep Alive (v5); "
    "NOT decided (most of the statement): every timing bound (ping at least once per interval, failure no later than the second interval, no false alarm).")
ASSUMPTIONS = ["rustc MIR construction is correct", "tokio's timer and select! behave as documented"]
TECHNIQUE = "static analysis: who-may-write with edge conditions, dominance rules on async-body MIR, provenance of the timeout's future"
LEVEL_TEXT = "Decides only the flag discipline and wiring of the keep-alive / connect-timeout code paths; all timing claims of C18 are out of reach of static analysis and are not claimed."
LEVEL_NOTE = "Trusted: rustc MIR; tokio."


def run(ctx):
    prog = ctx.progs["rumqttc"]
    for ver in ("v4", "v5"):
        ctx.guarded("R-C18-flag", flag, ctx, prog, ver)
        ctx.guarded("R-C18-branch", branch, ctx, prog, ver)
        ctx.guarded("R-C18-connect-timeout", connect_timeout, ctx, prog, ver)
        ctx.guarded("R-C18-interval", interval, ctx, prog, ver)
        ctx.guarded("R-C18-branch", flush_bounded, ctx, prog, ver)


def flag(ctx, prog, ver):
    rule = "R-C18-flag"
    pre = dict((v[0], v[1]) for v in VERSIONS)[ver]
    from .c08 import bool_switch_on_field
    n = 0
    for body, bi, st in field_writes(prog, "await_pingresp"):
        if not body.id.startswith(pre):
            continue
        n += 1
        val = None
        if st["rv"]["k"] == "use":
            k = op_const(st["rv"]["a"])
            val = k.get("v") if k else None
        if st["rv"]["k"] == "agg" or body.name == "new":
            continue
        if val == 1:
            if body.name != "outgoing_ping":
                ctx.violation(rule, body.id, "await_pingresp = true", "the ping-pending flag is set outside outgoing_ping", site=body.loc(st.get("sp")))
                continue
            sws = bool_switch_on_field(body, "await_pingresp")
            if sws and dominates(body, sws[0][2], bi):
                # and the true edge returns the AwaitPingResp error
                r = reachable(body, (sws[0][1],))
                err = any("lhs" in s2 and s2["rv"]["k"] == "agg" and s2["rv"].get("var") == "AwaitPingResp" for b in r for s2 in body.blocks[b]["s"])
                if err and bi not in r:
                    ctx.ok(rule, body.id, "await_pingresp = true only past the `already awaiting → Err(AwaitPingResp)` test", site=body.loc(st.get("sp")))
                else:
                    ctx.violation(rule, body.id, "no AwaitPingResp error", "a second ping while the first is unanswered no longer fails with AwaitPingResp", site=body.loc(st.get("sp")))
            else:
                ctx.violation(rule, body.id, "flag set unconditionally", "await_pingresp is set without first testing it: a silent broker is never detected", site=body.loc(st.get("sp")))
        elif val == 0:
            if body.name in ("handle_incoming_pingresp", "clean"):
                ctx.ok(rule, body.id, "await_pingresp = false", site=body.loc(st.get("sp")))
            else:
                ctx.violation(rule, body.id, "await_pingresp = false", "the ping-pending flag is cleared outside handle_incoming_pingresp / clean: a silent broker could go unnoticed", site=body.loc(st.get("sp")))
        else:
            ctx.violation(rule, body.id, "await_pingresp written", "await_pingresp is assigned a non-constant value", site=body.loc(st.get("sp")))
    # a ping that was outstanding when the connection failed is not owed by the NEXT connection: clean() clears the flag
    # on every path, or the first keep-alive tick after a reconnect reports AwaitPingResp without having pinged
    cl = state_fn(prog, ver, "clean")
    clears = [bi for b2, bi, st in field_writes(prog, "await_pingresp") if b2.id == cl.id and st["rv"]["k"] == "use" and (op_const(st["rv"]["a"]) or {}).get("v") == 0]
    if clears and must_pass(cl, [0], return_blocks(cl), via_blocks=set(clears), include_from=True):
        ctx.ok(rule, cl.id, "clean() clears the ping-pending flag on every path")
    else:
        ctx.violation(rule, cl.id, "stale ping survives clean()",
                      "MqttState::clean() no longer clears await_pingresp: a ping left unanswered by the failed connection makes the first keep-alive tick of the next connection fail with AwaitPingResp although no PINGREQ was sent on it — a false alarm on every reconnect",
                      site=cl.fn_loc())
    ctx.floor(rule, "writes of await_pingresp (%s)" % ver, n, 3)
    pr = state_fn(prog, ver, "handle_incoming_pingresp")
    if any(place_fields(st["lhs"])[-1:] == ["await_pingresp"] for b in pr.blocks for st in b["s"] if "lhs" in st):
        ctx.ok(rule, pr.id, "PINGRESP clears the flag")
    else:
        ctx.violation(rule, pr.id, "PINGRESP ignored", "handle_incoming_pingresp no longer clears await_pingresp: every second ping reports a dead connection", site=pr.fn_loc())


def branch(ctx, prog, ver):
    rule = "R-C18-branch"
    pre = dict((v[0], v[2]) for v in VERSIONS)[ver]
    sel = prog.one("^" + re.escape(pre) + r"select::\{closure#0\}$")
    resets = [bb for bb, t in sel.calls() if callee_path(t).endswith("tokio::time::Sleep::reset") and not sel.is_cleanup(bb)]
    pings = []
    for bb, t in sel.calls():
        if callee_path(t).endswith("MqttState::handle_outgoing_packet") and not sel.is_cleanup(bb):
            src = flatten_src(provenance(sel, t["args"][1]))
            if any(s.kind == "agg" and s.var == "PingReq" for s in src):
                pings.append(bb)
    if len(resets) == 1 and len(pings) == 1 and dominates(sel, resets[0], pings[0]):
        ctx.ok(rule, sel.id, "keep-alive branch: timer reset dominates handle_outgoing_packet(PingReq)")
        # reset argument: now + keep_alive
        t = sel.blocks[resets[0]]["t"]
        src = flatten_src(provenance(sel, t["args"][1], through_calls=[r"ops::Add<.*>>::add$"]))
        if any(s.kind == "call" and s.path.endswith("Instant::now") for s in src):
            ctx.ok(rule, sel.id, "timer is reset relative to Instant::now()")
        else:
            ctx.violation(rule, sel.id, "timer reset target", "the keep-alive timer is not reset to now + keep_alive", site=sel.loc(t.get("sp")))
    else:
        ctx.violation(rule, sel.id, "keep-alive branch shape", "expected one timer reset followed by one PingReq request in select() (found %d resets, %d pings)" % (len(resets), len(pings)), site=sel.fn_loc())
    poll = prog.one("^" + re.escape(pre) + r"poll::\{closure#0\}$")
    sleeps = [bb for bb, t in poll.calls() if callee_path(t).endswith("tokio::time::sleep") and not poll.is_cleanup(bb)]
    if not sleeps:
        ctx.violation(rule, poll.id, "no timer", "poll() no longer creates the keep-alive timer", site=poll.fn_loc())
        return
    if True:
        # both versions: v4 lets the user configure zero; in v5 the broker can assign zero with Server Keep Alive
        from .c15 import switch_on_call_result
        sw = switch_on_call_result(poll, r"Duration::is_zero$")
        if sw and all(dominates(poll, sw[0][2], s) for s in sleeps):
            ctx.ok(rule, poll.id, "keep-alive timer is created only when keep_alive is non-zero")
        else:
            ctx.violation(rule, poll.id, "timer with zero keep-alive", "a keep-alive timer is armed although keep_alive is zero (the client would ping)", site=poll.fn_loc())
        # and the select! branch is disabled for zero keep-alive: is_zero is consulted in select too
        if any(callee_path(t).endswith("Duration::is_zero") for _, t in sel.calls()):
            ctx.ok(rule, sel.id, "the keep-alive branch precondition consults keep_alive.is_zero()")
        else:
            ctx.violation(rule, sel.id, "zero keep-alive not excluded", "select()'s keep-alive branch no longer tests keep_alive.is_zero()", site=sel.fn_loc())
    else:
        ctx.ok(rule, poll.id, "v5: timer armed with options.keep_alive (set_keep_alive rejects values below 5 s; a zero server_keep_alive is not handled — timing not decided)")


def connect_timeout(ctx, prog, ver):
    rule = "R-C18-connect-timeout"
    pre = dict((v[0], v[2]) for v in VERSIONS)[ver]
    poll = prog.one("^" + re.escape(pre) + r"poll::\{closure#0\}$")
    tos = []
    for bb, t in poll.calls():
        if callee_path(t).endswith("tokio::time::timeout") and not poll.is_cleanup(bb):
            src = flatten_src(provenance(poll, t["args"][1]))
            if any(s.kind == "call" and re.search(r"eventloop::connect$", s.path) for s in src):
                tos.append((bb, t))
    if len(tos) != 1:
        ctx.violation(rule, poll.id, "connect not bounded", "poll() does not wrap connect(..) in time::timeout (found %d)" % len(tos), site=poll.fn_loc())
        return
    bb, t = tos[0]
    dsrc = flatten_src(provenance(poll, t["args"][0], through_calls=[r"Duration::from_secs$"]))
    if any(s.kind == "call" and s.path.endswith("connection_timeout") for s in dsrc):
        ctx.ok(rule, poll.id, "timeout duration = network_options.connection_timeout()", site=poll.loc(t.get("sp")))
    else:
        ctx.violation(rule, poll.id, "timeout duration", "the connect timeout is not derived from the configured connection_timeout()", site=poll.loc(t.get("sp")))
    # Err(Elapsed) edge → NetworkTimeout
    dom = dominators(poll)
    okc = False
    for s in discr_switches(poll, r"result::Result$"):
        if bb in dom.get(s[0], ()):
            e = variant_target(s, "Err")
            if e is not None:
                r = reachable(poll, (e,))
                if any("lhs" in st and st["rv"]["k"] == "agg" and st["rv"].get("var") == "NetworkTimeout" for b in r for st in poll.blocks[b]["s"]):
                    okc = True
    if not okc:
        # `time::timeout(..).await??` with `ConnectionError::Timeout(#[from] Elapsed)`: the first `?`
        # converts Elapsed into the error type
        for b2, t2 in poll.calls():
            if re.search(r"FromResidual<.*>>::from_residual$", callee_path(t2)) and "tokio::time::error::Elapsed" in t2["fn"].get("ga", "") and bb in dom.get(b2, ()):
                okc = True
    if okc:
        ctx.ok(rule, poll.id, "the elapsed edge returns a timeout error (NetworkTimeout / Timeout(Elapsed))")
    else:
        ctx.violation(rule, poll.id, "timeout not reported", "an elapsed connect timeout is not reported as ConnectionError::NetworkTimeout", site=poll.fn_loc())


def interval(ctx, prog, ver):
    """which duration the keep-alive timer runs on: created with and reset to options.keep_alive; that option is
    rewritten by the event loop only from the CONNACK's Server Keep Alive (v5); the CONNECT packet announces the
    same option to the broker"""
    rule = "R-C18-interval"
    pre = dict((v[0], v[2]) for v in VERSIONS)[ver]
    mod = pre.rsplit("EventLoop::", 1)[0]
    optf = "mqtt_options" if ver == "v4" else "options"

    def is_opt_keepalive(body, op, through=()):
        src = [x for x in flatten_src(provenance(body, op, through_calls=list(through))) if not (x.kind == "call" and any(re.search(r_, x.path) for r_ in through))]
        return bool(src) and all(getattr(x, "fields", None) and [y.lstrip("^") for y in x.fields][-2:] == [optf, "keep_alive"] for x in src), src
    poll = prog.one("^" + re.escape(pre) + r"poll::\{closure#0\}$")
    sel = prog.one("^" + re.escape(pre) + r"select::\{closure#0\}$")
    sleeps = [(poll, t) for bb, t in poll.calls() if callee_path(t).endswith("tokio::time::sleep") and not poll.is_cleanup(bb)]
    ctx.floor(rule, "keep-alive timer creation in poll (%s)" % ver, len(sleeps), 1)
    for body, t in sleeps:
        okk, src = is_opt_keepalive(body, t["args"][0])
        if okk:
            ctx.ok(rule, body.id, "timer created with %s.keep_alive" % optf, site=body.loc(t.get("sp")))
        else:
            ctx.violation(rule, body.id, "timer duration", "the keep-alive timer is created with something other than %s.keep_alive (%s)" % (optf, [(x.kind, getattr(x, "fields", None)) for x in src]), site=body.loc(t.get("sp")))
    resets = [(bb, t) for bb, t in sel.calls() if callee_path(t).endswith("tokio::time::Sleep::reset") and not sel.is_cleanup(bb)]
    ctx.floor(rule, "keep-alive timer reset in select (%s)" % ver, len(resets), 1)
    for bb, t in resets:
        good = False
        for x in flatten_src(provenance(sel, t["args"][1])):
            if x.kind == "call" and re.search(r"Instant as std::ops::Add<std::time::Duration>>::add$", x.path):
                okk, _ = is_opt_keepalive(sel, x.term["args"][1])
                nows = flatten_src(provenance(sel, x.term["args"][0]))
                good = okk and bool(nows) and all(n_.kind == "call" and n_.path.endswith("Instant::now") for n_ in nows)
        if good:
            ctx.ok(rule, sel.id, "timer reset to Instant::now() + %s.keep_alive" % optf, site=sel.loc(t.get("sp")))
        else:
            ctx.violation(rule, sel.id, "timer reset deadline", "after a ping the keep-alive timer is not re-armed at now + %s.keep_alive" % optf, site=sel.loc(t.get("sp")))
    # writers of the option inside the event loop module
    n = 0
    for body, bi, st in field_writes(prog, "keep_alive"):
        if not body.id.startswith(mod):
            continue
        if "MqttOptions" not in body.local_ty(st["lhs"]["l"]):
            continue
        n += 1
        src = [x for x in flatten_src(provenance(body, st["rv"]["a"], through_calls=[r"Duration::from_secs$"])) if not (x.kind == "call" and x.path.endswith("Duration::from_secs"))] if st["rv"]["k"] == "use" else []
        if src and all(getattr(x, "fields", None) and "server_keep_alive" in x.fields for x in src):
            ctx.ok(rule, body.id, "options.keep_alive is overridden only by the CONNACK's server_keep_alive", site=body.loc(st.get("sp")))
        else:
            ctx.violation(rule, body.id, "keep_alive override source",
                          "the event loop rewrites options.keep_alive from %s instead of the CONNACK's Server Keep Alive: the ping interval follows an unrelated value" % [(x.kind, getattr(x, "fields", None)) for x in src],
                          site=body.loc(st.get("sp")))
    if ver == "v5":
        ctx.floor(rule, "event-loop writes of options.keep_alive (v5)", n, 1)


def flush_bounded(ctx, prog, ver):
    """'reports the connection as failed no later than ...': while the body of a select! arm is awaited the other arms
    (the keep-alive tick among them) are not polled. An unbounded `network.flush().await` in an arm body therefore
    switches the keep-alive off for as long as the broker does not read: every flush in select() must be bounded by
    tokio::time::timeout (sibling agreement: the 3.1.1 event loop bounds all three)."""
    rule = "R-C18-branch"
    pre = dict((v[0], v[2]) for v in VERSIONS)[ver]
    body = prog.one("^" + re.escape(pre) + r"select::\{closure#0\}$")
    flushes = [(bb, t) for bb, t in body.calls() if callee_path(t).endswith("framed::Network::flush") and not body.is_cleanup(bb)]
    ctx.floor(rule, "network.flush() calls in select() (%s)" % ver, len(flushes), 3)
    touts = [(bb, t) for bb, t in body.calls() if re.search(r"tokio::time::timeout$", callee_path(t)) and not body.is_cleanup(bb)]
    for bb, t in flushes:
        fut = t["dest"]["l"]
        bounded = False
        for b2, t2 in touts:
            for a in t2["args"]:
                l = op_local(a)
                hops = 0
                while l is not None and l != fut and hops < 3:
                    d = single_def(body, l)
                    l = op_local(d[3]["rv"]["a"]) if d and d[2] == "assign" and d[3]["rv"]["k"] == "use" else None
                    hops += 1
                if l == fut:
                    bounded = True
        if bounded:
            ctx.ok(rule, body.id, "flush is awaited under tokio::time::timeout", site=body.loc(t.get("sp")))
        else:
            ctx.violation(rule, body.id, "flush awaited without a timeout",
                          "select() (%s) awaits network.flush() without a bound: if the broker stops reading (its window closes, the connection stays open) the flush pends for ever, the keep-alive arm is never polled again, no PINGREQ is sent and the dead connection is never reported" % ver,
                          site=body.loc(t.get("sp")))
