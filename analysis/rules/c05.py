"""C05 — decoders are total, bounded and chunking-independent (structural clauses, DESIGN §4 C05)."""
import re
from ..core import *
from ..panics import panic_scope, discr_switches

EXPLANATION = (
    "Static decision on the MIR of /repo's working tree of five structural clauses of C05 for the four decoders "
    "(rumqttd V4/V5 read_mut + Network::read/readv; rumqttc v4/v5 Packet::read + Codec::decode + framed Network::read): "
    "(R-C05-panic) no undischarged may-panic construct is reachable from a decode entry (guarded-getter, frame-header, exhaustive-match, const/size arithmetic discharges; audited residue); "
    "(R-C05-raw-getters) Buf::get_*/copy_to_* are called only inside the length-checked read_u8/u16/u32 wrappers, Bytes::split_to only in read_mqtt_bytes and the frame split; "
    "(R-C05-bound) the Ok edge of check() dominates every mutation of the stream, check() returns Ok only past the size-limit test, the per-packet readers get the split-off frame, never the stream; "
    "(R-C05-more-bytes) after the frame split no callee can return InsufficientBytes (error-variant sets to a fixed point over the call graph), Codec::decode maps exactly InsufficientBytes to Ok(None), Network::read loops only on it. "
    "R-C05-more-bytes also demands that every Error::InsufficientBytes(n) built in check/parse_fixed_header/length carries `needed - buffered` or the constant 1. "
    "NOT decided: equality of the decoded packet sequence under re-chunking as a value statement.")

ASSUMPTIONS = [
    "rustc MIR construction and callee resolution are correct; dependency panics derived from dependency MIR (depth 6) plus rules/ext_api.json",
    "in-memory sizes and 64-bit counters do not overflow (usize/u64 Add/Mul asserts discharged)",
    "tokio_util::codec::Framed calls Decoder::decode only with the accumulated read buffer (trusted dependency)",
]

TECHNIQUE = "static analysis: MIR may-panic inventory with dominance-based guarded-getter discharges, who-may-call rule, dominance/must-pass rules, error-variant effect sets over the call graph"
LEVEL_TEXT = ("For all inputs and chunkings at once (quantifies over code paths): no reachable panic construct without a discharge in the four decoders, raw byte getters only behind length checks, "
              "frame size test and completeness test dominate any consumption, 'need more bytes' cannot leak from inside a complete frame. Sequence equality under re-chunking is argued from these, not decided.")
LEVEL_NOTE = "Trusted: rustc MIR/callee resolution; rules/ext_api.json; rules/panic_audit.json entries with scope C05 (each with a reason); assumption that usize arithmetic on buffer sizes does not overflow."

ENTRIES = {
    "rumqttd": [r"^<protocol::v4::V4 as protocol::Protocol>::read_mut$", r"^<protocol::v5::V5 as protocol::Protocol>::read_mut$",
                r"^link::network::Network::<P>::read$", r"^link::network::Network::<P>::readv$"],
    "rumqttc": [r"^mqttbytes::v4::Packet::read$", r"^v5::mqttbytes::v5::Packet::read$",
                r"^<mqttbytes::v4::codec::Codec as tokio_util::codec::Decoder>::decode$",
                r"^<v5::mqttbytes::v5::codec::Codec as tokio_util::codec::Decoder>::decode$",
                r"^framed::Network::read$", r"^v5::framed::Network::read$"],
}
FRAME_ENTRIES = {
    "rumqttd": [r"^<protocol::v4::V4 as protocol::Protocol>::read_mut$", r"^<protocol::v5::V5 as protocol::Protocol>::read_mut$"],
    "rumqttc": [r"^mqttbytes::v4::Packet::read$", r"^v5::mqttbytes::v5::Packet::read$"],
}
CHECKS = {
    "rumqttd": [r"^protocol::v4::check$", r"^protocol::v5::check$"],
    "rumqttc": [r"^mqttbytes::check$", r"^v5::mqttbytes::v5::check$"],
}
WRAPPER = re.compile(r"::read_u(8|16|32)$")
RAW_GETTER = re.compile(r"^(bytes::Buf::|<bytes::Bytes(Mut)? as bytes::Buf>::)(get_[ui]\d+(_le)?|copy_to_bytes|copy_to_slice|get_uint|get_int)$")
SPLIT = re.compile(r"^bytes::Bytes(Mut)?::(split_to|split_off)$")


def run(ctx):
    for crate in ("rumqttd", "rumqttc"):
        entries, reach, sites = panic_scope(ctx, "R-C05-panic", crate, ENTRIES[crate], "C05", "decode entry points (%s)" % crate)
        ctx.guarded("R-C05-raw-getters", raw_getters, ctx, crate, reach)
        ctx.guarded("R-C05-bound", bound, ctx, crate)
        ctx.guarded("R-C05-more-bytes", more_bytes, ctx, crate)
        ctx.guarded("R-C05-more-bytes", asks_for_the_missing_bytes_only, ctx, crate)


# ------------------------------------------------------------------------------------------

def raw_getters(ctx, crate, reach):
    rule = "R-C05-raw-getters"
    prog = ctx.progs[crate]
    wrappers = 0
    for body, bb, t in call_sites(prog, RAW_GETTER.pattern):
        fn = body.id
        if WRAPPER.search(fn):
            wrappers += 1
            ctx.ok(rule, fn, "raw getter %s inside wrapper" % callee_path(t).rsplit("::", 1)[-1], site=body.loc(t.get("sp")))
            continue
        if fn in reach:
            ctx.violation(rule, fn, "raw getter %s" % callee_path(t).rsplit("::", 1)[-1],
                          "raw Buf getter called outside the length-checked read_uN wrappers in a function reachable from a decode entry",
                          site=body.loc(t.get("sp")))
        else:
            ctx.ok(rule, fn, "raw getter %s (not reachable from decode entries)" % callee_path(t).rsplit("::", 1)[-1],
                   site=body.loc(t.get("sp")), trivial=True)
    ctx.floor(rule, "wrapper getter sites in %s" % crate, wrappers, 5)
    # split_to / split_off in reachable functions: only read_mqtt_bytes and the frame split of the entries
    frame_fns = set()
    for r in FRAME_ENTRIES[crate]:
        frame_fns.update(b.id for b in prog.find(r))
    for body, bb, t in call_sites(prog, SPLIT.pattern):
        fn = body.id
        if fn not in reach:
            continue
        name = callee_path(t).rsplit("::", 1)[-1]
        if re.search(r"::read_mqtt_bytes$", fn) or fn in frame_fns:
            ctx.ok(rule, fn, "%s in its designated place" % name, site=body.loc(t.get("sp")))
        else:
            ctx.violation(rule, fn, name, "Bytes::%s outside read_mqtt_bytes / the frame split, in a function reachable from a decode entry" % name,
                          site=body.loc(t.get("sp")))


# ------------------------------------------------------------------------------------------

def try_ok_edge(body, call_bb):
    """for `x = f(..)?`: returns (switch_bb, continue_target, break_target) following the
    Try::branch that consumes the call's destination, else None"""
    t = body.blocks[call_bb]["t"]
    nxt = t.get("t")
    hops = 0
    dest = t["dest"]["l"]
    while nxt is not None and hops < 4:
        nt = body.blocks[nxt]["t"]
        if nt["k"] == "call" and re.search(r"ops::Try>::branch$", callee_path(nt)) and op_local(nt["args"][0]) == dest:
            sw = nt.get("t")
            for s in discr_switches(body):
                if s[0] == sw and "ControlFlow" in s[1]:
                    return sw, s[2].get("Continue"), s[2].get("Break")
            return None
        if nt["k"] == "goto":
            nxt = nt["t"]; hops += 1
            continue
        break
    return None


def bound(ctx, crate):
    rule = "R-C05-bound"
    prog = ctx.progs[crate]
    for r in FRAME_ENTRIES[crate]:
        body = prog.one(r)
        fn = body.id
        # the check(...) call
        checks = [(bb, t) for bb, t in body.calls() if re.search(r"(^|::)check$", callee_path(t)) and t["fn"].get("ws") and not body.is_cleanup(bb)]
        if len(checks) != 1:
            ctx.anchor_missing(rule, "%s: expected exactly one call to check(), found %d" % (fn, len(checks)))
            continue
        cbb, ct = checks[0]
        edge = try_ok_edge(body, cbb)
        if not edge or edge[1] is None:
            ctx.anchor_missing(rule, "%s: check() result is not consumed by `?`" % fn)
            continue
        sw, cont, brk = edge
        # every call that mutably borrows the stream parameter (param 1 for assoc fn without self, 2 with self)
        stream_param = None
        for l in range(1, body.argc + 1):
            if "BytesMut" in body.local_ty(l):
                stream_param = l
        if stream_param is None:
            ctx.anchor_missing(rule, "%s: no &mut BytesMut parameter" % fn)
            continue
        n_mut = 0
        for bb, t in body.calls():
            if body.is_cleanup(bb) or bb == cbb:
                continue
            for a in t["args"]:
                l = op_local(a)
                if l is None:
                    continue
                d = single_def(body, l)
                if d and d[2] == "assign" and d[3]["rv"]["k"] == "ref" and d[3]["rv"]["bk"] == "mut" and d[3]["rv"]["pl"]["l"] == stream_param:
                    n_mut += 1
                    if dominates(body, cont, bb):
                        ctx.ok(rule, fn, "mutation %s dominated by Ok edge of check()" % callee_path(t).rsplit("::", 1)[-1], site=body.loc(t.get("sp")))
                    else:
                        ctx.violation(rule, fn, "mutation %s" % callee_path(t).rsplit("::", 1)[-1],
                                      "stream is consumed/mutated on a path that has not passed a successful check()", site=body.loc(t.get("sp")))
        ctx.floor(rule, "stream mutations in %s" % fn, n_mut, 1)
        # per-packet readers never receive the stream itself
        for bb, t in body.calls():
            if body.is_cleanup(bb) or not t["fn"].get("ws") or bb == cbb:
                continue
            for a in t["args"]:
                srcs = flatten_src(provenance(body, a))
                if any(s.kind == "param" and s.l == stream_param for s in srcs):
                    ctx.violation(rule, fn, "passes stream to " + callee_path(t),
                                  "a reader is handed the connection's stream instead of the split-off frame", site=body.loc(t.get("sp")))
    for r in CHECKS[crate]:
        body = prog.one(r)
        fn = body.id
        # Ok(..) constructions flowing to return
        ok_blocks = []
        for bi, b in enumerate(body.blocks):
            if b.get("cleanup"):
                continue
            for st in b["s"]:
                if "lhs" in st and st["lhs"]["l"] == 0 and st["rv"]["k"] == "agg" and st["rv"].get("var") == "Ok":
                    ok_blocks.append(bi)
        if not ok_blocks:
            ctx.anchor_missing(rule, "%s: no Ok(..) return" % fn)
            continue
        # comparison remaining_len > max
        guard_edges = []   # edges that establish remaining_len <= max or "no limit"
        guards = []
        for bi, b in enumerate(body.blocks):
            t = b["t"]
            if t["k"] != "switch" or b.get("cleanup"):
                continue
            l = op_local(t["on"])
            if l is None:
                continue
            d = single_def(body, l)
            if not d or d[2] != "assign" or d[3]["rv"]["k"] != "bin":
                continue
            rv = d[3]["rv"]
            if rv["op"] not in ("Gt", "Le", "Ge", "Lt"):
                continue
            sa = flatten_src(provenance(body, rv["a"], through_calls=[r"Option.*::unwrap"]))
            sb = flatten_src(provenance(body, rv["b"], through_calls=[r"Option.*::unwrap"]))

            def is_remlen(ss):
                return any(getattr(s, "fields", None) and s.fields[-1] == "remaining_len" for s in ss)

            def is_max(ss):
                return any(s.kind == "param" and s.l == 2 for s in ss)
            zero_t = [x for v, x in t["targets"] if v == 0]
            if rv["op"] == "Gt" and is_remlen(sa) and is_max(sb) and zero_t:
                guards.append((bi, zero_t[0])); guard_edges.append((bi, zero_t[0]))
            elif rv["op"] == "Le" and is_remlen(sa) and is_max(sb):
                guards.append((bi, t["otherwise"])); guard_edges.append((bi, t["otherwise"]))
            elif rv["op"] == "Lt" and is_max(sa) and is_remlen(sb) and zero_t:
                guards.append((bi, zero_t[0])); guard_edges.append((bi, zero_t[0]))
        # "no limit configured": None edge of a discriminant switch on the max parameter
        for s in discr_switches(body, r"Option"):
            bi, adt, m, otherwise, pl, allv = s
            if pl["l"] == 2 and variant_target(s, "None") is not None:
                guard_edges.append((bi, variant_target(s, "None")))
        if not guards:
            ctx.violation(rule, fn, "size-limit test", "check() has no comparison of remaining_len against the configured maximum", site=body.fn_loc())
            continue
        # every path entry -> Ok must use one of guard_edges: delete those edges' *targets entered via that edge*
        # (edge-level: remove the edges and test reachability)
        r_ = reachable(body, (0,), avoid_edges=guard_edges)
        bad = [b for b in ok_blocks if b in r_]
        if bad:
            p = find_path(body, (0,), bad, avoid_edges=guard_edges, include_from=True)
            ctx.violation(rule, fn, "Ok without size-limit test",
                          "a path reaches Ok(fixed_header) without passing the `remaining_len > max` test", site=body.fn_loc(),
                          path=path_lines(body, p) if p else None)
        else:
            ctx.ok(rule, fn, "Ok dominated by size-limit test", site=body.loc(body.blocks[guards[0][0]]["t"].get("sp")))
        # completeness: Ok only if stream_len >= frame_length
        comp = False
        is_len = lambda ss: any(s.kind == "call" and s.path.endswith("::len") for s in ss)
        is_fl = lambda ss: any(s.kind == "call" and s.path.endswith("frame_length") for s in ss)
        for sbb, holds, fails, _ in cmp_switches(body, ("Lt",), is_len, is_fl):
            # `stream_len < frame_length` holds → not complete; Ok only on the other edge
            if not (reachable(body, (0,), avoid_edges=[(sbb, fails)]) & set(ok_blocks)):
                comp = True
        if comp:
            ctx.ok(rule, fn, "Ok dominated by completeness test (stream_len >= frame_length)")
        else:
            ctx.violation(rule, fn, "completeness test", "check() can return Ok without the `stream_len < frame_length` test", site=body.fn_loc())


# ------------------------------------------------------------------------------------------

def _closure_passes(prog, closure_id, error_adt_regex):
    """for a closure `|e| match e { .. }` used with map_err: returns (constructed, passes) where
    passes(v) says whether error variant v of the input can flow to the closure's result"""
    body = prog.A.get(closure_id)
    if body is None:
        return set(), (lambda v: True)
    constructed = set()
    for b in body.blocks:
        if b.get("cleanup"):
            continue
        for st in b["s"]:
            if "lhs" in st and st["rv"]["k"] == "agg" and st["rv"].get("ak") == "adt" and re.search(error_adt_regex, st["rv"]["adt"]):
                constructed.add((st["rv"]["adt"], st["rv"]["var"]))
    param = 2
    # blocks that move the parameter (or a binding copied from it) into the return place
    pass_blocks = set()
    for bi, b in enumerate(body.blocks):
        if b.get("cleanup"):
            continue
        for st in b["s"]:
            if "lhs" in st and st["lhs"]["l"] == 0:
                srcs = flatten_src(provenance(body, st["rv"]["a"])) if st["rv"]["k"] == "use" else \
                    [s for o in st["rv"].get("ops", []) for s in flatten_src(provenance(body, o))]
                if any(s.kind == "param" and s.l == param for s in srcs):
                    pass_blocks.add(bi)
    sws = [s for s in discr_switches(body, error_adt_regex) if s[4]["l"] == param]
    if not sws:
        return constructed, (lambda v: bool(pass_blocks))
    sw = sws[0]

    def passes(v):
        tgt = variant_target(sw, v)
        if tgt is None:
            return True
        return bool(reachable(body, (tgt,)) & pass_blocks)
    return constructed, passes


def error_sets(prog, cg, error_adt_regex):
    """P12: for every body, the set of variants of the codec Error enum it may return:
    variants constructed in the body ∪ sets of workspace callees, to a fixed point.  A callee
    result that is consumed only by `Result::map_err(res, |e| match e {..})` contributes the
    closure's image of its set instead (variants rewritten by the closure are filtered)."""
    local = {}
    sources = {}      # bid -> list of (callee, transformer closure id or None)
    transformers = {}
    for bid, body in prog.A.items():
        s = set()
        for b in body.blocks:
            if b.get("cleanup"):
                continue
            for st in b["s"]:
                if "lhs" in st and st["rv"]["k"] == "agg" and st["rv"].get("ak") == "adt" and re.search(error_adt_regex, st["rv"]["adt"]):
                    s.add((st["rv"]["adt"], st["rv"]["var"]))
        local[bid] = s
        src = []
        used_as_transformer = set()
        for bb, t in body.calls():
            if body.is_cleanup(bb) or not t["fn"].get("ws"):
                continue
            callee = callee_path(t)
            dest = t["dest"]["l"]
            consumer = None
            n_uses = 0
            for bb2, t2 in body.calls():
                for i, a in enumerate(t2["args"]):
                    if op_local(a) == dest:
                        n_uses += 1
                        if i == 0 and re.search(r"Result::<.*>::map_err$", callee_path(t2)) and len(t2["args"]) > 1:
                            for s_ in flatten_src(provenance(body, t2["args"][1])):
                                if s_.kind == "agg" and s_.adt in prog.A:
                                    consumer = s_.adt
            if consumer and n_uses == 1:
                src.append((callee, consumer))
                used_as_transformer.add(consumer)
            else:
                src.append((callee, None))
        for c in cg.edges.get(bid, ()):
            if c not in used_as_transformer and all(c != x[0] for x in src):
                src.append((c, None))
        sources[bid] = src
        for k in used_as_transformer:
            transformers[k] = _closure_passes(prog, k, error_adt_regex)
    sets = {k: set(v) for k, v in local.items()}
    changed = True
    while changed:
        changed = False
        for bid in sets:
            for (c, k) in sources[bid]:
                if c not in sets:
                    continue
                if k is None:
                    add = sets[c]
                else:
                    constructed, passes = transformers[k]
                    add = set(constructed) | {x for x in sets[c] if passes(x[1])}
                if not add <= sets[bid]:
                    sets[bid] |= add
                    changed = True
    return sets


def more_bytes(ctx, crate):
    rule = "R-C05-more-bytes"
    prog = ctx.progs[crate]
    cg = ctx.cg(crate)
    sets = error_sets(prog, cg, r"(^|::)Error$")
    for r in FRAME_ENTRIES[crate]:
        body = prog.one(r)
        fn = body.id
        splits = [bb for bb, t in body.calls() if SPLIT.search(callee_path(t)) and not body.is_cleanup(bb)]
        if not splits:
            ctx.anchor_missing(rule, "%s: no frame split" % fn)
            continue
        after = reachable_after(body, splits)
        n = 0
        for bb, t in body.calls():
            if bb not in after or body.is_cleanup(bb) or not t["fn"].get("ws"):
                continue
            callee = callee_path(t)
            if callee not in sets:
                continue
            n += 1
            leak = sorted(v for (adt, v) in sets[callee] if v == "InsufficientBytes")
            if leak:
                # witness chain
                chain = [callee]
                cur = callee
                seen = {cur}
                while True:
                    nxt = None
                    for c in sorted(cg.edges.get(cur, ())):
                        if c not in seen and any(v == "InsufficientBytes" for (_, v) in sets.get(c, ())):
                            nxt = c; break
                    if not nxt:
                        break
                    chain.append(nxt); seen.add(nxt); cur = nxt
                ctx.violation(rule, fn, "after frame split: " + callee,
                              "a reader called after the frame was consumed can return InsufficientBytes (a complete frame would be answered with 'need more bytes')",
                              site=body.loc(t.get("sp")), path=chain)
            else:
                ctx.ok(rule, fn, "after frame split: " + callee, site=body.loc(t.get("sp")))
        ctx.floor(rule, "reader calls after the frame split in %s" % fn, n, 10)
    # Codec::decode (rumqttc): InsufficientBytes -> Ok(None), nothing else -> Ok(None)
    if crate == "rumqttc":
        for r in [r"^<mqttbytes::v4::codec::Codec as tokio_util::codec::Decoder>::decode$",
                  r"^<v5::mqttbytes::v5::codec::Codec as tokio_util::codec::Decoder>::decode$"]:
            body = prog.one(r)
            decode_maps(ctx, rule, body)
    else:
        for r in [r"^link::network::Network::<P>::read::\{closure#0\}$", r"^link::network::Network::<P>::readv$"]:
            body = prog.one(r)
            loops_only_on_insufficient(ctx, rule, body)


def decode_maps(ctx, rule, body):
    fn = body.id
    # blocks that build Ok(None)
    none_blocks = set()
    for bi, b in enumerate(body.blocks):
        if b.get("cleanup"):
            continue
        for st in b["s"]:
            if "lhs" in st and st["rv"]["k"] == "agg" and st["rv"].get("var") == "None":
                none_blocks.add(bi)
    sw_err = [s for s in discr_switches(body, r"(^|::)Error$")]
    if not sw_err or not none_blocks:
        ctx.anchor_missing(rule, "%s: no match on Error / no Ok(None)" % fn)
        return
    good = False
    for (bi, adt, m, otherwise, pl, allv) in sw_err:
        tgt = m.get("InsufficientBytes")
        if tgt is None:
            continue
        r_ins = reachable(body, (tgt,))
        others = [x for v, x in m.items() if v != "InsufficientBytes"] + [otherwise]
        r_other = reachable(body, others, avoid_blocks=(tgt,)) if others else set()
        if r_ins & none_blocks and not (r_other & none_blocks):
            good = True
    if good:
        ctx.ok(rule, fn, "InsufficientBytes and only it maps to Ok(None)", site=body.fn_loc())
    else:
        ctx.violation(rule, fn, "decode mapping", "Codec::decode does not map exactly Error::InsufficientBytes to Ok(None)", site=body.fn_loc())


def loops_only_on_insufficient(ctx, rule, body):
    fn = body.id
    sw_err = [s for s in discr_switches(body, r"protocol::Error$")]
    if not sw_err:
        ctx.anchor_missing(rule, "%s: no match on protocol::Error" % fn)
        return
    rets = set(return_blocks(body))
    okc = False
    for (bi, adt, m, otherwise, pl, allv) in sw_err:
        tgt = m.get("InsufficientBytes")
        if tgt is None:
            continue
        # every other error variant edge must leave the loop: it cannot reach the read_mut call again
        calls = [bb for bb, t in body.calls() if re.search(r"Protocol(>)?::read_mut$", callee_path(t))]
        others = [x for v, x in m.items() if v != "InsufficientBytes"] + [otherwise]
        r_other = reachable(body, others, avoid_blocks=(tgt,))
        if not (r_other & set(calls)):
            okc = True
    if okc:
        ctx.ok(rule, fn, "only InsufficientBytes re-enters the read loop", site=body.fn_loc())
    else:
        ctx.violation(rule, fn, "read loop", "an error other than InsufficientBytes can re-enter the decode loop", site=body.fn_loc())


def asks_for_the_missing_bytes_only(ctx, crate):
    """The count in Error::InsufficientBytes(n) is what Network::read then waits for (read_bytes(n)) before it decodes
    again. It must be the number of bytes MISSING (needed - buffered), or the minimum 1; a constant larger than 1
    over-asks when part of the needed bytes is already buffered: with one byte of a 2-byte frame (PINGREQ,
    DISCONNECT) buffered the decoder then waits for a byte beyond the declared frame and the packet is not yielded."""
    rule = "R-C05-more-bytes"
    prog = ctx.progs[crate]
    fns = prog.find(r"(^|::)(protocol::v[45]|mqttbytes|mqttbytes::v5)::(check|parse_fixed_header|length)$", "A")
    n = 0
    for f in fns:
        for bi, b in enumerate(f.blocks):
            if b.get("cleanup"):
                continue
            for st in b["s"]:
                if "lhs" in st and st["rv"]["k"] == "agg" and st["rv"].get("var") == "InsufficientBytes" and st["rv"].get("adt", "").endswith("Error"):
                    n += 1
                    srcs = provenance(f, st["rv"]["ops"][0])
                    ok = bool(srcs)
                    why = ""
                    for s_ in srcs:
                        if s_.kind == "const":
                            if s_.v not in (1, "1"):
                                ok, why = False, "constant %s" % s_.v
                        elif s_.kind == "op" and str(s_.name).startswith("Sub"):
                            pass
                        else:
                            ok, why = False, "%s" % s_.kind
                    if ok:
                        ctx.ok(rule, f.id, "InsufficientBytes carries needed - buffered (or the minimum 1)", site=f.loc(st.get("sp")))
                    else:
                        ctx.violation(rule, f.id, "InsufficientBytes count is not the missing byte count",
                                      "Error::InsufficientBytes is built from %s, not from `needed - buffered`: when part of the needed bytes is already buffered the reader waits for bytes beyond the declared frame (a split 2-byte frame is never yielded)" % why,
                                      site=f.loc(st.get("sp")))
    ctx.floor(rule, "InsufficientBytes constructions in check/parse_fixed_header/length (%s)" % crate, n, 6)
