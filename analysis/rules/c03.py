"""C03 — no client behaviour can crash or halt the routing core (structural clauses, DESIGN §4 C03)."""
import re
from ..core import *
from ..panics import (inventory, apply_discharges, check_sites, same_operand, Site, short_recv)

EXPLANATION = (
    "Static decision on the MIR of /repo's working tree, for everything reachable in the call graph from Router::run_inner (the router thread's loop body): "
    "(R-C03-panic) every may-panic construct (Assert terminators, calls to `!` functions, dependency calls whose MIR-derived summary reaches a panic sink) is discharged or carries a signed audit entry; "
    "(R-C03-handle) every use of a connection id as an unchecked slab key (Slab::index/remove, get(..).unwrap(), Scheduler::{track,untrack,trackv,reschedule,pause}) is dominated by a checked lookup of the same id with no intervening removal, "
    "or receives an id that is validated at every call site (propagated up the call graph), or a live-by-construction id (Slab::insert result, notifications entry); "
    "(R-C03-align) the five per-connection slabs and connection_map are inserted into / removed from together; "
    "(R-C03-clean) handle_disconnection purges the waiters of the id on every path past its liveness check; "
    "(R-C03-pause) nothing between Scheduler::poll and Scheduler::pause in consume can push onto the ready queue; Scheduler::pause has no other caller; "
    "(R-C03-cache) the packet cache taken in handle_device_payload is put back on every path; "
    "(R-C03-exits) the router loop can only end through a channel receive error. "
    "(R-C03-handle, deferred disconnection) in handle_device_payload no Scheduler::track/reschedule/pause and no consume/prepare_filter is reachable after the deferred handle_disconnection. "
    "NOT decided: liveness beyond absence of panics/loop exits, memory exhaustion, operator-only console events (Event::PrintStatus) are audited not proven.")

ASSUMPTIONS = [
    "rustc MIR construction and callee resolution are correct; dependency panics derived from dependency MIR (depth 6) plus rules/ext_api.json",
    "usize/u64 counters and sizes do not overflow (Add/Mul asserts on 64-bit integers discharged)",
    "Event::PrintStatus / NewMeter / NewAlert / SendMeters / SendAlerts are produced only by in-process operator links (console, meters, alerts), not by MQTT clients",
]
TECHNIQUE = "static analysis: call-graph-wide MIR may-panic inventory with discharges + interprocedural validated-handle (typestate-like) analysis of connection ids + who-may-call/pairing/must-pass rules"
LEVEL_TEXT = ("Quantifies over all paths of the ~250 functions reachable from the router loop: each potentially panicking construct is either proved safe by a dominance/provenance discharge, "
              "or signed in rules/panic_audit.json with a reason; connection-id uses are checked interprocedurally against liveness checks. This decides 'no panic / no loop exit' structurally; it does not decide liveness.")
LEVEL_NOTE = "Trusted: rustc MIR; rules/ext_api.json (audited-total dependency APIs); rules/panic_audit.json scope C03; the five-slab alignment premise is itself checked (R-C03-align)."

ENTRY = r"^router::routing::Router::run_inner$"
SLAB_FIELDS = {"connections", "ibufs", "obufs", "ackslog", "trackers"}
SLAB_UNCHECKED = re.compile(r"^(<slab::Slab<T> as std::ops::Index(Mut)?<usize>>::index(_mut)?|slab::Slab::<T>::remove)$")
SLAB_GET = re.compile(r"^slab::Slab::<T>::(get|get_mut)$")
SLAB_INSERT = re.compile(r"^slab::Slab::<T>::insert$")
UNWRAP = re.compile(r"^std::option::Option::<T>::(unwrap|expect)$")
LIVE_SOURCES = [
    (re.compile(r"^slab::Slab::<T>::insert$"), "key just returned by Slab::insert"),
    (re.compile(r"router::scheduler::Scheduler::add$"), "key just returned by Scheduler::add (Slab::insert)"),
]


SLAB_BY_ELEM = {
    "router::connection::Connection": "connections",
    "router::iobufs::Incoming": "ibufs",
    "router::iobufs::Outgoing": "obufs",
    "router::logs::AckLog": "ackslog",
    "router::scheduler::Tracker": "trackers",
}


def slab_field(body, t):
    """which of the five key-aligned per-connection slabs a Slab call operates on (by element
    type, so that `connections: &mut Slab<Connection>` parameters are recognised too)"""
    ga = t["fn"].get("ga", "")
    m = re.match(r"\[([^\]]+)\]$", ga)
    if m and m.group(1) in SLAB_BY_ELEM:
        return SLAB_BY_ELEM[m.group(1)]
    return None


class Handles:
    """interprocedural validated-handle analysis"""

    def __init__(self, ctx, prog, cg, reach):
        self.ctx = ctx
        self.prog = prog
        self.cg = cg
        self.reach = reach
        self.req = {}          # fn id -> {param index: [description of inner unchecked use]}
        self.remove_reach = self._remove_reach()
        self.memo = {}

    def _remove_reach(self):
        """functions from which a Slab::remove on a per-connection slab is reachable"""
        direct = set()
        for body, bb, t in call_sites(self.prog, r"^slab::Slab::<T>::remove$"):
            if slab_field(body, t):
                direct.add(body.id)
        res = set(direct)
        changed = True
        while changed:
            changed = False
            for a, bs in self.cg.edges.items():
                if a not in res and bs & res:
                    res.add(a)
                    changed = True
        return res

    # ---- key operand classification
    def key_sources(self, body, op):
        return flatten_src(provenance(body, op, through_calls=[r"ops::Try>::branch$"]))

    def checked_lookup_dominates(self, body, key_op, site_bb):
        """(i): a checked Slab::get/get_mut of the same key on a per-connection slab whose Some edge
        dominates the site, with no intervening call that can reach a slab removal"""
        for bb, t in body.calls():
            if body.is_cleanup(bb) or not SLAB_GET.search(callee_path(t)) or not slab_field(body, t):
                continue
            if len(t["args"]) < 2 or not same_operand(body, t["args"][1], key_op):
                continue
            dest = t["dest"]["l"]
            some_t = none_t = None
            # result tested by a discriminant switch (possibly after a borrow `&self.obufs.get(id)`)
            aliases = {dest}
            for b2 in body.blocks:
                for st in b2["s"]:
                    if "lhs" in st and st["rv"]["k"] in ("ref", "use"):
                        src = st["rv"].get("pl") or op_place(st["rv"].get("a", {}))
                        if src is not None and src["l"] in aliases and not st["lhs"].get("p"):
                            aliases.add(st["lhs"]["l"])
            for s in discr_switches(body, r"option::Option$"):
                if s[4]["l"] in aliases:
                    some_t, none_t = variant_target(s, "Some"), variant_target(s, "None")
                    sw_bb = s[0]
                    break
            else:
                # `let x = map.get(id)?` — Try::branch on the Option
                from .c05 import try_ok_edge
                e = try_ok_edge(body, bb)
                if e:
                    sw_bb, some_t, none_t = e
            if some_t is None:
                continue
            if not dominates(body, some_t, site_bb) and some_t != site_bb:
                continue
            if none_t is not None and site_bb in reachable(body, (none_t,)):
                # the None edge must not reach the site
                if not dominates(body, some_t, site_bb):
                    continue
            # no intervening removal
            fwd = reachable(body, (some_t,))
            preds = body.preds()
            back = {site_bb}
            work = [site_bb]
            while work:
                x = work.pop()
                for p in preds[x]:
                    if p not in back:
                        back.add(p); work.append(p)
            bad = None
            for b3 in (fwd & back):
                if b3 == site_bb:
                    continue
                t3 = body.blocks[b3]["t"]
                if t3["k"] == "call":
                    cp = callee_path(t3)
                    # removing the *same* key from a sibling slab is the aligned group removal
                    same_key = len(t3["args"]) >= 2 and same_operand(body, t3["args"][1], key_op)
                    if t3["fn"].get("ws") and cp in self.remove_reach:
                        if not (same_key and re.search(r"Scheduler::remove$", cp)):
                            bad = (b3, cp)
                    if re.search(r"^slab::Slab::<T>::remove$", cp) and slab_field(body, t3) and not same_key:
                        bad = (b3, cp)
            if bad:
                continue
            return "checked %s.%s(id) at %s dominates the use; no call between can remove a connection" % (
                slab_field(body, t), callee_path(t).rsplit("::", 1)[-1], body.loc(t.get("sp")))
        return None

    def live_source(self, body, key_op):
        srcs = self.key_sources(body, key_op)
        if not srcs:
            return None
        reasons = []
        for s in srcs:
            if s.kind == "call":
                hit = None
                for r, why in LIVE_SOURCES:
                    if r.search(s.path):
                        hit = why
                if hit is None and re.search(r"VecDeque::<T, A>::pop_front$", s.path):
                    fs = receiver_fields(body, s.term)
                    if fs and fs[-1] == "notifications":
                        hit = "id of a parked waiter just moved to notifications (waiters of a removed id are purged by handle_disconnection: R-C03-clean)"
                if hit is None and re.search(r"ops::Try>::branch$", s.path):
                    continue
                if hit is None:
                    return None
                reasons.append(hit)
            else:
                return None
        return "; ".join(sorted(set(reasons))) if reasons else None

    def key_param(self, body, key_op):
        srcs = self.key_sources(body, key_op)
        ps = {s.l for s in srcs if s.kind == "param" and not s.fields}
        if len(ps) == 1 and all(s.kind == "param" for s in srcs):
            return ps.pop()
        return None

    def discharge_use(self, body, key_op, site_bb, depth=0, stack=()):
        """returns a discharge string or None for a use of key_op at site_bb in body"""
        d = self.checked_lookup_dominates(body, key_op, site_bb)
        if d:
            return d
        d = self.live_source(body, key_op)
        if d:
            return "live-by-construction: " + d
        p = self.key_param(body, key_op)
        if p is not None and depth < 6:
            return self.all_callers_validate(body.id, p, depth, stack)
        return None

    def all_callers_validate(self, fn_id, param, depth, stack):
        key = (fn_id, param)
        if key in stack:
            return "recursive"
        if key in self.memo:
            return self.memo[key]
        callers = []
        for cid in self.cg.callers(fn_id):
            cb = self.prog.A.get(cid)
            if cb is None or cid not in self.reach:
                continue
            for bb, t in cb.calls():
                if callee_path(t) == fn_id and not cb.is_cleanup(bb):
                    callers.append((cb, bb, t))
        if not callers:
            self.memo[key] = None
            return None
        whys = []
        for cb, bb, t in callers:
            if len(t["args"]) < param:
                self.memo[key] = None
                return None
            d = self.discharge_use(cb, t["args"][param - 1], bb, depth + 1, stack + (key,))
            if not d:
                self.memo[key] = None
                self.failed_at = (cb, bb, t)
                return None
            whys.append("%s: %s" % (cb.id.rsplit("::", 1)[-1], d))
        res = "every call site passes a validated id [" + " | ".join(sorted(set(whys)))[:400] + "]"
        self.memo[key] = res
        return res


def handle_discharger(h):
    def discharge(site):
        body = site.body
        t = site.term
        if site.kind != "ext":
            return None
        cp = site.callee
        key_op = None
        if SLAB_UNCHECKED.search(cp) and slab_field(body, t) and len(t["args"]) >= 2:
            key_op = t["args"][1]
        elif UNWRAP.search(cp):
            # receiver is the result of Slab::get/get_mut on a per-connection slab
            l = op_local(t["args"][0])
            d = single_def(body, l) if l is not None else None
            hops = 0
            while d and d[2] == "assign" and d[3]["rv"]["k"] == "use" and hops < 4:
                l = op_local(d[3]["rv"]["a"]); d = single_def(body, l) if l is not None else None; hops += 1
            if d and d[2] == "call" and SLAB_GET.search(callee_path(d[3])) and slab_field(body, d[3]):
                key_op = d[3]["args"][1]
                site.recv = "." + slab_field(body, d[3]) + ".get"
        if key_op is None:
            return None
        h.failed_at = None
        r = h.discharge_use(body, key_op, site.bb)
        if r:
            return "validated-handle: " + r
        if h.failed_at is not None:
            cb, bb, ct = h.failed_at
            site.detail += " | unvalidated id reaches this use from %s at %s" % (cb.id, cb.loc(ct.get("sp")))
        return None
    return discharge


def run(ctx):
    prog = ctx.progs["rumqttd"]
    cg = ctx.cg("rumqttd")
    entry = prog.one(ENTRY)
    reach = cg.reach([entry.id])
    ctx.stats["reachable_functions"] = len(reach)
    ctx.floor("R-C03-panic", "functions reachable from Router::run_inner", len(reach), 150)
    h = Handles(ctx, prog, cg, reach)
    sites, cnt = inventory(prog, reach)
    apply_discharges(sites, extra=[handle_discharger(h)])
    n_handle = sum(1 for s in sites if s.discharge and s.discharge.startswith("validated-handle"))
    ctx.stats["validated_handle_discharges"] = n_handle
    ctx.floor("R-C03-handle", "id-keyed uses discharged by the validated-handle analysis", n_handle, 20)
    check_sites(ctx, "R-C03-panic", sites, "C03", "Router::run_inner", cg, [entry.id])
    for k, v in cnt.items():
        ctx.stats["inventory/" + k] = v
    ctx.guarded("R-C03-align", align, ctx, prog, reach)
    ctx.guarded("R-C03-native", native_append_only, ctx, prog)
    ctx.guarded("R-C03-clean", clean, ctx, prog)
    ctx.guarded("R-C03-pause", pause, ctx, prog, cg)
    ctx.guarded("R-C03-cache", cache, ctx, prog)
    ctx.guarded("R-C03-exits", exits, ctx, prog)
    ctx.guarded("R-C03-config", config_args, ctx, prog)
    ctx.guarded("R-C03-panic", duplicates_key, ctx, prog)
    ctx.guarded("R-C03-handle", disconnection_is_last, ctx, prog)


# ------------------------------------------------------------------------------------------

def align(ctx, prog, reach):
    rule = "R-C03-align"
    ins = {}
    rem = {}
    for body in prog.A.values():
        for bb, t in body.calls():
            if body.is_cleanup(bb):
                continue
            cp = callee_path(t)
            f = slab_field(body, t)
            if SLAB_INSERT.search(cp) and f:
                ins.setdefault(body.id, set()).add(f)
            if re.search(r"^slab::Slab::<T>::remove$", cp) and f:
                rem.setdefault(body.id, set()).add(f)
            if re.search(r"router::scheduler::Scheduler::add$", cp):
                ins.setdefault(body.id, set()).add("trackers")
            if re.search(r"router::scheduler::Scheduler::remove$", cp):
                rem.setdefault(body.id, set()).add("trackers")
            fs = receiver_fields(body, t)
            if fs and fs[-1] == "connection_map":
                if re.search(r"HashMap::<K, V, S, A>::insert$", cp):
                    ins.setdefault(body.id, set()).add("connection_map")
                if re.search(r"HashMap::<K, V, S, A>::remove$", cp):
                    rem.setdefault(body.id, set()).add("connection_map")
    full = SLAB_FIELDS | {"connection_map"}
    wrappers = {"router::scheduler::Scheduler::add": {"trackers"}, "router::scheduler::Scheduler::remove": {"trackers"}}
    n = 0
    for kind, table in (("insert", ins), ("remove", rem)):
        for fn, fields in sorted(table.items()):
            if fn in wrappers and fields == wrappers[fn]:
                ctx.ok(rule, fn, "%s wrapper for trackers" % kind, trivial=True)
                continue
            n += 1
            if fields == full:
                ctx.ok(rule, fn, "%s on all five slabs and connection_map" % kind, site=prog.A[fn].fn_loc())
            else:
                ctx.violation(rule, fn, "%s set" % kind,
                              "%s touches %s but not %s: the per-connection slabs would lose key alignment" % (kind, sorted(fields), sorted(full - fields)),
                              site=prog.A[fn].fn_loc())
    ctx.floor(rule, "functions inserting/removing connections", n, 2)


def native_append_only(ctx, prog):
    """R-C03-native: DataLog.native (Slab<Data<PublishData>>) is append-only, so every FilterIdx
    ever handed out stays valid (premise of the audited `native.get(idx).unwrap()` sites)"""
    rule = "R-C03-native"
    n_ins = 0
    for body in prog.A.values():
        for bb, t in body.calls():
            if body.is_cleanup(bb):
                continue
            ga = t["fn"].get("ga", "")
            if "router::logs::Data<" not in ga or not callee_path(t).startswith("slab::Slab::<T>::"):
                continue
            name = callee_path(t).rsplit("::", 1)[-1]
            if name in ("remove", "try_remove", "clear", "retain", "drain", "shrink_to_fit", "compact"):
                ctx.violation(rule, body.id, "native." + name,
                              "DataLog.native is mutated by %s: a FilterIdx held by a DataRequest, filter_indexes or publish_filters could dangle" % name,
                              site=body.loc(t.get("sp")))
            elif name == "insert":
                n_ins += 1
                ctx.ok(rule, body.id, "native.insert", site=body.loc(t.get("sp")))
    ctx.floor(rule, "native.insert sites", n_ins, 2)
    # the field is only reachable through DataLog: no whole-field assignment outside DataLog::new
    for body, bi, st in field_writes(prog, "native"):
        if not body.id.endswith("DataLog::new"):
            ctx.violation(rule, body.id, "assigns native", "DataLog.native is replaced wholesale", site=body.loc(st.get("sp")))


def liveness_check(body):
    """the checked obufs/ibufs lookup at the top of a handler: returns (some_target, none_target)"""
    for bb, t in body.calls():
        if body.is_cleanup(bb) or not SLAB_GET.search(callee_path(t)) or not slab_field(body, t):
            continue
        dest = t["dest"]["l"]
        aliases = {dest}
        for b2 in body.blocks:
            for st in b2["s"]:
                if "lhs" in st and st["rv"]["k"] in ("ref", "use"):
                    src = st["rv"].get("pl") or op_place(st["rv"].get("a", {}))
                    if src is not None and src["l"] in aliases and not st["lhs"].get("p"):
                        aliases.add(st["lhs"]["l"])
        for s in discr_switches(body, r"option::Option$"):
            if s[4]["l"] in aliases:
                return bb, variant_target(s, "Some"), variant_target(s, "None")
    return None


def clean(ctx, prog):
    rule = "R-C03-clean"
    body = prog.one(r"^router::routing::Router::handle_disconnection$")
    lc = liveness_check(body)
    if not lc:
        ctx.anchor_missing(rule, "handle_disconnection: liveness check not found")
        return
    cbb, some_t, none_t = lc
    cleans = [bb for bb, t in body.calls() if re.search(r"router::logs::DataLog::clean$", callee_path(t)) and not body.is_cleanup(bb)]
    removes = [bb for bb, t in body.calls() if re.search(r"^slab::Slab::<T>::remove$", callee_path(t)) and slab_field(body, t) and not body.is_cleanup(bb)]
    ctx.floor(rule, "DataLog::clean calls in handle_disconnection", len(cleans), 1)
    # every path from a slab removal to return passes DataLog::clean
    rets = return_blocks(body)
    for rb in removes:
        if must_pass(body, [rb], rets, via_blocks=cleans):
            ctx.ok(rule, body.id, "removal at %s is followed by DataLog::clean on every path" % body.loc(body.blocks[rb]["t"].get("sp")))
        else:
            p = find_path(body, [rb], rets, avoid_blocks=cleans)
            ctx.violation(rule, body.id, "removal without waiter purge",
                          "a path removes the connection from the slabs and returns without DataLog::clean(id): a parked waiter would later name a removed id",
                          site=body.loc(body.blocks[rb]["t"].get("sp")), path=path_lines(body, p) if p else None)
    # DataLog::clean removes the id from every filter's waiters
    cb = prog.one(r"^router::logs::DataLog::clean$")
    wr = [bb for bb, t in cb.calls() if re.search(r"router::waiters::Waiters::<T>::remove$", callee_path(t))]
    it = [bb for bb, t in cb.calls() if re.search(r"slab::Slab::<T>::iter_mut$", callee_path(t))]

    def removes_all(body):
        """the function removes *every* entry of the id from one waiter queue: either with retain,
        or with a position()/remove loop that goes back to position() without advancing to the
        next filter (a single `if let Some(i) = position(..) { remove(i) }` leaves duplicates behind:
        a plain and a $share subscription on the same topic share one queue)"""
        calls = list(body.calls())
        if any(re.search(r"VecDeque::<T, A>::retain(_mut)?$", callee_path(t)) for _, t in calls):
            return True
        rem = [bb for bb, t in calls if re.search(r"VecDeque::<T, A>::(swap_remove_back|swap_remove_front|remove)$", callee_path(t)) and not body.is_cleanup(bb)]
        pos = [bb for bb, t in calls if re.search(r"Iterator::position$", callee_path(t)) and not body.is_cleanup(bb)]
        outer = [bb for bb, t in calls if re.search(r"slab::(IterMut|Iter)<.*> as std::iter::Iterator>::next$", callee_path(t))]
        return bool(rem and pos and any(p in reachable_after(body, [r], avoid_blocks=outer) for r in rem for p in pos))
    purge = None
    if wr:
        wbody = prog.one(r"^router::waiters::Waiters::<T>::remove$")
        purge = removes_all(wbody)
        where = wbody
    else:
        purge = removes_all(cb)
        where = cb
    if it and purge:
        ctx.ok(rule, cb.id, "visits every filter (native.iter_mut) and removes every parked request of the id (%s)" % where.id.rsplit("::", 2)[-2])
    else:
        ctx.violation(rule, cb.id, "purge shape", "DataLog::clean no longer removes every parked request of the departing id from every filter's waiters: a stale waiter would later name a removed connection", site=cb.fn_loc())


def pause(ctx, prog, cg):
    rule = "R-C03-pause"
    # functions that can push onto readyqueue
    direct = set()
    for body, bb, t in call_sites(prog, r"VecDeque::<T, A>::push_back$"):
        fs = receiver_fields(body, t)
        if fs and fs[-1] == "readyqueue":
            direct.add(body.id)
    pushers = set(direct)
    changed = True
    while changed:
        changed = False
        for a, bs in cg.edges.items():
            if a not in pushers and bs & pushers:
                pushers.add(a); changed = True
    body = prog.one(r"^router::routing::Router::consume$")
    polls = [bb for bb, t in body.calls() if re.search(r"router::scheduler::Scheduler::poll$", callee_path(t))]
    pauses = [bb for bb, t in body.calls() if re.search(r"router::scheduler::Scheduler::pause$", callee_path(t)) and not body.is_cleanup(bb)]
    ctx.floor(rule, "Scheduler::pause calls in consume", len(pauses), 3)
    if len(polls) != 1:
        ctx.anchor_missing(rule, "consume: expected one Scheduler::poll call")
        return
    fwd = reachable_after(body, polls)
    preds = body.preds()
    for pb in pauses:
        back = {pb}
        work = [pb]
        while work:
            x = work.pop()
            for p in preds[x]:
                if p not in back:
                    back.add(p); work.append(p)
        bad = []
        for b in (fwd & back):
            if b == pb:
                continue
            t = body.blocks[b]["t"]
            if t["k"] == "call" and t["fn"].get("ws") and callee_path(t) in pushers and b not in pauses:
                bad.append((b, callee_path(t)))
        if bad:
            ctx.violation(rule, body.id, "push between poll and pause",
                          "%s can push onto the ready queue between Scheduler::poll and Scheduler::pause: pause's assert_eq!(pop_back(), id) would fail" % bad[0][1],
                          site=body.loc(body.blocks[bad[0][0]]["t"].get("sp")))
        else:
            ctx.ok(rule, body.id, "pause at %s: no ready-queue push since poll" % body.loc(body.blocks[pb]["t"].get("sp")))
    # who may call pause
    callers = sorted(set(b.id for b, bb, t in call_sites(prog, r"router::scheduler::Scheduler::pause$")))
    if callers == [body.id]:
        ctx.ok(rule, "router::scheduler::Scheduler::pause", "only caller is Router::consume")
    else:
        ctx.violation(rule, "router::scheduler::Scheduler::pause", "callers",
                      "Scheduler::pause (which asserts the id is at the back of the ready queue) is called from %s" % callers)
    # poll pushes the id at the back
    pb = prog.one(r"^router::scheduler::Scheduler::poll$")
    if pb.id in direct:
        ctx.ok(rule, pb.id, "poll re-queues the polled id at the back of readyqueue")
    else:
        ctx.violation(rule, pb.id, "requeue", "Scheduler::poll no longer pushes the polled id onto readyqueue", site=pb.fn_loc())


def cache(ctx, prog):
    rule = "R-C03-cache"
    body = prog.one(r"^router::routing::Router::handle_device_payload$")
    takes = []
    for bb, t in body.calls():
        if body.is_cleanup(bb):
            continue
        if re.search(r"Option::<T>::take$", callee_path(t)):
            fs = receiver_fields(body, t)
            if fs and fs[-1] == "cache":
                takes.append(bb)
    puts = []
    for bi, b in enumerate(body.blocks):
        if b.get("cleanup"):
            continue
        for st in b["s"]:
            if "lhs" in st and place_fields(st["lhs"])[-1:] == ["cache"]:
                puts.append(bi)
    # the assignment `self.cache = Some(..)` is compiled as drop+assign; accept Drop-replace blocks too
    if not takes:
        ctx.anchor_missing(rule, "handle_device_payload: self.cache.take() not found")
        return
    ctx.floor(rule, "writes of self.cache", len(puts), 1)
    rets = return_blocks(body)
    for tb in takes:
        if must_pass(body, [tb], rets, via_blocks=puts):
            ctx.ok(rule, body.id, "cache taken at %s is restored on every path to return" % body.loc(body.blocks[tb]["t"].get("sp")))
        else:
            p = find_path(body, [tb], rets, avoid_blocks=puts)
            ctx.violation(rule, body.id, "cache not restored",
                          "a path from self.cache.take() returns without `self.cache = Some(..)`: the next DeviceData event would panic on unwrap",
                          site=body.loc(body.blocks[tb]["t"].get("sp")), path=path_lines(body, p) if p else None)


def exits(ctx, prog):
    rule = "R-C03-exits"
    body = prog.one(ENTRY)
    # every `?` in run_inner is on the result of a flume recv
    n = 0
    for bb, t in body.calls():
        if body.is_cleanup(bb):
            continue
        if re.search(r"ops::Try>::branch$", callee_path(t)):
            srcs = flatten_src(provenance(body, t["args"][0]))
            n += 1
            if all(s.kind == "call" and re.search(r"^flume::Receiver::<T>::(recv|try_recv)$", s.path) for s in srcs):
                ctx.ok(rule, body.id, "`?` at %s propagates only a channel receive error" % body.loc(t.get("sp")))
            else:
                ctx.violation(rule, body.id, "error exit", "run_inner can return Err from something other than the event channel: %s" % srcs,
                              site=body.loc(t.get("sp")))
    for bi, b in enumerate(body.blocks):
        if b.get("cleanup"):
            continue
        for st in b["s"]:
            if "lhs" in st and st["rv"]["k"] == "agg" and st["rv"].get("adt", "").endswith("RouterError"):
                n += 1
                if st["rv"]["var"] == "Disconnected":
                    ctx.ok(rule, body.id, "constructs RouterError::Disconnected (channel closed)", site=body.loc(st.get("sp")))
                else:
                    ctx.violation(rule, body.id, "constructs RouterError::" + st["rv"]["var"],
                                  "the router loop ends with an error that is not a channel failure", site=body.loc(st.get("sp")))
    ctx.floor(rule, "exit edges of run_inner", n, 2)
    # events / consume cannot end the loop: they return no Result
    for r in (r"^router::routing::Router::events$",):
        b = prog.one(r)
        if "Result" in b.local_ty(0):
            ctx.violation(rule, b.id, "returns Result", "Router::events now returns a Result: a client-triggered error could end the router loop", site=b.fn_loc())
        else:
            ctx.ok(rule, b.id, "returns %s (cannot propagate an error into the loop)" % b.local_ty(0))


# parameter of CommitLog::new -> config field names it may be read from (RouterConfig and SegmentConfig)
COMMITLOG_ARGS = {1: ("max_segment_size", {"max_segment_size"}), 2: ("max_mem_segments", {"max_segment_count", "max_mem_segments"})}


def config_args(ctx, prog):
    """Premise of the audit entry for CommitLog::new's two configuration panics ("depend only on the
    configuration, a valid configuration never trips them"): each size argument is read from the config
    field that means that size.  A swapped field (segment count used as segment size) turns a valid
    configuration into a router-thread panic on an ordinary SUBSCRIBE."""
    rule = "R-C03-config"
    n = 0
    for body, bb, t in call_sites(prog, r"segments::CommitLog::<T>::new$"):
        if body.is_cleanup(bb) or body.id.startswith("segments::"):
            continue
        n += 1
        for argi, (pname, allowed) in COMMITLOG_ARGS.items():
            src = flatten_src(provenance(body, t["args"][argi - 1]))
            names = set()
            unknown = False
            for s_ in src:
                f = getattr(s_, "fields", None)
                if f:
                    names.add(f[-1].split(".")[-1])
                elif s_.kind == "const":
                    names.add("<const %s>" % s_.v)
                else:
                    unknown = True
            bad = sorted(x for x in names if x not in allowed and not x.startswith("<const"))
            if bad or unknown or not names:
                ctx.violation(rule, body.id, "CommitLog::new(%s) source" % pname,
                              "argument `%s` of CommitLog::new is read from %s (expected only config fields %s): a valid configuration can now trip the explicit size panics of CommitLog::new on the router thread"
                              % (pname, bad or sorted(names) or "an untracked value", sorted(allowed)), site=body.loc(t.get("sp")))
            else:
                ctx.ok(rule, body.id, "CommitLog::new(%s) is read from config field(s) %s" % (pname, sorted(names)), site=body.loc(t.get("sp")))
    ctx.floor(rule, "CommitLog::new call sites outside segments::", n, 1)


def duplicates_key(ctx, prog):
    """Precondition of two audit entries (`debug_assert!(check_tracker_duplicates(id).is_none())` in prepare_filter and
    handle_new_connection): the audit argues from `connection.subscriptions.insert(filter) == true`, i.e. uniqueness
    of the subscription PATH. That carries over to the assertion only if check_tracker_duplicates tests uniqueness
    in the same key space. filter_idx is not: `t` and `$share/g/t` are two subscriptions on one log."""
    rule = "R-C03-panic"
    bodies = [prog.one(r"^router::scheduler::Scheduler::check_tracker_duplicates$")] + prog.find(r"^router::scheduler::Scheduler::check_tracker_duplicates::\{closure#\d+\}$")
    keys = []
    for b in bodies:
        for bb, t in b.calls():
            if re.search(r"HashSet::<T, S(, A)?>::insert$", callee_path(t)) and not b.is_cleanup(bb):
                for s in flatten_src(provenance(b, t["args"][1], through_calls=[r"Clone>::clone$", r"String::as_str$", r"Deref>::deref$"])):
                    if getattr(s, "fields", None):
                        keys.append((s.fields[-1], b, t))
    if not keys:
        raise AnchorMissing("check_tracker_duplicates: the uniqueness key (HashSet::insert of a DataRequest field) was not found")
    for k, b, t in keys:
        if k == "filter":
            ctx.ok(rule, b.id, "duplicates are judged by DataRequest.filter, the key of connection.subscriptions (precondition of the audit entries on the debug assertion)", site=b.loc(t.get("sp")))
        else:
            ctx.violation(rule, b.id, "assertion key is not the subscription key: %s" % k,
                          "check_tracker_duplicates judges duplicates by DataRequest.%s while the guard the audit relies on (connection.subscriptions.insert) is keyed by the subscription path: `t` and `$share/g/t` are two subscriptions with ONE %s, "
                          "so a client that sends both in one read fails `debug_assert!(check_tracker_duplicates(id).is_none())` in prepare_filter and — in a build with debug assertions — ends the router thread" % (k, k),
                          site=b.loc(t.get("sp")))


def disconnection_is_last(ctx, prog):
    """handle_device_payload defers the disconnection of the connection it is reading to the end (flag). Everything
    that still names a connection by id - the drain of Router.notifications into Scheduler::track / reschedule (which
    unwrap / index the tracker slab) - has to happen BEFORE the deferred handle_disconnection: the batch that sets
    the flag may also have woken a parked request of the very connection that is then removed (a client subscribed
    to the topic it publishes on, PUBLISH + DISCONNECT in one read)."""
    rule = "R-C03-handle"
    f = prog.one(r"^router::routing::Router::handle_device_payload$")
    dis = [(bb, t) for bb, t in f.calls() if callee_path(t).endswith("Router::handle_disconnection") and not f.is_cleanup(bb)]
    ctx.floor(rule, "deferred handle_disconnection calls in handle_device_payload", len(dis), 1)
    for bb, t in dis:
        after = reachable_after(f, [bb])
        bad = [(b2, t2) for b2, t2 in f.calls() if b2 in after and not f.is_cleanup(b2)
               and re.search(r"router::scheduler::Scheduler::(track|reschedule|pause|trackv)$|router::routing::Router::(consume|prepare_filter)$", callee_path(t2))]
        if bad:
            b2, t2 = bad[0]
            ctx.violation(rule, f.id, "scheduler used after the deferred disconnection",
                          "handle_device_payload calls %s on a path after handle_disconnection removed the connection: a request of that connection woken by the same batch names a vacant tracker slot (unwrap / index panic in the router thread)" % callee_path(t2).split("::", 2)[-1],
                          site=f.loc(t2.get("sp")))
        else:
            ctx.ok(rule, f.id, "the deferred handle_disconnection is the last scheduler-affecting action of handle_device_payload", site=f.loc(t.get("sp")))
