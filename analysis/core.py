"""Analysis primitives over the MIR facts (DESIGN.md §2.2): CFG queries, dominators,
call graph, reachability, provenance, handler tables."""
import re
from collections import defaultdict, deque

from .facts import AnchorMissing, fmt_place, fmt_op, fmt_rv, fmt_term

# ------------------------------------------------------------------------------------------
# operands / places

def op_place(op):
    """place of a Copy/Move operand, else None"""
    if op is None:
        return None
    return op.get("c") or op.get("m")


def op_const(op):
    return op.get("k") if op else None


def op_local(op):
    """local of an operand that is a bare local (no projection), else None"""
    pl = op_place(op)
    if pl is not None and not pl.get("p"):
        return pl["l"]
    return None


def place_fields(pl):
    """list of field names along a place's projection"""
    return [p["f"] for p in (pl.get("p") or []) if isinstance(p, dict) and "f" in p]


def place_key(pl):
    """hashable structural key of a place"""
    parts = [pl["l"]]
    for p in pl.get("p") or []:
        if isinstance(p, str):
            parts.append(p)
        elif "f" in p:
            parts.append("." + p["f"])
        elif "d" in p:
            parts.append("as " + p["d"])
        elif "ix" in p:
            parts.append("[%d]" % p["ix"])
        else:
            parts.append("[c]")
    return tuple(parts)


def callee_path(t):
    return t["fn"].get("path", "")


def call_matches(t, regex):
    return t["k"] == "call" and re.search(regex, callee_path(t)) is not None


# ------------------------------------------------------------------------------------------
# CFG

def const_switch_value(body, bb):
    """If block bb ends in a SwitchInt whose discriminant is a compile-time constant
    (`cfg!(..)`, `if true`), return that value, else None."""
    t = body.blocks[bb]["t"]
    if t["k"] != "switch":
        return None
    on = t["on"]
    k = op_const(on)
    if k is not None:
        return k.get("v")
    l = op_local(on)
    if l is None:
        return None
    for st in reversed(body.blocks[bb]["s"]):
        if "lhs" in st and not st["lhs"].get("p") and st["lhs"]["l"] == l:
            rv = st["rv"]
            if rv["k"] == "use":
                kk = op_const(rv["a"])
                if kk is not None:
                    return kk.get("v")
            return None
    return None


def live_succ(body, bb):
    """successors with constant switches resolved (dead arms dropped); no unwind edges"""
    t = body.blocks[bb]["t"]
    if t["k"] == "switch":
        v = const_switch_value(body, bb)
        if v is not None:
            for val, tgt in t["targets"]:
                if val == v:
                    return [tgt]
            return [t["otherwise"]]
    return body.succs()[bb]


def reachable(body, starts=(0,), avoid_blocks=(), avoid_edges=(), succ=None):
    """blocks reachable from `starts` (inclusive) without entering avoid_blocks or using
    avoid_edges"""
    succ = succ or (lambda b: live_succ(body, b))
    avoid_blocks = set(avoid_blocks)
    avoid_edges = set(avoid_edges)
    seen = set()
    work = [s for s in starts if s not in avoid_blocks]
    seen.update(work)
    while work:
        b = work.pop()
        for s in succ(b):
            if s in seen or s in avoid_blocks or (b, s) in avoid_edges:
                continue
            seen.add(s)
            work.append(s)
    return seen


def reachable_after(body, starts, avoid_blocks=(), avoid_edges=()):
    """blocks reachable from the *successors* of `starts` (the starts themselves only if on a cycle)"""
    nxt = []
    for b in starts:
        for s in live_succ(body, b):
            if (b, s) not in set(avoid_edges):
                nxt.append(s)
    return reachable(body, nxt, avoid_blocks, avoid_edges)


def dominators(body):
    """immediate-dominator based dominator sets for the non-unwind CFG; returns dict bb -> set"""
    if body._dom is not None:
        return body._dom
    n = len(body.blocks)
    reach = reachable(body, (0,))
    order = []
    seen = set()

    def dfs(start):
        stack = [(start, iter(live_succ(body, start)))]
        seen.add(start)
        while stack:
            node, it = stack[-1]
            adv = False
            for s in it:
                if s not in seen:
                    seen.add(s)
                    stack.append((s, iter(live_succ(body, s))))
                    adv = True
                    break
            if not adv:
                order.append(node)
                stack.pop()
    dfs(0)
    rpo = list(reversed(order))
    idx = {b: i for i, b in enumerate(rpo)}
    preds = defaultdict(list)
    for b in rpo:
        for s in live_succ(body, b):
            if s in idx:
                preds[s].append(b)
    idom = {0: 0}
    changed = True
    while changed:
        changed = False
        for b in rpo[1:]:
            new = None
            for p in preds[b]:
                if p in idom:
                    if new is None:
                        new = p
                    else:
                        a, c = p, new
                        while a != c:
                            while idx[a] > idx[c]:
                                a = idom[a]
                            while idx[c] > idx[a]:
                                c = idom[c]
                        new = a
            if new is not None and idom.get(b) != new:
                idom[b] = new
                changed = True
    dom = {}
    for b in rpo:
        s = {b}
        x = b
        while x != 0 and x in idom:
            x = idom[x]
            s.add(x)
        dom[b] = s
    body._dom = dom
    return dom


def dominates(body, a, b):
    d = dominators(body)
    return b in d and a in d[b]


def return_blocks(body):
    return [i for i, b in enumerate(body.blocks) if b["t"]["k"] == "return" and not b.get("cleanup")]


def must_pass(body, frm, to, via_blocks=(), via_edges=(), include_from=False):
    """True iff every path from any block in `frm` to any block in `to` enters a block of
    via_blocks or uses an edge of via_edges.  With include_from=False the path starts at the
    successors of frm."""
    to = set(to)
    if include_from:
        r = reachable(body, frm, via_blocks, via_edges)
    else:
        r = reachable_after(body, frm, via_blocks, via_edges)
    return not (r & to)


def find_path(body, frm, to, avoid_blocks=(), avoid_edges=(), include_from=False):
    """a witness path (list of blocks) from frm to to avoiding ..., or None"""
    to = set(to)
    avoid_blocks = set(avoid_blocks)
    avoid_edges = set(avoid_edges)
    prev = {}
    dq = deque()
    if include_from:
        for b in frm:
            if b not in avoid_blocks:
                prev[b] = None
                dq.append(b)
    else:
        for b in frm:
            for s in live_succ(body, b):
                if s not in avoid_blocks and (b, s) not in avoid_edges and s not in prev:
                    prev[s] = b if False else None
                    dq.append(s)
    while dq:
        b = dq.popleft()
        if b in to:
            path = [b]
            while prev[path[-1]] is not None:
                path.append(prev[path[-1]])
            return list(reversed(path))
        for s in live_succ(body, b):
            if s in prev or s in avoid_blocks or (b, s) in avoid_edges:
                continue
            prev[s] = b
            dq.append(s)
    return None


def path_lines(body, path):
    """source lines touched along a block path (for reports)"""
    out = []
    for b in path:
        t = body.blocks[b]["t"]
        sp = t.get("sp")
        if sp is not None:
            loc = body.loc(sp)
            if not out or out[-1] != loc:
                out.append(loc)
    return out


# ------------------------------------------------------------------------------------------
# definitions / provenance

def defs_of(body, local):
    """all definitions of a bare local: list of (bb, idx, kind, payload) where kind is
    'assign' (payload rvalue) or 'call' (payload terminator) or 'yield'"""
    cache = body.raw.setdefault("_defs", None)
    if cache is None:
        cache = defaultdict(list)
        for bi, b in enumerate(body.blocks):
            for si, st in enumerate(b["s"]):
                if "lhs" in st:
                    cache[st["lhs"]["l"]].append((bi, si, "assign" if not st["lhs"].get("p") else "partial", st))
            t = b["t"]
            if t["k"] == "call":
                cache[t["dest"]["l"]].append((bi, None, "call" if not t["dest"].get("p") else "partial", t))
        body.raw["_defs"] = cache
    return cache.get(local, [])


def single_def(body, local):
    ds = [d for d in defs_of(body, local) if d[2] in ("assign", "call")]
    if len(ds) == 1:
        return ds[0]
    return None


class Src:
    """a provenance leaf"""
    def __init__(self, kind, **kw):
        self.kind = kind
        self.__dict__.update(kw)

    def __repr__(self):
        d = {k: v for k, v in self.__dict__.items() if k not in ("kind", "body", "term", "stmt")}
        return "Src(%s %s)" % (self.kind, d)


def provenance(body, op, depth=0, seen=None, through_calls=()):
    """Backward provenance of an operand through copies/moves/refs/derefs/casts/arithmetic and
    single-definition temporaries.  Returns a list of Src leaves:
      param(l, fields)        – function parameter (or captured upvar) possibly projected
      field(base, fields)     – read of a field path of a non-temp local
      call(path, term, bb)    – result of a call (args not followed unless path matches through_calls)
      const(v, s)
      agg(adt, var, ops)      – aggregate construction
      op(name)                – arithmetic on leaves (children in .args)
      unknown
    """
    if seen is None:
        seen = set()
    out = []
    k = op_const(op)
    if k is not None:
        return [Src("const", v=k.get("v"), s=k.get("s"), promoted=k.get("promoted"), fn=k.get("fn"))]
    pl = op_place(op)
    if pl is None:
        return [Src("unknown")]
    return place_provenance(body, pl, depth, seen, through_calls)


def place_provenance(body, pl, depth=0, seen=None, through_calls=()):
    if seen is None:
        seen = set()
    l = pl["l"]
    fields = [p for p in (pl.get("p") or [])]
    fkey = place_key(pl)
    if (fkey) in seen or depth > 40:
        # a definition that refers back to itself (x = x - n) adds no new source: the other
        # definitions of the cycle supply the leaves
        return [] if depth <= 40 and fkey in seen else [Src("unknown", why="depth")]
    seen = seen | {fkey}
    if 1 <= l <= body.argc:
        return [Src("param", l=l, name=body.local_name(l), fields=place_fields(pl), proj=fields)]
    ds = defs_of(body, l)
    full = [d for d in ds if d[2] in ("assign", "call")]
    if not full:
        return [Src("unknown", why="no def", l=l)]
    out = []
    for (bb, si, kind, payload) in full:
        if kind == "call":
            t = payload
            path = callee_path(t)
            src = Src("call", path=path, term=t, bb=bb, fields=place_fields(pl), body=body)
            if any(re.search(r, path) for r in through_calls) and t["args"]:
                src.inner = provenance(body, t["args"][0], depth + 1, seen, through_calls)
            out.append(src)
            continue
        rv = payload["rv"]
        k = rv["k"]
        if k == "use":
            sub = provenance(body, rv["a"], depth + 1, seen, through_calls)
            out.extend(_project(sub, fields))
        elif k == "ref" or k == "rawptr":
            inner = dict(rv["pl"])
            sub = place_provenance(body, inner, depth + 1, seen, through_calls)
            # a deref of this ref cancels
            rest = fields[1:] if fields and fields[0] == "*" else fields
            out.extend(_project(sub, rest))
        elif k == "cast":
            out.extend(provenance(body, rv["a"], depth + 1, seen, through_calls))
        elif k == "bin":
            a = provenance(body, rv["a"], depth + 1, seen, through_calls)
            b = provenance(body, rv["b"], depth + 1, seen, through_calls)
            out.append(Src("op", name=rv["op"], args=[a, b], fields=place_fields(pl)))
        elif k == "un":
            a = provenance(body, rv["a"], depth + 1, seen, through_calls)
            out.append(Src("op", name=rv["op"], args=[a], fields=place_fields(pl)))
        elif k == "agg":
            # projecting a field out of a freshly built aggregate
            fnames = place_fields(pl)
            if fnames and rv.get("fields") and fnames[0] in rv["fields"]:
                i = rv["fields"].index(fnames[0])
                sub = provenance(body, rv["ops"][i], depth + 1, seen, through_calls)
                out.extend(sub)
            elif fnames and rv.get("ak") == "tuple" and fnames[0].isdigit() and int(fnames[0]) < len(rv["ops"]):
                out.extend(provenance(body, rv["ops"][int(fnames[0])], depth + 1, seen, through_calls))
            else:
                out.append(Src("agg", adt=rv.get("adt", rv["ak"]), var=rv.get("var"), rv=rv, bb=bb, body=body))
        elif k == "discr":
            out.append(Src("discr", pl=rv["pl"]))
        else:
            out.append(Src("unknown", why=k))
    return out


def _project(srcs, fields):
    if not fields:
        return srcs
    names = [p["f"] for p in fields if isinstance(p, dict) and "f" in p]
    out = []
    for s_ in srcs:
        if s_.kind in ("param", "field", "call"):
            n = Src(s_.kind, **{k: v for k, v in s_.__dict__.items() if k != "kind"})
            n.fields = list(getattr(s_, "fields", [])) + names
            out.append(n)
        else:
            out.append(s_)
    return out


def flatten_src(srcs):
    """all leaves including those below op nodes"""
    out = []
    for s_ in srcs:
        if s_.kind == "op":
            for a in s_.args:
                out.extend(flatten_src(a))
        else:
            out.append(s_)
            if getattr(s_, "inner", None):
                out.extend(flatten_src(s_.inner))
    return out


# ------------------------------------------------------------------------------------------
# call graph

class CallGraph:
    def __init__(self, prog):
        self.prog = prog
        self.edges = defaultdict(set)       # caller id -> callee ids (workspace bodies)
        self.unresolved = defaultdict(list) # caller id -> [(path, kind)]
        self.n_edges = 0
        # trait method name -> impl method ids
        by_trait = defaultdict(list)
        for imp in prog.impls:
            for m in imp["methods"]:
                by_trait[(imp["trait"], m["n"])].append(m["id"])
        self.by_trait = by_trait
        for bid, body in prog.A.items():
            self._scan(bid, body)
        # promoted bodies may hold closures
        for (bid, _), body in prog.promoted.items():
            self._scan(bid, body)

    def _scan(self, bid, body):
        prog = self.prog
        for b in body.blocks:
            for st in b["s"]:
                if "lhs" in st and st["rv"]["k"] == "agg" and st["rv"].get("ak") in ("closure", "coroutine", "coroutine_closure"):
                    self._add(bid, st["rv"]["adt"])
            t = b["t"]
            if t["k"] not in ("call", "tailcall"):
                continue
            f = t["fn"]
            path = f.get("path")
            kind = f.get("kind")
            if f.get("ws"):
                if kind == "unresolved" or kind == "virtual":
                    tr = f.get("trait")
                    name = f.get("decl", path).rsplit("::", 1)[-1]
                    targets = self.by_trait.get((tr, name), [])
                    if not targets and path in prog.A:
                        targets = [path]
                    for tg in targets:
                        self._add(bid, tg)
                    if not targets:
                        self.unresolved[bid].append((path, kind))
                else:
                    self._add(bid, path)
            else:
                ext = f.get("ext")
                if ext and ext in prog.ext:
                    for loc in prog.ext[ext]["locals"]:
                        self._add(bid, loc)
                # function items passed as arguments (callbacks): conservative edge
            for a in t.get("args", []):
                k = op_const(a)
                if k is not None and k.get("fn") and k["fn"] in prog.A:
                    self._add(bid, k["fn"])

    def _add(self, a, b):
        if b in self.prog.A:
            if b not in self.edges[a]:
                self.edges[a].add(b)
                self.n_edges += 1

    def reach(self, entries):
        seen = set()
        work = list(entries)
        while work:
            x = work.pop()
            if x in seen:
                continue
            seen.add(x)
            work.extend(self.edges.get(x, ()))
        return seen

    def callers(self, target):
        return [a for a, bs in self.edges.items() if target in bs]

    def path_to(self, entries, target):
        prev = {}
        dq = deque()
        for e in entries:
            prev[e] = None
            dq.append(e)
        while dq:
            x = dq.popleft()
            if x == target:
                p = [x]
                while prev[p[-1]] is not None:
                    p.append(prev[p[-1]])
                return list(reversed(p))
            for y in sorted(self.edges.get(x, ())):
                if y not in prev:
                    prev[y] = x
                    dq.append(y)
        return None


# ------------------------------------------------------------------------------------------
# who-may (P5)

def call_sites(prog, regex, view="A"):
    """[(body, bb, term)] for every call whose resolved path matches regex"""
    r = re.compile(regex)
    out = []
    d = prog.A if view == "A" else prog.R
    for body in d.values():
        for bb, t in body.calls():
            if body.is_cleanup(bb):
                continue
            if r.search(callee_path(t)):
                out.append((body, bb, t))
    return out


def field_writes(prog, field_regex, base_ty_regex=None, view="A"):
    """direct assignments whose lhs place projects through a field matching field_regex
    (the field is the *last* field of the place); returns [(body, bb, stmt)]"""
    r = re.compile(field_regex)
    out = []
    d = prog.A if view == "A" else prog.R
    for body in d.values():
        for bi, b in enumerate(body.blocks):
            if b.get("cleanup"):
                continue
            for st in b["s"]:
                if "lhs" not in st:
                    continue
                fs = place_fields(st["lhs"])
                if fs and r.fullmatch(fs[-1]):
                    out.append((body, bi, st))
    return out


def mut_borrows_of_field(body, field):
    """[(bb, stmt, local)] for `_x = &mut <..>.field` in body"""
    out = []
    for bi, b in enumerate(body.blocks):
        if b.get("cleanup"):
            continue
        for st in b["s"]:
            if "lhs" in st and st["rv"]["k"] == "ref" and st["rv"]["bk"] == "mut":
                fs = place_fields(st["rv"]["pl"])
                if fs and fs[-1] == field:
                    out.append((bi, st, st["lhs"]["l"]))
    return out


def calls_on_field(body, field, method_regex=None, any_depth=False):
    """calls in `body` whose first argument is (a borrow of) a place ending in `.field`
    (or containing it with any_depth); returns [(bb, term)]"""
    out = []
    for bb, t in body.calls():
        if body.is_cleanup(bb) or not t["args"]:
            continue
        if method_regex and not re.search(method_regex, callee_path(t)):
            continue
        if receiver_has_field(body, t, field, any_depth):
            out.append((bb, t))
    return out


def receiver_fields(body, t, argi=0):
    """field path of the receiver (argument argi) of a call, following the borrow temp"""
    if len(t["args"]) <= argi:
        return None
    a = t["args"][argi]
    pl = op_place(a)
    if pl is None:
        return None
    fs = place_fields(pl)
    hops = 0
    while not fs and hops < 6:
        d = single_def(body, pl["l"])
        if not d or d[2] != "assign":
            break
        rv = d[3]["rv"]
        if rv["k"] in ("ref", "rawptr"):
            pl = rv["pl"]
        elif rv["k"] == "use" and op_place(rv["a"]) is not None:
            pl = op_place(rv["a"])
        else:
            break
        fs = place_fields(pl)
        hops += 1
    return fs


def receiver_place(body, t, argi=0):
    """the borrowed place behind the receiver temp of a call"""
    if len(t["args"]) <= argi:
        return None
    pl = op_place(t["args"][argi])
    hops = 0
    while pl is not None and not pl.get("p") and hops < 6:
        d = single_def(body, pl["l"])
        if not d or d[2] != "assign":
            break
        rv = d[3]["rv"]
        if rv["k"] in ("ref", "rawptr"):
            pl = rv["pl"]
        elif rv["k"] == "use" and op_place(rv["a"]) is not None:
            pl = op_place(rv["a"])
        else:
            break
        hops += 1
    return pl


def receiver_has_field(body, t, field, any_depth=False):
    fs = receiver_fields(body, t)
    if not fs:
        return False
    return field in fs if any_depth else fs[-1] == field


# ------------------------------------------------------------------------------------------
# switch tables (P6)

def discr_switches(body, adt_regex=None):
    """[(bb, adt, {variant: target}, otherwise, discr_place)] for SwitchInt on an enum discriminant"""
    out = []
    for bi, b in enumerate(body.blocks):
        t = b["t"]
        if t["k"] != "switch" or b.get("cleanup"):
            continue
        l = op_local(t["on"])
        if l is None:
            continue
        info = None
        for st in reversed(b["s"]):
            if "lhs" in st and not st["lhs"].get("p") and st["lhs"]["l"] == l:
                if st["rv"]["k"] == "discr" and "adt" in st["rv"]:
                    info = st["rv"]
                break
        if info is None:
            continue
        if adt_regex and not re.search(adt_regex, info["adt"]):
            continue
        m = {}
        for val, tgt in t["targets"]:
            name = info["map"].get(str(val))
            if name is not None:
                m[name] = tgt
        out.append((bi, info["adt"], m, t["otherwise"], info["pl"], set(info["map"].values())))
    return out


def variant_target(sw, name):
    """target block of enum variant `name` in a discr_switches() row (explicit arm, or the
    otherwise edge when the variant is not listed)"""
    bi, adt, m, otherwise, pl, allv = sw
    if name in m:
        return m[name]
    if name in allv:
        return otherwise
    return None


def exclusive_region(body, start, stops=()):
    """blocks reachable from start that are dominated by start (the arm's own region)"""
    dom = dominators(body)
    r = reachable(body, (start,), avoid_blocks=stops)
    return {b for b in r if b in dom and start in dom[b]}


# ------------------------------------------------------------------------------------------
# sibling comparison (P8)

def _norm_path(f):
    p = f.get("path", "")
    if f.get("ws"):
        # workspace callee: compare by last two segments (module layout differs between copies)
        segs = re.sub(r"<[^<>]*>", "", p).split("::")
        return "ws::" + "::".join(segs[-1:])
    return p


def _rpo(body):
    order = []
    seen = set()
    stack = [(0, iter(live_succ(body, 0)))]
    seen.add(0)
    while stack:
        node, it = stack[-1]
        adv = False
        for s in it:
            if s not in seen:
                seen.add(s)
                stack.append((s, iter(live_succ(body, s))))
                adv = True
                break
        if not adv:
            order.append(node)
            stack.pop()
    return list(reversed(order))


def signature(body, skip_foreign=True):
    """coarse multiset signature of a body: constants, comparison operators, callees, switch
    shapes, returned constants.  Robust against renaming/reordering of locals and blocks."""
    from collections import Counter
    from .panics import foreign_macro
    sig = Counter()

    def const_tok(k):
        if "v" in k:
            return ("const", k["v"])
        if "fn" in k:
            return None
        if "promoted" in k:
            return None
        s_ = k.get("s", "")
        if s_.startswith('const "') or s_.startswith('"'):
            return ("str", s_)
        return None

    def op_tok(op):
        k = op_const(op)
        if k is not None:
            t = const_tok(k)
            if t:
                sig[t] += 1

    for bb in reachable(body, (0,)):
        b = body.blocks[bb]
        if b.get("cleanup"):
            continue
        t = b["t"]
        if skip_foreign and foreign_macro(body, t.get("sp")):
            continue
        for st in b["s"]:
            if "lhs" not in st:
                continue
            if skip_foreign and foreign_macro(body, st.get("sp")):
                continue
            rv = st["rv"]
            k = rv["k"]
            if k == "bin":
                sig[("bin", rv["op"])] += 1
                op_tok(rv["a"]); op_tok(rv["b"])
            elif k == "un":
                sig[("un", rv["op"])] += 1
            elif k == "use":
                op_tok(rv["a"])
            elif k == "cast":
                op_tok(rv["a"])
            elif k == "agg":
                if rv.get("ak") == "adt":
                    sig[("agg", rv["adt"].rsplit("::", 1)[-1], rv.get("var"))] += 1
                for o in rv["ops"]:
                    op_tok(o)
        if t["k"] == "call":
            sig[("call", _norm_path(t["fn"]), re.sub(r"\b([a-z_0-9]+::)+", "", t["fn"].get("t0", "") or ""))] += 1
            for a in t["args"]:
                op_tok(a)
        elif t["k"] == "switch":
            sig[("switch", tuple(sorted(v for v, _ in t["targets"])))] += 1
        elif t["k"] == "assert":
            sig[("assert", t["msg"])] += 1
    # promoted constants referenced by this body (string literals, enum constants)
    for (bid, pi), pb in body.prog.promoted.items():
        if bid != body.id:
            continue
        for b in pb.blocks:
            for st in b["s"]:
                if "lhs" in st:
                    rv = st["rv"]
                    if rv["k"] == "use":
                        k = op_const(rv["a"])
                        if k is not None:
                            tk = const_tok(k)
                            if tk:
                                sig[("promoted",) + tk] += 1
                    elif rv["k"] == "agg" and rv.get("ak") == "adt":
                        sig[("promoted-agg", rv["adt"].rsplit("::", 1)[-1], rv.get("var"))] += 1
    return sig


def canonical(body):
    """canonical text of a body (blocks in RPO, locals renumbered by first use, no spans):
    equal text ⇒ identical MIR up to renaming"""
    lmap = {}
    bmap = {}

    def L(l):
        if l not in lmap:
            lmap[l] = len(lmap)
        return "v%d" % lmap[l]

    def P(pl):
        s_ = L(pl["l"])
        for p in pl.get("p") or []:
            if isinstance(p, str):
                s_ += "." + p
            elif "f" in p:
                s_ += ".f:" + p["f"]
            elif "d" in p:
                s_ += ".as:" + p["d"]
            elif "ix" in p:
                s_ += "[%s]" % L(p["ix"])
            else:
                s_ += "[c%s]" % p.get("ci")
        return s_

    def O(op):
        if "c" in op:
            return "c " + P(op["c"])
        if "m" in op:
            return "m " + P(op["m"])
        k = op.get("k")
        if k is not None:
            if "fn" in k:
                return "fn " + k["fn"].rsplit("::", 1)[-1]
            if "v" in k:
                return "k%d" % k["v"]
            if "promoted" in k:
                return "promoted"
            return "k " + k.get("s", "")
        return "rc"

    order = _rpo(body)
    for i, b in enumerate(order):
        bmap[b] = i
    out = []
    for b in order:
        blk = body.blocks[b]
        out.append("B%d:" % bmap[b])
        for st in blk["s"]:
            if "lhs" in st:
                rv = st["rv"]
                k = rv["k"]
                if k in ("use", "repeat"):
                    r = O(rv["a"])
                elif k in ("ref", "rawptr"):
                    r = "&%s %s" % (rv["bk"], P(rv["pl"]))
                elif k == "cast":
                    r = "cast %s" % O(rv["a"])
                elif k == "bin":
                    r = "%s %s %s" % (rv["op"], O(rv["a"]), O(rv["b"]))
                elif k == "un":
                    r = "%s %s" % (rv["op"], O(rv["a"]))
                elif k == "discr":
                    r = "discr " + P(rv["pl"])
                elif k == "agg":
                    r = "agg %s %s (%s)" % (rv.get("adt", rv["ak"]).rsplit("::", 1)[-1], rv.get("var"), ",".join(O(o) for o in rv["ops"]))
                else:
                    r = k
                out.append(" %s = %s" % (P(st["lhs"]), r))
        t = blk["t"]
        k = t["k"]
        if k == "call":
            out.append(" %s = call %s(%s) -> B%s" % (P(t["dest"]), _norm_path(t["fn"]), ",".join(O(a) for a in t["args"]),
                                                  bmap.get(t.get("t"))))
        elif k == "switch":
            out.append(" switch %s %s else B%s" % (O(t["on"]), [(v, bmap.get(x)) for v, x in t["targets"]], bmap.get(t["otherwise"])))
        elif k == "assert":
            out.append(" assert %s %s -> B%s" % (O(t["cond"]), t["msg"], bmap.get(t["t"])))
        elif k == "drop":
            out.append(" drop %s -> B%s" % (P(t["pl"]), bmap.get(t["t"])))
        elif k in ("goto", "falseunwind", "falseedge", "yield"):
            out.append(" %s -> B%s" % (k, bmap.get(t["t"])))
        else:
            out.append(" " + k)
    return "\n".join(out)


def cmp_switches(body, op_names, a_pred, b_pred):
    """[(switch_bb, holds_target, fails_target, op)] for switches deciding the relation `a OP b`
    (OP in op_names; a/b selected by predicates over their flattened provenance), whichever way the
    source spells it: `a > b`, `b < a`, `!(a <= b)`, `!(b >= a)` all decide `a > b`."""
    flip = {"Gt": "Lt", "Lt": "Gt", "Ge": "Le", "Le": "Ge", "Eq": "Eq", "Ne": "Ne"}
    neg = {"Gt": "Le", "Le": "Gt", "Lt": "Ge", "Ge": "Lt", "Eq": "Ne", "Ne": "Eq"}
    out = []
    for bi, b in enumerate(body.blocks):
        t = b["t"]
        if t["k"] != "switch" or b.get("cleanup"):
            continue
        l = op_local(t["on"])
        negated = False
        d = None
        for _ in range(4):
            d = single_def(body, l) if l is not None else None
            if d and d[2] == "assign" and d[3]["rv"]["k"] == "un" and d[3]["rv"]["op"] == "Not":
                negated = not negated
                l = op_local(d[3]["rv"]["a"])
                continue
            if d and d[2] == "assign" and d[3]["rv"]["k"] == "use" and op_local(d[3]["rv"]["a"]) is not None and not (op_place(d[3]["rv"]["a"]) or {}).get("p"):
                l = op_local(d[3]["rv"]["a"])
                continue
            break
        if not (d and d[2] == "assign" and d[3]["rv"]["k"] == "bin" and d[3]["rv"]["op"] in flip):
            continue
        zero = [x for v, x in t["targets"] if v == 0]
        if not zero:
            continue
        op = d[3]["rv"]["op"]
        if negated:
            op = neg[op]
        sa = flatten_src(provenance(body, d[3]["rv"]["a"]))
        sb = flatten_src(provenance(body, d[3]["rv"]["b"]))
        for want in op_names:
            if a_pred(sa) and b_pred(sb):
                if op == want:
                    out.append((bi, t["otherwise"], zero[0], want)); break
                if op == neg[want]:
                    out.append((bi, zero[0], t["otherwise"], want)); break
            if a_pred(sb) and b_pred(sa):
                if op == flip[want]:
                    out.append((bi, t["otherwise"], zero[0], want)); break
                if op == neg[flip[want]]:
                    out.append((bi, zero[0], t["otherwise"], want)); break
    return out
