"""P2: may-panic inventory over the call graph reachable from named entry points, with
discharges and the audited residue (DESIGN.md §2.2)."""
import json, os, re
from collections import defaultdict

from .core import (live_succ, reachable, dominators, op_place, op_local, op_const, place_key,
                   place_fields, single_def, defs_of, callee_path, receiver_place, receiver_fields,
                   discr_switches, CallGraph)
from .facts import fmt_place, fmt_op

RULES_DIR = os.path.join(os.path.dirname(os.path.dirname(os.path.abspath(__file__))), "rules")


def load_json(name):
    with open(os.path.join(RULES_DIR, name)) as f:
        return json.load(f)


_BENIGN = None
_EXT_API = None
_AUDIT = None


def benign_sinks():
    global _BENIGN
    if _BENIGN is None:
        _BENIGN = [(re.compile(e["sink"]), e["reason"]) for e in load_json("benign_sinks.json")]
    return _BENIGN


def ext_api():
    global _EXT_API
    if _EXT_API is None:
        _EXT_API = load_json("ext_api.json")
        for e in _EXT_API["total"]:
            e["_re"] = re.compile(e["path"])
        for e in _EXT_API["may_panic"]:
            e["_re"] = re.compile(e["path"])
    return _EXT_API


def panic_audit():
    global _AUDIT
    if _AUDIT is None:
        _AUDIT = load_json("panic_audit.json")
    return _AUDIT


def is_benign_sink(s):
    for r, _ in benign_sinks():
        if r.search(s):
            return True
    return False


def ext_classify(prog, f):
    """classify an external callee: returns (class, sinks, reason)
    class in: 'total-derived' (no non-benign sink), 'total-audited', 'may-panic-listed',
    'may-panic-derived', 'unknown' (no summary)"""
    path = f.get("path", "")
    api = ext_api()
    key = f.get("ext")
    summ = prog.ext.get(key) if key else None
    sinks = []
    if summ is not None:
        sinks = sorted(s for s in summ["sinks"] if not is_benign_sink(s))
    for e in api["may_panic"]:
        if e["_re"].search(path):
            return "may-panic-listed", sinks, e.get("reason", "")
    for e in api["total"]:
        if e["_re"].search(path):
            return "total-audited", sinks, e.get("reason", "")
    if summ is None:
        return "unknown", sinks, "no summary"
    if not sinks:
        return "total-derived", sinks, ""
    return "may-panic-derived", sinks, ""


FOREIGN_MACRO_OK = re.compile(r"^(tracing|tokio|tokio_macros|thiserror|thiserror_impl|serde|serde_derive|log|futures_util|futures|pin_project|pin_project_lite|async_trait|metrics|clap|clap_derive)::")
LOCAL_PANIC_MACROS = re.compile(r"^(core|std|alloc)::(panic|unreachable|unimplemented|todo|assert|assert_eq|assert_ne|debug_assert|debug_assert_eq|debug_assert_ne)$")


def foreign_macro(body, sp):
    """name of the outermost macro if it is defined in a trusted foreign crate, else None"""
    if sp is None:
        return None
    s = body.span(sp)
    mx = s.get("mx")
    if not mx:
        return None
    outer = mx[-1]
    if FOREIGN_MACRO_OK.match(outer):
        return outer
    return None


class Site:
    __slots__ = ("body", "bb", "kind", "callee", "recv", "site", "detail", "term", "discharge", "macro")

    def __init__(self, body, bb, kind, callee, recv, term, detail=""):
        self.body = body
        self.bb = bb
        self.kind = kind        # assert:<msg> | never | ext | unknown-callee
        self.callee = callee
        self.recv = recv
        self.term = term
        self.detail = detail
        self.site = body.loc(term.get("sp"))
        self.discharge = None
        self.macro = None

    def audit_key(self):
        return (self.body.id, self.kind, self.callee or "", self.recv or "")


def short_recv(body, t):
    """receiver description for a call: field path if any, else the receiver type"""
    fs = receiver_fields(body, t)
    if fs:
        return "." + ".".join(fs[-2:])
    t0 = t["fn"].get("t0")
    if t0:
        return re.sub(r"\b([a-z_]+::)+", "", t0)[:60]
    return ""


def inventory(prog, fn_ids, include_debug_asserts=True):
    """all may-panic sites in the A-view bodies `fn_ids`. Returns (sites, counters)"""
    sites = []
    counters = defaultdict(int)
    for fid in sorted(fn_ids):
        body = prog.A.get(fid)
        if body is None:
            continue
        live = reachable(body, (0,))
        for bb, blk in enumerate(body.blocks):
            if blk.get("cleanup"):
                continue
            t = blk["t"]
            k = t["k"]
            if k not in ("assert", "call"):
                continue
            if bb not in live:
                counters["dead"] += 1
                continue
            if k == "assert":
                msg = t["msg"]
                if msg.startswith("Resumed") or msg in ("MisalignedPointerDereference", "NullPointerDereference", "InvalidEnumConstruction"):
                    counters["assert-structural"] += 1
                    continue
                s = Site(body, bb, "assert:" + msg, "", "", t,
                         detail=", ".join(fmt_op(body, o) for o in t["ops"]))
                sites.append(s)
                continue
            f = t["fn"]
            path = f.get("path", "")
            kind = f.get("kind")
            if f.get("never"):
                s = Site(body, bb, "never", path, "", t)
                sites.append(s)
                continue
            if f.get("ws"):
                if kind in ("unresolved", "virtual"):
                    counters["ws-dynamic-call"] += 1
                continue
            if kind == "indirect":
                s = Site(body, bb, "unknown-callee", path, "", t, detail="indirect call")
                sites.append(s)
                continue
            if kind in ("virtual", "unresolved"):
                s = Site(body, bb, "unknown-callee", path, short_recv(body, t), t, detail=kind + " call into " + f.get("crate", "?"))
                sites.append(s)
                continue
            if kind == "intrinsic":
                continue
            cls, sinks, reason = ext_classify(prog, f)
            counters["ext-call"] += 1
            if cls in ("total-derived", "total-audited"):
                counters["ext-" + cls] += 1
                continue
            s = Site(body, bb, "ext", path, short_recv(body, t), t,
                     detail="%s sinks=%s" % (cls, ",".join(x.split(":", 1)[1] if ":" in x else x for x in sinks)[:200]))
            sites.append(s)
    return sites, counters


# ------------------------------------------------------------------------------------------
# discharges

def discharge_foreign_macro(site):
    m = foreign_macro(site.body, site.term.get("sp"))
    if m:
        site.macro = m
        return "foreign-macro:" + m
    return None


def _cmp_defs(body, local):
    """if `local` (a bool) is defined by a comparison BinaryOp, return (op, a, b)"""
    d = single_def(body, local)
    if d and d[2] == "assign" and d[3]["rv"]["k"] == "bin":
        rv = d[3]["rv"]
        return rv["op"], rv["a"], rv["b"], d[0]
    return None


def same_operand(body, a, b):
    """structural equality of operands after chasing single-def copy temps"""
    def norm(op, hops=0):
        k = op_const(op)
        if k is not None:
            return ("const", k.get("v"), k.get("s"))
        pl = op_place(op)
        if pl is None:
            return ("?", id(op))
        while not pl.get("p") and hops < 8:
            d = single_def(body, pl["l"])
            if d and d[2] == "assign" and d[3]["rv"]["k"] == "use":
                inner = d[3]["rv"]["a"]
                kk = op_const(inner)
                if kk is not None:
                    return ("const", kk.get("v"), kk.get("s"))
                pl2 = op_place(inner)
                if pl2 is None:
                    break
                pl = pl2
                hops += 1
            else:
                break
        return ("place", place_key(pl))
    return norm(a) == norm(b)


def discharge_guarded_sub(site):
    """Overflow(Sub, a, b) dominated by the edge of a comparison between the same operands that
    implies a >= b"""
    if not site.kind.startswith("assert:Overflow:Sub"):
        return None
    body = site.body
    t = site.term
    # the assert's operands are the operands of the checked subtraction
    if len(t["ops"]) != 2:
        return None
    a, b = t["ops"]
    dom = dominators(body)
    if site.bb not in dom:
        return None
    for d in dom[site.bb]:
        bt = body.blocks[d]["t"]
        if bt["k"] != "switch":
            continue
        l = op_local(bt["on"])
        if l is None:
            continue
        c = _cmp_defs(body, l)
        if not c:
            continue
        op, x, y, _ = c
        # which edge leads (dominates) to the site?
        false_t = None
        for val, tgt in bt["targets"]:
            if val == 0:
                false_t = tgt
        true_t = bt["otherwise"]
        on_true = true_t in dom[site.bb] and true_t != d and _edge_dominates(body, d, true_t, site.bb)
        on_false = false_t is not None and _edge_dominates(body, d, false_t, site.bb)
        implies = False
        if same_operand(body, x, a) and same_operand(body, y, b):
            # x op y with x=a, y=b ; need a >= b
            if on_true and op in ("Ge", "Gt", "Eq"):
                implies = True
            if on_false and op in ("Lt",):
                implies = True
        if same_operand(body, x, b) and same_operand(body, y, a):
            # b op a ; need b <= a
            if on_true and op in ("Le", "Lt", "Eq"):
                implies = True
            if on_false and op in ("Gt",):
                implies = True
        if implies:
            return "guarded-sub: dominated by comparison at %s" % body.loc(bt.get("sp"))
    return None


def _edge_dominates(body, src, tgt, site_bb):
    """True if every path from entry to site_bb passes the edge src->tgt (approximated:
    tgt dominates site_bb, and tgt's only live predecessor is src or tgt==site)"""
    dom = dominators(body)
    if site_bb not in dom or tgt not in dom[site_bb]:
        return False
    preds = [p for p in body.preds()[tgt] if p in dom]  # reachable preds
    return all(p == src for p in preds) or False


DISCHARGERS = [discharge_foreign_macro, discharge_guarded_sub]


def apply_discharges(sites, extra=()):
    for s in sites:
        for d in list(extra) + DISCHARGERS:
            r = d(s)
            if r:
                s.discharge = r
                break


def check_sites(ctx, rule, sites, audit_scope, entry_desc, cg=None, entries=None):
    """record each site: discharged → ok; audited → ok (with reason); else violation.
    `audit_scope` selects entries of rules/panic_audit.json (by 'scope')."""
    audit = [a for a in panic_audit() if audit_scope in a.get("scopes", [a.get("scope")])]
    used = defaultdict(int)
    by_key = defaultdict(list)
    for s in sites:
        by_key[s.audit_key()].append(s)
    n_discharged = n_audited = n_viol = 0
    for key, group in sorted(by_key.items(), key=lambda kv: kv[0]):
        fn, kind, callee, recv = key
        pending = []
        for s in group:
            if s.discharge:
                n_discharged += 1
                ctx.ok(rule, fn, "%s %s %s" % (kind, callee, recv), site=s.site, discharge=s.discharge,
                       trivial=s.discharge.startswith("foreign-macro"))
            else:
                pending.append(s)
        if not pending:
            continue
        entry = None
        for a in audit:
            if a["fn"] == fn and a["kind"] == kind and a.get("callee", "") == callee and a.get("receiver", "") == recv:
                entry = a
                break
        allowed = entry["max"] if entry else 0
        for i, s in enumerate(pending):
            inst = "%s %s %s" % (kind, callee, recv)
            if i < allowed:
                n_audited += 1
                used[id(entry)] += 1
                ctx.ok(rule, fn, inst.strip(), site=s.site, discharge="audited: " + entry["reason"])
            else:
                n_viol += 1
                what = "may-panic site without discharge or audit entry: %s %s %s (%s)" % (kind, callee, recv, s.detail)
                if entry:
                    what += " [audit allows %d, found %d]" % (allowed, len(pending))
                extra = {}
                if cg is not None and entries:
                    p = cg.path_to(entries, fn)
                    if p:
                        extra["path"] = p
                ctx.violation(rule, fn, inst.strip() + (" #%d" % (i - allowed + 1) if i - allowed > 0 else ""),
                              what + "; reachable from " + entry_desc, site=s.site, **extra)
    for a in audit:
        if used[id(a)] == 0 and not any(k == (a["fn"], a["kind"], a.get("callee", ""), a.get("receiver", "")) for k in by_key):
            ctx.note("stale audit entry (site no longer exists): %s %s %s %s" % (a["fn"], a["kind"], a.get("callee", ""), a.get("receiver", "")))
    ctx.stats[rule + "/sites"] = len(sites)
    ctx.stats[rule + "/discharged"] = n_discharged
    ctx.stats[rule + "/audited"] = n_audited
    return n_viol
