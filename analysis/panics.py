"""P2: may-panic inventory over the call graph reachable from named entry points, with
discharges and the audited residue (DESIGN.md §2.2)."""
import json, os, re
from collections import defaultdict

from .core import (live_succ, reachable, dominators, op_place, op_local, op_const, place_key,
                   place_fields, single_def, defs_of, callee_path, receiver_place, receiver_fields,
                   discr_switches, CallGraph)
from .facts import fmt_place, fmt_op

RULES_DIR = os.path.join(os.path.dirname(os.path.dirname(os.path.abspath(__file__))), "rules")


def load_json(name):
    with open(os.path.join(RULES_DIR, name)) as f:
        return json.load(f)


_BENIGN = None
_EXT_API = None
_AUDIT = None


def benign_sinks():
    global _BENIGN
    if _BENIGN is None:
        _BENIGN = [(re.compile(e["sink"]), e["reason"]) for e in load_json("benign_sinks.json")]
    return _BENIGN


def ext_api():
    global _EXT_API
    if _EXT_API is None:
        _EXT_API = load_json("ext_api.json")
        for e in _EXT_API["total"]:
            e["_re"] = re.compile(e["path"])
        for e in _EXT_API["may_panic"]:
            e["_re"] = re.compile(e["path"])
    return _EXT_API


def panic_audit():
    global _AUDIT
    if _AUDIT is None:
        _AUDIT = load_json("panic_audit.json")
    return _AUDIT


def is_benign_sink(s):
    for r, _ in benign_sinks():
        if r.search(s):
            return True
    return False


def ext_classify(prog, f):
    """classify an external callee: returns (class, sinks, reason)
    class in: 'total-derived' (no non-benign sink), 'total-audited', 'may-panic-listed',
    'may-panic-derived', 'unknown' (no summary)"""
    path = f.get("path", "")
    api = ext_api()
    key = f.get("ext")
    summ = prog.ext.get(key) if key else None
    sinks = []
    if summ is not None:
        sinks = sorted(s for s in summ["sinks"] if not is_benign_sink(s))
    for e in api["may_panic"]:
        if e["_re"].search(path):
            return "may-panic-listed", sinks, e.get("reason", "")
    for e in api["total"]:
        if e["_re"].search(path):
            return "total-audited", sinks, e.get("reason", "")
    if summ is None:
        return "unknown", sinks, "no summary"
    if not sinks:
        return "total-derived", sinks, ""
    return "may-panic-derived", sinks, ""


FOREIGN_MACRO_OK = re.compile(r"^(tracing|tokio|tokio_macros|thiserror|thiserror_impl|serde|serde_derive|log|futures_util|futures|pin_project|pin_project_lite|async_trait|metrics|clap|clap_derive)::")
LOCAL_PANIC_MACROS = re.compile(r"^(core|std|alloc)::(panic|unreachable|unimplemented|todo|assert|assert_eq|assert_ne|debug_assert|debug_assert_eq|debug_assert_ne)$")


def foreign_macro(body, sp):
    """name of the outermost macro if it is defined in a trusted foreign crate, else None"""
    if sp is None:
        return None
    s = body.span(sp)
    mx = s.get("mx")
    if not mx:
        return None
    outer = mx[-1]
    if FOREIGN_MACRO_OK.match(outer):
        return outer
    return None


class Site:
    __slots__ = ("body", "bb", "kind", "callee", "recv", "site", "detail", "term", "discharge", "macro")

    def __init__(self, body, bb, kind, callee, recv, term, detail=""):
        self.body = body
        self.bb = bb
        self.kind = kind        # assert:<msg> | never | ext | unknown-callee
        self.callee = callee
        self.recv = recv
        self.term = term
        self.detail = detail
        self.site = body.loc(term.get("sp"))
        self.discharge = None
        self.macro = None

    def audit_key(self):
        return (self.body.id, self.kind, self.callee or "", self.recv or "")


def short_recv(body, t):
    """receiver description for a call: field path if any, else the receiver type"""
    fs = receiver_fields(body, t)
    if fs:
        return "." + ".".join(fs[-2:])
    t0 = t["fn"].get("t0")
    if t0:
        return re.sub(r"\b([a-z_]+::)+", "", t0)[:60]
    return ""


def inventory(prog, fn_ids, include_debug_asserts=True):
    """all may-panic sites in the A-view bodies `fn_ids`. Returns (sites, counters)"""
    sites = []
    counters = defaultdict(int)
    for fid in sorted(fn_ids):
        body = prog.A.get(fid)
        if body is None:
            continue
        live = reachable(body, (0,))
        for bb, blk in enumerate(body.blocks):
            if blk.get("cleanup"):
                continue
            t = blk["t"]
            k = t["k"]
            if k not in ("assert", "call"):
                continue
            if bb not in live:
                counters["dead"] += 1
                continue
            if k == "assert":
                msg = t["msg"]
                if msg.startswith("Resumed") or msg in ("MisalignedPointerDereference", "NullPointerDereference", "InvalidEnumConstruction"):
                    counters["assert-structural"] += 1
                    continue
                s = Site(body, bb, "assert:" + msg, "", "", t,
                         detail=", ".join(fmt_op(body, o) for o in t["ops"]))
                sites.append(s)
                continue
            f = t["fn"]
            path = f.get("path", "")
            kind = f.get("kind")
            if f.get("never"):
                s = Site(body, bb, "never", path, "", t)
                sites.append(s)
                continue
            if f.get("ws"):
                if kind in ("unresolved", "virtual"):
                    counters["ws-dynamic-call"] += 1
                continue
            if kind == "indirect":
                s = Site(body, bb, "unknown-callee", path, "", t, detail="indirect call")
                sites.append(s)
                continue
            if kind in ("virtual", "unresolved"):
                s = Site(body, bb, "unknown-callee", path, short_recv(body, t), t, detail=kind + " call into " + f.get("crate", "?"))
                sites.append(s)
                continue
            if kind == "intrinsic":
                continue
            cls, sinks, reason = ext_classify(prog, f)
            counters["ext-call"] += 1
            if cls in ("total-derived", "total-audited"):
                counters["ext-" + cls] += 1
                continue
            s = Site(body, bb, "ext", path, short_recv(body, t), t,
                     detail="%s sinks=%s" % (cls, ",".join(x.split(":", 1)[1] if ":" in x else x for x in sinks)[:200]))
            sites.append(s)
    return sites, counters


# ------------------------------------------------------------------------------------------
# discharges

def discharge_foreign_macro(site):
    m = foreign_macro(site.body, site.term.get("sp"))
    if m:
        site.macro = m
        return "foreign-macro:" + m
    return None


def _cmp_defs(body, local):
    """if `local` (a bool) is defined by a comparison BinaryOp, return (op, a, b)"""
    hops = 0
    while local is not None and hops < 6:
        d = single_def(body, local)
        if not d or d[2] != "assign":
            return None
        rv = d[3]["rv"]
        if rv["k"] == "bin":
            return rv["op"], rv["a"], rv["b"], d[0]
        if rv["k"] == "use":
            local = op_local(rv["a"])
            hops += 1
            continue
        return None
    return None


def same_operand(body, a, b):
    """structural equality of operands after chasing single-def copy temps"""
    def norm(op, hops=0):
        k = op_const(op)
        if k is not None:
            return ("const", k.get("v"), k.get("s"))
        pl = op_place(op)
        if pl is None:
            return ("?", id(op))
        while not pl.get("p") and hops < 8:
            d = single_def(body, pl["l"])
            widening = d and d[2] == "assign" and d[3]["rv"]["k"] == "cast" and d[3]["rv"].get("ck") == "IntToInt" \
                and INT_BITS.get(operand_ty(body, d[3]["rv"]["a"]) or "", 999) <= INT_BITS.get(body.ty(d[3]["rv"]["ty"]) or "", 0)
            if d and d[2] == "assign" and (d[3]["rv"]["k"] == "use" or widening):
                inner = d[3]["rv"]["a"]
                kk = op_const(inner)
                if kk is not None:
                    return ("const", kk.get("v"), kk.get("s"))
                pl2 = op_place(inner)
                if pl2 is None:
                    break
                pl = pl2
                hops += 1
            else:
                break
        return ("place", place_key(pl))
    return norm(a) == norm(b)


def discharge_guarded_sub(site):
    """Overflow(Sub, a, b) dominated by the edge of a comparison between the same operands that
    implies a >= b"""
    if not site.kind.startswith("assert:Overflow:Sub"):
        return None
    body = site.body
    t = site.term
    # the assert's operands are the operands of the checked subtraction
    if len(t["ops"]) != 2:
        return None
    a, b = t["ops"]
    dom = dominators(body)
    if site.bb not in dom:
        return None
    for d in dom[site.bb]:
        bt = body.blocks[d]["t"]
        if bt["k"] != "switch":
            continue
        l = op_local(bt["on"])
        if l is None:
            continue
        c = _cmp_defs(body, l)
        if not c:
            continue
        op, x, y, _ = c
        # which edge leads (dominates) to the site?
        false_t = None
        for val, tgt in bt["targets"]:
            if val == 0:
                false_t = tgt
        true_t = bt["otherwise"]
        on_true = true_t in dom[site.bb] and true_t != d and _edge_dominates(body, d, true_t, site.bb)
        on_false = false_t is not None and _edge_dominates(body, d, false_t, site.bb)
        implies = False
        if same_operand(body, x, a) and same_operand(body, y, b):
            # x op y with x=a, y=b ; need a >= b
            if on_true and op in ("Ge", "Gt", "Eq"):
                implies = True
            if on_false and op in ("Lt",):
                implies = True
        if same_operand(body, x, b) and same_operand(body, y, a):
            # b op a ; need b <= a
            if on_true and op in ("Le", "Lt", "Eq"):
                implies = True
            if on_false and op in ("Gt",):
                implies = True
        if implies:
            return "guarded-sub: dominated by comparison at %s" % body.loc(bt.get("sp"))
    return None


def _edge_dominates(body, src, tgt, site_bb):
    """True if every path from entry to site_bb passes the edge src->tgt (approximated:
    tgt dominates site_bb, and tgt's only live predecessor is src or tgt==site)"""
    dom = dominators(body)
    if site_bb not in dom or tgt not in dom[site_bb]:
        return False
    preds = [p for p in body.preds()[tgt] if p in dom]  # reachable preds
    return all(p == src for p in preds) or False


DISCHARGERS = [discharge_foreign_macro, discharge_guarded_sub]


def apply_discharges(sites, extra=()):
    for s in sites:
        for d in list(extra) + DISCHARGERS:
            r = d(s)
            if r:
                s.discharge = r
                break


def check_sites(ctx, rule, sites, audit_scope, entry_desc, cg=None, entries=None):
    """record each site: discharged → ok; audited → ok (with reason); else violation.
    `audit_scope` selects entries of rules/panic_audit.json (by 'scope')."""
    audit = [a for a in panic_audit() if audit_scope in a.get("scopes", [a.get("scope")])]
    used = defaultdict(int)
    by_key = defaultdict(list)
    for s in sites:
        by_key[s.audit_key()].append(s)
    n_discharged = n_audited = n_viol = 0
    for key, group in sorted(by_key.items(), key=lambda kv: kv[0]):
        fn, kind, callee, recv = key
        pending = []
        for s in group:
            if s.discharge:
                n_discharged += 1
                ctx.ok(rule, fn, "%s %s %s" % (kind, callee, recv), site=s.site, discharge=s.discharge,
                       trivial=s.discharge.startswith("foreign-macro"))
            else:
                pending.append(s)
        if not pending:
            continue
        entry = None
        for a in audit:
            if a["fn"] == fn and a["kind"] == kind and a.get("callee", "") == callee and a.get("receiver", "") == recv:
                entry = a
                break
        allowed = entry["max"] if entry else 0
        for i, s in enumerate(pending):
            inst = "%s %s %s" % (kind, callee, recv)
            if i < allowed:
                n_audited += 1
                used[id(entry)] += 1
                ctx.ok(rule, fn, inst.strip(), site=s.site, discharge="audited: " + entry["reason"])
            else:
                n_viol += 1
                what = "may-panic site without discharge or audit entry: %s %s %s (%s)" % (kind, callee, recv, s.detail)
                if entry:
                    what += " [audit allows %d, found %d]" % (allowed, len(pending))
                extra = {}
                if cg is not None and entries:
                    p = cg.path_to(entries, fn)
                    if p:
                        extra["path"] = p
                ctx.violation(rule, fn, inst.strip() + (" #%d" % (i - allowed + 1) if i - allowed > 0 else ""),
                              what + "; reachable from " + entry_desc, site=s.site, **extra)
    for a in audit:
        if len(a.get("scopes", [])) == 1 and used[id(a)] == 0 and not any(k == (a["fn"], a["kind"], a.get("callee", ""), a.get("receiver", "")) for k in by_key):
            ctx.note("stale audit entry (site no longer exists): %s %s %s %s" % (a["fn"], a["kind"], a.get("callee", ""), a.get("receiver", "")))
    ctx.stats[rule + "/sites"] = len(sites)
    ctx.stats[rule + "/discharged"] = n_discharged
    ctx.stats[rule + "/audited"] = n_audited
    return n_viol


# ------------------------------------------------------------------------------------------
# more discharges

INT_BITS = {"u8": 8, "i8": 8, "u16": 16, "i16": 16, "u32": 32, "i32": 32, "u64": 64, "i64": 64,
            "usize": 64, "isize": 64, "u128": 128, "i128": 128}


def operand_ty(body, op):
    k = op_const(op)
    if k is not None:
        return body.prog.types[k["ty"]]
    pl = op_place(op)
    if pl is None:
        return None
    return body.place_ty(pl)


def discharge_const_shift(site):
    if not (site.kind.startswith("assert:Overflow:Shr") or site.kind.startswith("assert:Overflow:Shl")):
        return None
    ops = site.term["ops"]
    if len(ops) != 2:
        return None
    k = op_const(ops[1])
    if k is None or k.get("v") is None:
        return None
    bits = INT_BITS.get(operand_ty(site.body, ops[0]) or "", 8)
    if 0 <= k["v"] < bits:
        return "const-shift: shift amount %d < %d bits" % (k["v"], bits)
    return None


def discharge_size_arith(site):
    """Overflow(Add|Mul) on usize/u64: in-memory sizes and 64-bit counters do not overflow
    (DESIGN §3 assumption 4)"""
    m = re.match(r"assert:Overflow:(Add|Mul)$", site.kind)
    if not m:
        return None
    ops = site.term["ops"]
    tys = [operand_ty(site.body, o) for o in ops]
    if all(t in ("usize", "u64", "u128", "i64", "i128") for t in tys if t) and any(tys):
        return "size-arith: %s on %s (64-bit sizes/counters do not overflow, assumption 4)" % (m.group(1), tys[0])
    return None


GETTER_NEED = {"get_u8": 1, "get_i8": 1, "get_u16": 2, "get_u32": 4, "get_u64": 8, "get_u128": 16}
LEN_CALL = re.compile(r"::(len|remaining)$")


def _len_call_on(body, op, rkey):
    """True if operand is (a copy of) the result of a len()/remaining() call on receiver place rkey"""
    l = op_local(op)
    hops = 0
    while l is not None and hops < 6:
        d = single_def(body, l)
        if not d:
            return False
        if d[2] == "call":
            t = d[3]
            if LEN_CALL.search(callee_path(t)):
                rp = receiver_place(body, t)
                if rp is None:
                    return False
                if place_key(rp) == rkey:
                    return True
                # `stream.remaining()` on `stream: &mut Bytes` resolves to the forwarding impl
                # `<&mut T as Buf>::remaining(&stream)`: the length asked for is that of `*stream`
                if re.match(r"<&(mut )?T as ", callee_path(t)):
                    through = dict(rp)
                    through["p"] = list(rp.get("p", [])) + ["*"]
                    return place_key(through) == rkey
                return False
            return False
        if d[2] == "assign" and d[3]["rv"]["k"] == "use":
            l = op_local(d[3]["rv"]["a"])
            hops += 1
            continue
        return False
    return False


def _mutated_between(body, guard_target, site_bb, rkey):
    """is the receiver place mutably borrowed by a call on some path guard_target ->* site_bb
    (excluding the site's own call)?"""
    fwd = reachable(body, (guard_target,))
    if site_bb not in fwd:
        return True
    # blocks that can reach site_bb
    preds = body.preds()
    back = {site_bb}
    work = [site_bb]
    while work:
        b = work.pop()
        for p in preds[b]:
            if p not in back:
                back.add(p)
                work.append(p)
    between = (fwd & back)
    for b in between:
        if b == site_bb:
            continue
        t = body.blocks[b]["t"]
        if t["k"] != "call":
            continue
        for i, a in enumerate(t["args"]):
            l = op_local(a)
            if l is None:
                continue
            d = single_def(body, l)
            if d and d[2] == "assign" and d[3]["rv"]["k"] == "ref" and d[3]["rv"]["bk"] == "mut":
                if place_key(d[3]["rv"]["pl"]) == rkey:
                    return True
    return False


def discharge_guarded_getter(site):
    """Buf::get_uN / advance(n) / split_to(n) on x dominated by the edge of a length test on the
    same place that implies enough bytes, with no intervening mutable use of x"""
    if site.kind != "ext":
        return None
    name = site.callee.rsplit("::", 1)[-1]
    if name not in GETTER_NEED and name not in ("advance", "split_to", "copy_to_bytes", "split_off"):
        return None
    body = site.body
    t = site.term
    rp = receiver_place(body, t)
    if rp is None:
        return None
    rkey = place_key(rp)
    need_const = GETTER_NEED.get(name)
    need_op = t["args"][1] if need_const is None and len(t["args"]) > 1 else None
    if need_const is None and need_op is not None:
        k = op_const(need_op)
        if k is not None and k.get("v") is not None:
            need_const = k["v"]
    dom = dominators(body)
    if site.bb not in dom:
        return None
    for d in sorted(dom[site.bb], reverse=True):
        bt = body.blocks[d]["t"]
        if bt["k"] != "switch":
            continue
        l = op_local(bt["on"])
        if l is None:
            continue
        zero_t = None
        for val, tgt in bt["targets"]:
            if val == 0:
                zero_t = tgt
        true_t = bt["otherwise"]
        cands = []   # (edge target, description)
        c = _cmp_defs(body, l)
        if c:
            op, x, y, _ = c
            kx, ky = op_const(x), op_const(y)
            if _len_call_on(body, x, rkey):
                # len OP y
                if ky is not None and ky.get("v") is not None and need_const is not None:
                    K = ky["v"]
                    if op == "Lt" and K >= need_const and zero_t is not None:
                        cands.append((zero_t, "len >= %d" % K))
                    if op == "Ge" and K >= need_const:
                        cands.append((true_t, "len >= %d" % K))
                    if op == "Gt" and K + 1 >= need_const:
                        cands.append((true_t, "len > %d" % K))
                    if op == "Le" and K + 1 >= need_const and zero_t is not None:
                        cands.append((zero_t, "len > %d" % K))
                    if op == "Eq" and K >= need_const:
                        cands.append((true_t, "len == %d" % K))
                if need_op is not None and same_operand(body, y, need_op):
                    if op == "Lt" and zero_t is not None:
                        cands.append((zero_t, "len >= n"))
                    if op == "Ge":
                        cands.append((true_t, "len >= n"))
            if _len_call_on(body, y, rkey):
                # x OP len
                if need_op is not None and same_operand(body, x, need_op):
                    if op == "Gt" and zero_t is not None:
                        cands.append((zero_t, "n <= len"))
                    if op == "Le":
                        cands.append((true_t, "n <= len"))
                if kx is not None and kx.get("v") is not None and need_const is not None:
                    K = kx["v"]
                    if op == "Gt" and K >= need_const and zero_t is not None:
                        cands.append((zero_t, "%d <= len" % K))
                    if op == "Le" and K >= need_const:
                        cands.append((true_t, "%d <= len" % K))
        else:
            dd = single_def(body, l)
            hops = 0
            while dd and dd[2] == "assign" and dd[3]["rv"]["k"] == "use" and op_local(dd[3]["rv"]["a"]) is not None and hops < 4:
                dd = single_def(body, op_local(dd[3]["rv"]["a"]))
                hops += 1
            if dd and dd[2] == "call" and re.search(r"::is_empty$", callee_path(dd[3])) and need_const == 1:
                rp2 = receiver_place(body, dd[3])
                if rp2 is not None and place_key(rp2) == rkey and zero_t is not None:
                    cands.append((zero_t, "!is_empty"))
        for tgt, desc in cands:
            if tgt in dom[site.bb] and _edge_dominates(body, d, tgt, site.bb):
                if not _mutated_between(body, tgt, site.bb, rkey):
                    return "guarded-getter: %s established at %s dominates the call, receiver not mutated in between" % (desc, body.loc(bt.get("sp")))
    return None


def discharge_frame_header(site):
    """advance(n)/split_to(n) where n is FixedHeader.fixed_header_len / frame_length() of a header
    (premise: the buffer is the frame split off for that header, R-C05-bound), or the byte count
    returned by a successful `length()` over the same buffer"""
    if site.kind != "ext":
        return None
    name = site.callee.rsplit("::", 1)[-1]
    if name not in ("advance", "split_to"):
        return None
    from .core import provenance, flatten_src
    body = site.body
    t = site.term
    if len(t["args"]) < 2:
        return None
    srcs = flatten_src(provenance(body, t["args"][1], through_calls=[r"ops::Try>::branch$"]))
    if not srcs:
        return None
    ok = []
    for s_ in srcs:
        if s_.kind in ("param", "field") and getattr(s_, "fields", None) and s_.fields[-1] == "fixed_header_len":
            ok.append("FixedHeader.fixed_header_len")
        elif s_.kind == "call" and re.search(r"FixedHeader::frame_length$", s_.path):
            ok.append("FixedHeader::frame_length()")
        elif s_.kind == "call" and re.search(r"ops::Try>::branch$", s_.path):
            continue
        elif s_.kind == "call" and re.search(r"(^|::)length(_in_frame)?$", s_.path) and s_.term["fn"].get("ws"):
            # the varint length prefix just parsed from the same buffer
            rp = receiver_place(body, t)
            inner = flatten_src(provenance(body, s_.term["args"][0], through_calls=[r"::iter$", r"Deref>::deref$", r"::as_ref$"]))
            same = False
            for i_ in inner:
                if i_.kind == "param" and rp is not None and rp["l"] == i_.l:
                    same = True
                if i_.kind == "call":
                    continue
            # compare on the root local of the receiver
            if not same and rp is not None:
                root = rp["l"]
                for i_ in inner:
                    if getattr(i_, "l", None) == root:
                        same = True
            if same:
                ok.append("len_len of successful length() on the same buffer")
            else:
                return None
        else:
            return None
    if ok:
        return "frame-header: argument is " + " / ".join(sorted(set(ok)))
    return None


def discharge_const_arith(site):
    """Overflow(op, const, const): evaluated here"""
    m = re.match(r"assert:Overflow:(Add|Sub|Mul)$", site.kind)
    if not m:
        return None
    ops = site.term["ops"]
    if len(ops) != 2:
        return None
    ka, kb = op_const(ops[0]), op_const(ops[1])
    if ka is None or kb is None or ka.get("v") is None or kb.get("v") is None:
        return None
    ty = operand_ty(site.body, ops[0]) or ""
    bits = INT_BITS.get(ty)
    if bits is None:
        return None
    a, b = ka["v"], kb["v"]
    r = {"Add": a + b, "Sub": a - b, "Mul": a * b}[m.group(1)]
    lo, hi = (-(1 << (bits - 1)), (1 << (bits - 1)) - 1) if ty.startswith("i") else (0, (1 << bits) - 1)
    if lo <= r <= hi:
        return "const-arith: %d %s %d fits %s" % (a, m.group(1), b, ty)
    return None


DISCHARGERS.extend([discharge_const_arith, discharge_const_shift, discharge_size_arith, discharge_guarded_getter, discharge_frame_header])


# ------------------------------------------------------------------------------------------
# exhaustive-match discharge (P6) and shape extraction

def _trivial_preds(body, bb, live):
    """edges (pred, succ) entering bb, looking through blocks that only forward (goto/falseedge
    with no statements)"""
    out = []
    seen = set()
    work = [bb]
    while work:
        b = work.pop()
        for p in body.preds()[b]:
            if p not in live or (p, b) in seen:
                continue
            seen.add((p, b))
            pt = body.blocks[p]["t"]
            fmt_prep = pt["k"] == "call" and re.search(r"^(std|core)::fmt::(Arguments|rt::)", callee_path(pt))
            if (pt["k"] in ("goto", "falseedge") and not [s for s in body.blocks[p]["s"] if "lhs" in s]) or fmt_prep:
                work.append(p)
            else:
                out.append((p, b))
    return out


def panic_entry_shapes(body, bb):
    """For a panicking block: the list of (switch_bb, adt, place, missing_variants or None).
    None means the entering edge is not an `otherwise` edge of a discriminant switch."""
    live = reachable(body, (0,))
    sw = {s[0]: s for s in discr_switches(body)}
    shapes = []
    for p, b in _trivial_preds(body, bb, live):
        if p in sw:
            _, adt, m, otherwise, pl, allv = sw[p]
            # which edge p -> b ? it must be the otherwise edge (b reached from otherwise target)
            if otherwise == b and b not in m.values():
                shapes.append((p, adt, pl, sorted(allv - set(m.keys()))))
                continue
            if otherwise == b:
                shapes.append((p, adt, pl, sorted(allv - set(m.keys()))))
                continue
        shapes.append((p, None, None, None))
    return shapes


def discharge_exhaustive(site):
    if site.kind != "never":
        return None
    shapes = panic_entry_shapes(site.body, site.bb)
    if shapes and all(s[1] is not None and s[3] == [] for s in shapes):
        return "dead: every edge into the panic is the otherwise edge of a match listing all variants of %s" % ", ".join(sorted({s[1] for s in shapes}))
    return None


DISCHARGERS.append(discharge_exhaustive)


def discharge_is_some_guard(site):
    """x.unwrap()/expect() dominated by the true edge of x.is_some() (or the false edge of
    x.is_none()) on the same place, with no assignment to the place in between"""
    if site.kind != "ext" or not re.search(r"Option::<T>::(unwrap|expect)$", site.callee):
        return None
    body = site.body
    t = site.term
    rp = receiver_place(body, t)
    if rp is None:
        return None
    rkey = place_key(rp)
    dom = dominators(body)
    if site.bb not in dom:
        return None
    for d in dom[site.bb]:
        bt = body.blocks[d]["t"]
        if bt["k"] != "switch":
            continue
        l = op_local(bt["on"])
        hops = 0
        dd = None
        while l is not None and hops < 4:
            dd = single_def(body, l)
            if dd and dd[2] == "assign" and dd[3]["rv"]["k"] == "use":
                l = op_local(dd[3]["rv"]["a"]); hops += 1
                continue
            break
        if not dd or dd[2] != "call":
            continue
        m = re.search(r"Option::<T>::(is_some|is_none)$", callee_path(dd[3]))
        if not m:
            continue
        rp2 = receiver_place(body, dd[3])
        if rp2 is None or place_key(rp2) != rkey:
            continue
        zero_t = [x for v, x in bt["targets"] if v == 0]
        tgt = bt["otherwise"] if m.group(1) == "is_some" else (zero_t[0] if zero_t else None)
        if tgt is not None and tgt in dom[site.bb] and _edge_dominates(body, d, tgt, site.bb):
            return "is_some-guard: dominated by %s() == %s at %s" % (m.group(1), "true" if m.group(1) == "is_some" else "false", body.loc(bt.get("sp")))
    return None


def discharge_full_range(site):
    """drain(..) / drain(0..) / split_off(0): full-range arguments never panic"""
    if site.kind != "ext":
        return None
    name = site.callee.rsplit("::", 1)[-1]
    body = site.body
    t = site.term
    if name == "drain" and len(t["args"]) > 1:
        ty = operand_ty(body, t["args"][1]) or ""
        if ty == "std::ops::RangeFull":
            return "full-range: drain(..)"
        if ty.startswith("std::ops::RangeFrom<"):
            # RangeFrom { start: const 0 }
            l = op_local(t["args"][1])
            d = single_def(body, l) if l is not None else None
            if d and d[2] == "assign" and d[3]["rv"]["k"] == "agg" and d[3]["rv"]["ops"]:
                k = op_const(d[3]["rv"]["ops"][0])
                if k is not None and k.get("v") == 0:
                    return "full-range: drain(0..)"
    if name == "split_off" and len(t["args"]) > 1:
        k = op_const(t["args"][1])
        if k is not None and k.get("v") == 0:
            return "full-range: split_off(0)"
    return None


def discharge_const_divisor(site):
    """DivisionByZero / RemainderByZero whose condition is `Eq(const K, const 0)` with K != 0"""
    if site.kind not in ("assert:DivisionByZero", "assert:RemainderByZero"):
        return None
    body = site.body
    l = op_local(site.term["cond"])
    d = single_def(body, l) if l is not None else None
    if d and d[2] == "assign" and d[3]["rv"]["k"] == "bin" and d[3]["rv"]["op"] == "Eq":
        ka, kb = op_const(d[3]["rv"]["a"]), op_const(d[3]["rv"]["b"])
        if ka is not None and kb is not None and kb.get("v") == 0 and ka.get("v") not in (None, 0):
            return "const-divisor: divisor is the constant %d" % ka["v"]
    return None


def discharge_guarded_increment(site):
    """Overflow(Add, x, const 1) dominated by an edge that establishes x < y for some y of the
    same type: then x + 1 <= y <= MAX"""
    if site.kind != "assert:Overflow:Add":
        return None
    ops = site.term["ops"]
    kb = op_const(ops[1]) if len(ops) == 2 else None
    if kb is None or kb.get("v") != 1:
        return None
    body = site.body
    dom = dominators(body)
    if site.bb not in dom:
        return None
    for d in dom[site.bb]:
        bt = body.blocks[d]["t"]
        if bt["k"] != "switch":
            continue
        c = _cmp_defs(body, op_local(bt["on"])) if op_local(bt["on"]) is not None else None
        if not c:
            continue
        op, x, y, _ = c
        zero_t = [v for val, v in bt["targets"] if val == 0]
        zero_t = zero_t[0] if zero_t else None
        true_t = bt["otherwise"]
        edge = None
        if same_operand(body, x, ops[0]):
            if op == "Lt":
                edge = true_t
            elif op == "Ge":
                edge = zero_t
        elif same_operand(body, y, ops[0]):
            if op == "Gt":
                edge = true_t
            elif op == "Le":
                edge = zero_t
        if edge is not None and edge in dom[site.bb] and _edge_dominates(body, d, edge, site.bb):
            return "guarded-increment: x < bound established at %s, so x + 1 cannot overflow" % body.loc(bt.get("sp"))
    return None


DISCHARGERS.extend([discharge_is_some_guard, discharge_full_range, discharge_const_divisor, discharge_guarded_increment])


def panic_scope(ctx, rule, crate, entry_regexes, scope, desc, extra=()):
    """run the inventory for everything reachable from the entries; returns (entries, reach, sites)"""
    prog = ctx.progs[crate]
    cg = ctx.cg(crate)
    entries = []
    for r in entry_regexes:
        m = [b.id for b in prog.find(r)]
        if not m:
            ctx.anchor_missing(rule, "entry point %s not found in %s" % (r, crate))
        entries.extend(m)
    reach = cg.reach(entries)
    sites, cnt = inventory(prog, reach)
    apply_discharges(sites, extra)
    check_sites(ctx, rule, sites, scope, desc, cg, entries)
    ctx.stats["%s/%s/reachable_functions" % (rule, crate)] = len(reach)
    ctx.stats["%s/%s/ext_calls" % (rule, crate)] = cnt.get("ext-call", 0)
    for e in entries:
        ctx.ok(rule, e, "entry point analysed (%d reachable functions)" % len(reach), trivial=True)
    return entries, reach, sites
