"""Loading of the facts written by /verif/driver and basic accessors.

Everything here works on the JSON dump of rustc's MIR; nothing runs rumqtt code.
"""
import json, os, re, pickle

class Body:
    __slots__ = ("prog", "id", "view", "promoted", "kind", "raw", "blocks", "locals", "argc",
                 "name", "self_ty", "trait", "root", "parent", "_succ", "_pred", "_dom", "captures")

    def __init__(self, prog, raw):
        self.prog = prog
        self.raw = raw
        self.id = raw["id"]
        self.view = raw["view"]
        self.promoted = raw.get("promoted")
        self.kind = raw["kind"]
        self.blocks = raw["blocks"]
        self.locals = raw["locals"]
        self.argc = raw["argc"]
        self.name = raw.get("name")
        self.self_ty = raw.get("self")
        self.trait = raw.get("trait")
        self.root = raw.get("root")
        self.parent = raw.get("parent")
        self.captures = raw.get("captures")
        self._succ = None
        self._pred = None
        self._dom = None

    # ---- naming / locations
    def loc(self, sp):
        if sp is None:
            return "?"
        s = self.prog.spans[sp]
        return "%s:%d" % (s["f"], s["l"])

    def span(self, sp):
        return self.prog.spans[sp] if sp is not None else None

    def fn_loc(self):
        return self.loc(self.raw.get("sp"))

    def local_ty(self, l):
        return self.prog.types[self.locals[l]["ty"]]

    def local_name(self, l):
        return self.locals[l].get("n")

    def ty(self, ix):
        return self.prog.types[ix] if ix is not None else None

    def place_ty(self, pl):
        if pl.get("p"):
            return self.prog.types[pl["ty"]]
        return self.local_ty(pl["l"])

    # ---- CFG
    def term(self, bb):
        return self.blocks[bb]["t"]

    def succ(self, bb, unwind=False, imaginary=False):
        t = self.blocks[bb]["t"]
        k = t["k"]
        out = []
        if k == "switch":
            out = [x[1] for x in t["targets"]] + [t["otherwise"]]
        elif k in ("goto", "drop", "assert", "falseunwind"):
            out = [t["t"]]
        elif k == "call":
            if t.get("t") is not None:
                out = [t["t"]]
        elif k == "yield":
            out = [t["t"]]
        elif k == "falseedge":
            out = [t["t"]]
            if imaginary:
                out.append(t["imag"])
        if unwind:
            u = t.get("u")
            if u is not None:
                out.append(u)
            if k == "yield" and t.get("drop") is not None:
                out.append(t["drop"])
        # dedupe, keep order
        seen = set(); res = []
        for x in out:
            if x not in seen:
                seen.add(x); res.append(x)
        return res

    def succs(self):
        if self._succ is None:
            self._succ = [self.succ(i) for i in range(len(self.blocks))]
        return self._succ

    def preds(self):
        if self._pred is None:
            p = [[] for _ in self.blocks]
            for i, ss in enumerate(self.succs()):
                for s in ss:
                    p[s].append(i)
            self._pred = p
        return self._pred

    def is_cleanup(self, bb):
        return bool(self.blocks[bb].get("cleanup"))

    def calls(self):
        for i, b in enumerate(self.blocks):
            t = b["t"]
            if t["k"] == "call":
                yield i, t

    def __repr__(self):
        return "<Body %s %s%s>" % (self.view, self.id, "" if self.promoted is None else " promoted[%d]" % self.promoted)


class Program:
    def __init__(self, raw):
        self.crate = raw["crate"]
        self.types = raw["types"]
        self.spans = raw["spans"]
        self.adts = {a["id"]: a for a in raw["adts"]}
        self.impls = raw["impls"]
        self.consts = {c["id"]: c for c in raw["consts"]}
        self.ext = raw["ext"]
        self.A = {}
        self.R = {}
        self.promoted = {}
        self.stats = {k: raw[k] for k in ("a_bodies", "r_bodies", "ext_bodies_walked")}
        for b in raw["bodies"]:
            body = Body(self, b)
            if body.promoted is not None:
                self.promoted[(body.id, body.promoted)] = body
            elif body.view == "A":
                self.A[body.id] = body
            else:
                self.R[body.id] = body

    def find(self, regex, view="A"):
        r = re.compile(regex)
        d = self.A if view == "A" else self.R
        return [b for i, b in d.items() if r.search(i)]

    def get(self, id_, view="A"):
        d = self.A if view == "A" else self.R
        return d.get(id_)

    def one(self, regex, view="A"):
        m = self.find(regex, view)
        if len(m) != 1:
            raise AnchorMissing("expected exactly one body matching %r in %s, found %d: %s" % (
                regex, self.crate, len(m), [b.id for b in m][:6]))
        return m[0]

    def enum_variants(self, adt_id):
        a = self.adts.get(adt_id)
        if not a:
            return None
        return [v["n"] for v in a["variants"]]


class AnchorMissing(Exception):
    pass


def load_program(path):
    pk = path + ".pickle"
    try:
        if os.path.getmtime(pk) >= os.path.getmtime(path):
            with open(pk, "rb") as f:
                raw = pickle.load(f)
            return Program(raw)
    except OSError:
        pass
    with open(path) as f:
        raw = json.load(f)
    try:
        tmp = pk + ".%d" % os.getpid()
        with open(tmp, "wb") as f:
            pickle.dump(raw, f, protocol=pickle.HIGHEST_PROTOCOL)
        os.replace(tmp, pk)
    except OSError:
        pass
    return Program(raw)


# ------------------------------------------------------------------------------------------
# pretty printer (debugging aid: ./check dump <crate> <regex>)

def fmt_place(body, pl):
    s = "_%d" % pl["l"]
    n = body.local_name(pl["l"])
    if n:
        s += "{%s}" % n
    for p in pl.get("p") or []:
        if p == "*":
            s = "(*%s)" % s
        elif isinstance(p, str):
            s += "[%s]" % p
        elif "f" in p:
            s += ".%s" % p["f"]
        elif "d" in p:
            s = "(%s as %s)" % (s, p["d"])
        elif "ix" in p:
            s += "[_%d]" % p["ix"]
        elif "ci" in p:
            s += "[#%d]" % p["ci"]
    return s


def fmt_op(body, op):
    if "c" in op:
        return fmt_place(body, op["c"])
    if "m" in op:
        return "move " + fmt_place(body, op["m"])
    if "k" in op:
        k = op["k"]
        if "fn" in k:
            return "fn " + k["fn"]
        if "v" in k:
            return "const %d" % k["v"]
        return "const " + k.get("s", "?")
    if "rc" in op:
        return "runtime_checks(%s)" % op["rc"]
    return "?"


def fmt_rv(body, rv):
    k = rv["k"]
    if k == "use":
        return fmt_op(body, rv["a"])
    if k == "ref":
        return "&%s %s" % (rv["bk"], fmt_place(body, rv["pl"]))
    if k == "rawptr":
        return "&raw %s" % fmt_place(body, rv["pl"])
    if k == "cast":
        return "%s as %s (%s)" % (fmt_op(body, rv["a"]), body.ty(rv["ty"]), rv["ck"])
    if k == "bin":
        return "%s(%s, %s)" % (rv["op"], fmt_op(body, rv["a"]), fmt_op(body, rv["b"]))
    if k == "un":
        return "%s(%s)" % (rv["op"], fmt_op(body, rv["a"]))
    if k == "discr":
        return "discriminant(%s)" % fmt_place(body, rv["pl"])
    if k == "agg":
        name = rv.get("adt", rv["ak"])
        if rv.get("var"):
            name += "::" + rv["var"]
        return "%s(%s)" % (name, ", ".join(fmt_op(body, o) for o in rv["ops"]))
    if k == "repeat":
        return "[%s; _]" % fmt_op(body, rv["a"])
    return rv.get("s", k)


def fmt_term(body, t):
    k = t["k"]
    if k == "call":
        f = t["fn"]
        s = "%s = %s(%s) -> %s" % (fmt_place(body, t["dest"]), f.get("path"),
                                    ", ".join(fmt_op(body, a) for a in t["args"]), t.get("t"))
        if f.get("kind") not in ("item",):
            s += " [%s]" % f.get("kind")
        if t.get("u") is not None:
            s += " unwind %s" % t["u"]
        return s
    if k == "switch":
        return "switchInt(%s) -> %s otherwise %s" % (fmt_op(body, t["on"]), t["targets"], t["otherwise"])
    if k == "assert":
        return "assert(%s == %s, %s) -> %s" % (fmt_op(body, t["cond"]), t["expected"], t["msg"], t["t"])
    if k == "drop":
        return "drop(%s: %s) -> %s" % (fmt_place(body, t["pl"]), body.ty(t["ty"]), t["t"])
    if k == "yield":
        return "yield(%s) -> %s drop %s" % (fmt_op(body, t["v"]), t["t"], t.get("drop"))
    if k == "falseedge":
        return "falseEdge -> %s (imag %s)" % (t["t"], t["imag"])
    if k in ("goto", "falseunwind"):
        return "%s -> %s" % (k, t["t"])
    return k


def dump_body(body, out):
    out.write("fn %s  [%s view%s] %s\n" % (body.id, body.view,
              "" if body.promoted is None else " promoted %d" % body.promoted, body.fn_loc()))
    for i, l in enumerate(body.locals):
        out.write("    let _%d: %s%s\n" % (i, body.prog.types[l["ty"]], (" // " + l["n"]) if l.get("n") else ""))
    for i, b in enumerate(body.blocks):
        out.write("  bb%d%s:\n" % (i, " (cleanup)" if b.get("cleanup") else ""))
        for st in b["s"]:
            if "lhs" in st:
                out.write("      %s = %s   // %s\n" % (fmt_place(body, st["lhs"]), fmt_rv(body, st["rv"]), body.loc(st.get("sp"))))
            elif "setdiscr" in st:
                out.write("      discriminant(%s) = %d\n" % (fmt_place(body, st["setdiscr"]), st["v"]))
        t = b["t"]
        sp = t.get("sp")
        extra = ""
        if sp is not None:
            s = body.span(sp)
            extra = "   // %s" % body.loc(sp)
            if s.get("mx"):
                extra += " in %s" % ">".join(s["mx"])
            if s.get("ds"):
                extra += " desugar(%s)" % s["ds"]
        out.write("      %s%s\n" % (fmt_term(body, t), extra))
